"""
Clean-tree defect: calling an auto-versioned memento function through ANY modifier clone
(force_local(), partial(), with_context_args(), ...) switches the undeclared-dependency check
off for the calls it makes.
"""
import shutil
import sys
import tempfile

from twosigma.memento import Environment, memento_function
from twosigma.memento.exception import UndeclaredDependencyError


@memento_function
def hidden():
    return 7


@memento_function
def plain_caller():
    return globals()["hidden"]()


@memento_function
def local_caller():
    return globals()["hidden"]() + 1


@memento_function
def partial_caller(x):
    return globals()["hidden"]() + x


@memento_function
def ctx_caller():
    return globals()["hidden"]() + 3


def refused(label, thunk) -> bool:
    try:
        result = thunk()
    except UndeclaredDependencyError:
        print(label, "-> refused")
        return True
    print(label, "-> got a result instead of the undeclared-dependency error:", result)
    return False


def main() -> int:
    env_dir = tempfile.mkdtemp(prefix="c14defect1")
    try:
        with open(env_dir + "/env.json", "w") as f:
            f.write('{"name": "defect1"}')
        Environment.set(env_dir + "/env.json")
        for fn in (plain_caller, local_caller, partial_caller, ctx_caller):
            assert fn.explicit_version is None  # automatic version
            assert fn.dependencies().transitive_memento_fn_dependencies() == set()
        ok = [
            refused("plain_caller()", lambda: plain_caller()),
            refused("local_caller.force_local().call()", lambda: local_caller.force_local().call()),
            refused("partial_caller.partial(2)()", lambda: partial_caller.partial(2)()),
            refused(
                "ctx_caller.with_context_args({'a': 1}).call()",
                lambda: ctx_caller.with_context_args({"a": 1}).call(),
            ),
        ]
        assert all(ok), "hidden call to a function outside the closure was not refused"
        print("OK")
        return 0
    finally:
        shutil.rmtree(env_dir, ignore_errors=True)


if __name__ == "__main__":
    sys.exit(main())
