"""
Clean-HEAD observation: an omitted parameter with a default and the same value passed explicitly
bind equal values to the same parameters, yet get different keys (the body is run twice).
"""
import os
import shutil
import sys
import tempfile

sys.path.insert(0, os.path.dirname(os.path.abspath(__file__)))

from twosigma.memento import memento_function, Environment  # noqa: E402


class _Journal:
    path = None


@memento_function
def add(x, y=2):
    with open(_Journal.path, "a") as f:
        f.write("{},{}\n".format(x, y))
    return x + y


def main():
    env_dir = tempfile.mkdtemp(prefix="c04defect1")
    try:
        with open(os.path.join(env_dir, "env.json"), "w") as f:
            f.write('{"name": "defect1"}')
        Environment.set(os.path.join(env_dir, "env.json"))
        _Journal.path = os.path.join(env_dir, "journal.txt")

        assert add(1) == 3
        assert add(1, 2) == 3
        assert add(1, y=2) == 3
        with open(_Journal.path) as f:
            runs = f.read().split()
        ref = add.fn_reference()
        assert ref.with_args(1).arg_hash == ref.with_args(1, 2).arg_hash, (
            "add(1) and add(1, 2) bind x=1, y=2 but have different keys; body ran for "
            + repr(runs)
        )
    finally:
        shutil.rmtree(env_dir, ignore_errors=True)
    print("ok")


if __name__ == "__main__":
    main()
