"""
Defect at clean HEAD (C17): a merge parent that lives in another store and holds a None value
makes the child's memoization crash with AttributeError (not an IOError, so it is not handled as
a failed write either: the call itself raises).

A None value has no content key (NullStrategy stores nothing); PicklePartitionStrategy.store
passes that None to data_source.reference(), and _FilesystemDataSource.reference() dereferences
it as soon as the source is not the very same data source.
"""
import shutil
import sys
import tempfile

import twosigma.memento as m
from twosigma.memento import Environment, ConfigurationRepository, FunctionCluster
from twosigma.memento.partition import InMemoryPartition
from twosigma.memento.storage_filesystem import FilesystemStorageBackend

base_dir = tempfile.mkdtemp(prefix="c17_defect2_")
original_env = m.Environment.get()
m.Environment.set(
    Environment(
        name="defect2",
        base_dir=base_dir,
        repos=[
            ConfigurationRepository(
                name="repo",
                clusters={
                    "ca": FunctionCluster(
                        name="ca",
                        storage=FilesystemStorageBackend(path=base_dir + "/a"),
                    ),
                    "cb": FunctionCluster(
                        name="cb",
                        storage=FilesystemStorageBackend(path=base_dir + "/b"),
                    ),
                },
            )
        ],
    )
)


@m.memento_function(cluster="ca")
def parent():
    return InMemoryPartition({"x": None, "y": 1})


@m.memento_function(cluster="cb")
def child():
    p = InMemoryPartition({"z": 3})
    p._merge_parent = parent()
    return p


def as_dict(partition):
    return {k: partition.get(k) for k in partition.list_keys()}


EXPECTED = {"x": None, "y": 1, "z": 3}
try:
    parent()
    first = as_dict(child())
    second = as_dict(child())
    assert first == EXPECTED, first
    assert second == EXPECTED, second
finally:
    m.Environment.set(original_env)
    shutil.rmtree(base_dir, ignore_errors=True)
print("ok")
sys.exit(0)
