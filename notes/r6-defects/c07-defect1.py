"""
Unchanged tree: a content object that arrives in a store through DataSource.reference()
(partition merged with a parent that lives in another store) is not registered under its
content key, so the next result with the same bytes creates a second object for that hash.

Property C07: "results that serialize to the same bytes, whichever functions produced them,
share one stored object instead of creating another".
"""
import datetime
import glob
import os
import shutil
import sys
import tempfile

import twosigma.memento as m
from twosigma.memento.metadata import Memento, InvocationMetadata, ResultType
from twosigma.memento.partition import InMemoryPartition
from twosigma.memento.storage_filesystem import FilesystemStorageBackend
from twosigma.memento.types import VersionedDataSourceKey


@m.memento_function
def f(x):
    return x


def dummy_memento(ref, result_type):
    return Memento(
        time=datetime.datetime.now(datetime.timezone.utc),
        invocation_metadata=InvocationMetadata(
            runtime=datetime.timedelta(seconds=1),
            fn_reference_with_args=ref,
            result_type=result_type,
            invocations=[],
            resources=[],
        ),
        function_dependencies={ref.fn_reference},
        runner={},
        correlation_id="demo",
        content_key=VersionedDataSourceKey("unset", "0"),
    )


def memoize(backend, arg, value):
    ref = f.fn_reference().with_args(arg)
    backend.memoize(None, dummy_memento(ref, ResultType.from_object(value)), value)
    return backend.get_mementos([ref.fn_reference_with_arg_hash()])[0]


def main():
    root_a = tempfile.mkdtemp(prefix="c07_defect1_a_")
    root_b = tempfile.mkdtemp(prefix="c07_defect1_b_")
    store_a = FilesystemStorageBackend(path=root_a)
    store_b = FilesystemStorageBackend(path=root_b)

    # A partition with one member lives in store A
    mem_parent = memoize(store_a, 1, InMemoryPartition({"a": "payload"}))
    parent = store_a.read_result(mem_parent)

    # Store B memoizes a partition that extends it: the member object is brought over
    child = InMemoryPartition({"b": "other"})
    child._merge_parent = parent  # the way the library's own tests set a merge parent
    mem_child = memoize(store_b, 2, child)
    assert store_b.read_result(mem_child).get("a") == "payload"

    # Now a plain result with the same bytes is memoized in store B
    mem_plain = memoize(store_b, 3, "payload")
    content_hash = mem_plain.content_key.key.split("/")[1]
    objects = glob.glob(os.path.join(root_b, "c", ".versions", "*", content_hash))

    shutil.rmtree(root_a, ignore_errors=True)
    shutil.rmtree(root_b, ignore_errors=True)
    if len(objects) != 1:
        print(
            "FAIL: store B holds {} objects for content {}".format(
                len(objects), content_hash
            )
        )
        sys.exit(1)
    print("OK: one object per content hash")


if __name__ == "__main__":
    main()
