"""
defect1 (unchanged tree): the insertion order of a module-level dict is not part of the version.

A program can observe the order of a dict (`list(D)`, `next(iter(D))`, `D.popitem()`, iteration).
GlobalVariableHashRule serializes the value with `json.dumps(..., sort_keys=True)` and collects
its type marks over sorted keys, so `{"a": 1, "b": 2}` and `{"b": 2, "a": 1}` have one hash.
Re-binding the variable to the re-ordered dict (in-process here; the same happens across
processes) leaves the version unchanged and the memoized result of the earlier edition is
returned.

Exits non-zero on the unchanged tree.
"""
import importlib
import os
import sys
import tempfile

sys.dont_write_bytecode = True
ROOT = os.path.dirname(os.path.abspath(__file__))
sys.path.insert(0, ROOT)

from twosigma.memento import Environment  # noqa: E402

PROGRAM = '''
from twosigma.memento import memento_function

PRIORITY = {"a": 1, "b": 2}


@memento_function
def first(x):
    return list(PRIORITY)[0] * x
'''


def main():
    with tempfile.TemporaryDirectory(prefix="defect1") as work:
        os.mkdir(os.path.join(work, "defect1_pkg"))
        open(os.path.join(work, "defect1_pkg", "__init__.py"), "w").close()
        with open(os.path.join(work, "defect1_pkg", "prog.py"), "w") as f:
            f.write(PROGRAM)
        env_file = os.path.join(work, "env.json")
        with open(env_file, "w") as f:
            f.write('{"name": "defect1"}')
        Environment.set(env_file)
        sys.path.insert(0, work)
        prog = importlib.import_module("defect1_pkg.prog")

        assert prog.first(2) == "aa"
        prog.PRIORITY = {"b": 2, "a": 1}
        expected = prog.first.fn(2)
        assert expected == "bb"
        got = prog.first(2)
        assert got == expected, (
            "stale result: memoized call returned {!r} but the edited program "
            "computes {!r}".format(got, expected)
        )
    print("defect1: ok")


if __name__ == "__main__":
    main()
