"""
Defect on the unchanged tree (needs a storage fault): once the result blob of a memoized call is
lost while its metadata survives, the call is recomputed on EVERY later call and never memoized
again - the runner sees the stale metadata, concludes the result was "memoized elsewhere while we
were computing" and skips the write.

Expected by C02: after the (unavoidable) recomputation, later calls are served without running
the body again.
"""
import glob
import os
import shutil
import sys
import tempfile

import twosigma.memento as m
from twosigma.memento import Environment, ConfigurationRepository, FunctionCluster
from twosigma.memento.storage_filesystem import FilesystemStorageBackend


class _State:
    def __init__(self):
        self.dir = None


STATE = _State()


def _calls():
    path = os.path.join(STATE.dir, "f")
    return os.path.getsize(path) if os.path.exists(path) else 0


@m.memento_function(cluster="defect1", auto_dependencies=False)
def f():
    with open(os.path.join(STATE.dir, "f"), "a") as fh:
        fh.write("x")
    return [1, 2, 3]


def main():
    base = tempfile.mkdtemp(prefix="memento_defect1_")
    STATE.dir = tempfile.mkdtemp(prefix="memento_defect1_count_")
    original_env = Environment.get()
    try:
        storage = FilesystemStorageBackend(path=os.path.join(base, "data"))
        Environment.set(
            Environment(
                name="defect1",
                base_dir=base,
                repos=[
                    ConfigurationRepository(
                        name="repo1",
                        clusters={
                            "defect1": FunctionCluster(name="defect1", storage=storage)
                        },
                    )
                ],
            )
        )
        assert f() == [1, 2, 3]
        assert f() == [1, 2, 3]
        assert _calls() == 1

        # Fault: the content-addressed blob is lost (metadata stays)
        blobs = glob.glob(os.path.join(base, "data", "c", ".versions", "*", "*"))
        assert len(blobs) == 1
        os.remove(blobs[0])

        assert f() == [1, 2, 3]  # has to recompute: fine
        assert _calls() == 2
        assert f() == [1, 2, 3]
        assert _calls() == 2, "body ran again: {} runs (and so on for every call)".format(
            _calls()
        )
    finally:
        Environment.set(original_env)
        shutil.rmtree(base, ignore_errors=True)
        shutil.rmtree(STATE.dir, ignore_errors=True)
    print("defect1: OK")


if __name__ == "__main__":
    main()
    sys.exit(0)
