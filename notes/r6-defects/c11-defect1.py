"""
Defect on the unchanged tree (C11): a UTC instant does not survive the JSON codec when the
process runs with a local zone whose *abbreviation* is "UTC" but whose offset is not zero
(POSIX TZ strings such as "UTC+3" - commonly produced by people who want "UTC plus/minus n").

encode_datetime writes the "Z" suffix; decode_datetime hands the text to
dateutil.parser.parse, which reports the zone name "UTC" for "Z" and - because that name is
one of time.tzname - attaches tzlocal() instead of UTC. The decoded memento time (and every
zone-aware UTC argument, hence the argument hash) is shifted by the local offset.
"""
import os
import sys
import time

os.environ["TZ"] = "UTC+3"
time.tzset()

import datetime  # noqa: E402

from twosigma.memento.serialization import MementoCodec  # noqa: E402
from twosigma.memento.reference import ArgumentHasher  # noqa: E402


def main() -> int:
    original = datetime.datetime(2020, 1, 1, 12, 0, 0, tzinfo=datetime.timezone.utc)
    wire = MementoCodec.encode_arg(original)
    decoded = MementoCodec.decode_arg(wire)
    failures = []
    if decoded != original:
        failures.append(
            "instant changed: {} -> {} (wire {})".format(
                original.isoformat(), decoded.isoformat(), wire
            )
        )
    if ArgumentHasher.compute_hash({"when": decoded}) != ArgumentHasher.compute_hash(
        {"when": original}
    ):
        failures.append("argument hash changed")
    # The same happens to Memento.time, which is always UTC
    if MementoCodec.decode_datetime(MementoCodec.encode_datetime(original)) != original:
        failures.append("memento time changed")
    for f in failures:
        print("FAIL:", f)
    if not failures:
        print("OK")
    return 1 if failures else 0


if __name__ == "__main__":
    sys.exit(main())
