"""
Defect at clean HEAD (C17): a partition read back from the store that is given a merge parent
does not behave as "parent overlaid by own", neither in memory nor once stored, and the two
disagree with each other.

p1() = {x:1, y:1} over p0() = {w:0, x:0}   -> read back: PicklePartition {w:0 (inherited), x:1, y:1}
q()  = {y:2, z:2}
r()  : takes p1() (read back from disk), declares q() as its parent, returns it.

Overlay law: r() == q's entries overlaid by all of p1's entries == {w:0, x:1, y:1, z:2}
"""
import shutil
import sys
import tempfile

import twosigma.memento as m
from twosigma.memento import Environment, ConfigurationRepository, FunctionCluster
from twosigma.memento.partition import InMemoryPartition
from twosigma.memento.storage_filesystem import FilesystemStorageBackend

base_dir = tempfile.mkdtemp(prefix="c17_defect1_")
original_env = m.Environment.get()
m.Environment.set(
    Environment(
        name="defect1",
        base_dir=base_dir,
        repos=[
            ConfigurationRepository(
                name="repo",
                clusters={
                    "c17": FunctionCluster(
                        name="c17",
                        storage=FilesystemStorageBackend(path=base_dir + "/data"),
                    )
                },
            )
        ],
    )
)


@m.memento_function(cluster="c17")
def p0():
    return InMemoryPartition({"w": 0, "x": 0})


@m.memento_function(cluster="c17")
def p1():
    p = InMemoryPartition({"x": 1, "y": 1})
    p._merge_parent = p0()
    return p


@m.memento_function(cluster="c17")
def q():
    return InMemoryPartition({"y": 2, "z": 2})


@m.memento_function(cluster="c17")
def r():
    child = p1()  # read back from disk: PicklePartition
    child._merge_parent = q()
    return child


def as_dict(partition):
    return {k: partition.get(k) for k in partition.list_keys()}


EXPECTED = {"w": 0, "x": 1, "y": 1, "z": 2}
failures = []
try:
    p0()
    p1()
    q()
    first = as_dict(r())
    second = as_dict(r())
    if first != EXPECTED:
        failures.append("computing call: expected {}, got {}".format(EXPECTED, first))
    if second != EXPECTED:
        failures.append("read back: expected {}, got {}".format(EXPECTED, second))
    if first != second:
        failures.append("computing call and read back disagree")
finally:
    m.Environment.set(original_env)
    shutil.rmtree(base_dir, ignore_errors=True)

for f in failures:
    print("FAIL:", f)
sys.exit(1 if failures else 0)
