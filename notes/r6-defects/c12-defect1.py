"""
C12 defect 1 (unchanged tree, cluster with memory_cache_mb): a caller with a pinned version has stored a result; its memento mentions the
callee's version. The memento is looked at (memento query, listing), then the callee is
edited or removed, then the memento is looked at again through the very same environment and
storage objects. The entry must still be served, and the callee version that no longer
exists must now be reported as an external reference.
"""
import importlib
import os
import shutil
import sys
import tempfile
import textwrap

HERE = os.path.dirname(os.path.abspath(__file__))
sys.path.insert(0, HERE)

import twosigma.memento as m  # noqa: E402
from twosigma.memento import (  # noqa: E402
    Environment,
    ConfigurationRepository,
    FunctionCluster,
)
from twosigma.memento.storage_filesystem import FilesystemStorageBackend  # noqa: E402

tmp = tempfile.mkdtemp(prefix="c12_defect1_")
sys.path.insert(0, tmp)
MOD = "c12_defect1_mod"

SRC = '''
import twosigma.memento as m

@m.memento_function{callee_deco}
def callee(x):
    return x + {delta}

@m.memento_function({cluster_kw}version="rel-1.0:rc#2")
def caller(x):
    return callee(x) * 2
'''


def write_mod(cluster, delta):
    src = SRC.format(
        callee_deco='(cluster="{}")'.format(cluster) if cluster else "",
        cluster_kw='cluster="{}", '.format(cluster) if cluster else "",
        delta=delta,
    )
    with open(os.path.join(tmp, MOD + ".py"), "w") as f:
        f.write(textwrap.dedent(src))
    importlib.invalidate_caches()


# One environment for the whole run; the named cluster has a memory cache
m.Environment.set(
    Environment(
        name="defect1",
        base_dir=tmp,
        repos=[
            ConfigurationRepository(
                name="r",
                clusters={
                    "team@x": FunctionCluster(
                        name="team@x",
                        storage=FilesystemStorageBackend(
                            path=tmp + "/named", memory_cache_mb=16
                        ),
                    )
                },
            )
        ],
    )
)


def refs_of(memento):
    deps = {r.qualified_name: r.external for r in memento.function_dependencies}
    invs = {
        i.fn_reference.qualified_name: i.fn_reference.external
        for i in memento.invocation_metadata.invocations
    }
    return deps, invs


def scenario(cluster, evolution):
    label = "[{} / {}]".format(cluster or "default", evolution)
    m.forget_cluster(cluster)
    write_mod(cluster, 1)
    mod = importlib.reload(importlib.import_module(MOD))
    assert mod.caller(3) == 8
    own_qn = mod.caller.fn_reference().qualified_name
    callee_qn = mod.callee.fn_reference().qualified_name

    # look at the entry while everything it mentions still exists
    deps, invs = refs_of(mod.caller.memento(3))
    assert deps == {own_qn: False, callee_qn: False}, label
    assert invs == {callee_qn: False}, label
    assert len(mod.caller.list_mementos()) == 1

    # the code base moves on; the caller's version is pinned
    if evolution == "edited":
        write_mod(cluster, 5)
        mod = importlib.reload(mod)
        assert mod.callee.fn_reference().qualified_name != callee_qn
    else:
        delattr(mod, "callee")
    assert mod.caller.fn_reference().qualified_name == own_qn

    # the entry is still served ...
    assert mod.caller(3) == 8, label
    for memento in [mod.caller.memento(3)] + mod.caller.list_mementos():
        assert memento is not None, label
        deps, invs = refs_of(memento)
        # ... and the callee version that is gone is an external reference now
        assert deps == {own_qn: False, callee_qn: True}, "{} dependencies {}".format(
            label, deps
        )
        assert invs == {callee_qn: True}, "{} invocations {}".format(label, invs)
    listed = {r.qualified_name: r.external for r in m.list_memoized_functions(cluster)}
    assert listed == {own_qn: False, callee_qn: True}, label


try:
    for cluster in (None, "team@x"):
        for evolution in ("edited", "removed"):
            scenario(cluster, evolution)
    print("defect1: ok")
finally:
    shutil.rmtree(tmp, ignore_errors=True)
