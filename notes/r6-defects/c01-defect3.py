"""
defect3 (unchanged tree): calling a function through a modifier clone (`force_local()`,
`ignore_result()`, `partial()`, ...) disables the undeclared-dependency check for the calls
made by its body, and the result is memoized under the automatically computed version.

`clone_with` passes `version=self.version()`, so the clone has an explicit version;
`_validate_dependency` returns early when the *caller* has an explicit version. A hidden dynamic
call made while the clone runs is therefore accepted, and the memento is stored under the key of
the registered function. A later plain call of the function finds it; after the hidden callee is
edited the version (which does not cover the callee) is unchanged and the stale value is
returned instead of the new value or UndeclaredDependencyError.

Exits non-zero on the unchanged tree.
"""
import importlib
import os
import sys
import tempfile

sys.dont_write_bytecode = True
ROOT = os.path.dirname(os.path.abspath(__file__))
sys.path.insert(0, ROOT)

from twosigma.memento import Environment  # noqa: E402
from twosigma.memento.exception import UndeclaredDependencyError  # noqa: E402

PROGRAM = '''
from twosigma.memento import memento_function


@memento_function
def rate():
    return {rate}


@memento_function
def price(x):
    # hidden dynamic call, not declared
    fn = globals()["ra" + "te"]
    return x * fn()
'''


def main():
    with tempfile.TemporaryDirectory(prefix="defect3") as work:
        os.mkdir(os.path.join(work, "defect3_pkg"))
        open(os.path.join(work, "defect3_pkg", "__init__.py"), "w").close()
        path = os.path.join(work, "defect3_pkg", "prog.py")
        with open(path, "w") as f:
            f.write(PROGRAM.format(rate=2))
        env_file = os.path.join(work, "env.json")
        with open(env_file, "w") as f:
            f.write('{"name": "defect3"}')
        Environment.set(env_file)
        sys.path.insert(0, work)
        prog = importlib.import_module("defect3_pkg.prog")

        # A plain call is refused, as it should be
        try:
            prog.price(1)
            raise AssertionError("expected UndeclaredDependencyError")
        except UndeclaredDependencyError:
            pass

        # Through a modifier the hidden call is accepted and the result is memoized
        try:
            prog.price.force_local()(3)
        except UndeclaredDependencyError:
            pass

        # Edit the hidden callee, re-execute the definitions
        with open(path, "w") as f:
            f.write(PROGRAM.format(rate=7))
        importlib.invalidate_caches()
        prog = importlib.reload(prog)

        expected = prog.price.fn(3)
        assert expected == 21
        try:
            got = prog.price(3)
        except UndeclaredDependencyError:
            got = expected  # allowed by the property
        assert got == expected, (
            "stale result: memoized call returned {!r} but the edited program "
            "computes {!r}".format(got, expected)
        )
    print("defect3: ok")


if __name__ == "__main__":
    main()
