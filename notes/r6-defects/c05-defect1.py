"""
Unchanged tree: the filesystem backend mis-handles function versions that contain '%XX' or '/'
(versions are free-form strings chosen by the user; the memory backend handles them).
"""
import datetime
import shutil
import sys
import tempfile

import twosigma.memento as m
from twosigma.memento.metadata import InvocationMetadata, Memento, ResultType
from twosigma.memento.storage_filesystem import FilesystemStorageBackend
from twosigma.memento.storage_memory import MemoryStorageBackend
from twosigma.memento.types import VersionedDataSourceKey


@m.memento_function(version="1%2E5")
def f(a):
    return a


@m.memento_function(version="a")
def g(a):
    return a


# a second version of the same function g, "a/b"
g_ab = m.memento_function(version="a/b")(g.fn)


def dummy_memento(call) -> Memento:
    return Memento(
        time=datetime.datetime.now(datetime.timezone.utc),
        invocation_metadata=InvocationMetadata(
            runtime=datetime.timedelta(seconds=1.0),
            fn_reference_with_args=call,
            result_type=ResultType.number,
            invocations=[],
            resources=[],
        ),
        function_dependencies={call.fn_reference},
        runner={},
        correlation_id="abc123",
        content_key=VersionedDataSourceKey("def456", "0"),
    )


def run(backend, name):
    failures = []
    refs = [f.fn_reference(), g.fn_reference(), g_ab.fn_reference()]
    for ref in refs:
        backend.memoize(None, dummy_memento(ref.with_args(1)), 1)
    listed = sorted(x.qualified_name for x in backend.list_functions())
    expected = sorted(x.qualified_name for x in refs)
    if listed != expected:
        failures.append(
            "{}: list_functions() = {} but memoized {}".format(name, listed, expected)
        )
    # forgetting version "a" of g must leave version "a/b" alone
    backend.forget_function(g.fn_reference())
    call = g_ab.fn_reference().with_args(1)
    if not backend.is_memoized(call.fn_reference, call.arg_hash):
        failures.append(
            "{}: forget_function({}) also forgot {}".format(
                name, g.fn_reference().qualified_name, call.fn_reference.qualified_name
            )
        )
    return failures


def main() -> int:
    base = tempfile.mkdtemp(prefix="c05_defect1_")
    try:
        failures = run(MemoryStorageBackend(), "memory")
        failures += run(FilesystemStorageBackend(path=base + "/fs"), "filesystem")
    finally:
        shutil.rmtree(base, ignore_errors=True)
    for line in failures:
        print(line)
    return 1 if failures else 0


if __name__ == "__main__":
    sys.exit(main())
