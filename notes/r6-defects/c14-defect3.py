"""
Clean-tree defect: in the dependency graph a memento function with an explicit version has no
out-edges, although the transitive dependencies (correctly) go through it.
"""
import shutil
import sys
import tempfile

from twosigma.memento import Environment, memento_function


@memento_function
def leaf():
    return 1


@memento_function(version="1")
def pinned():
    return leaf() + 1


@memento_function
def top():
    return pinned() + 1


def main() -> int:
    env_dir = tempfile.mkdtemp(prefix="c14defect3")
    try:
        with open(env_dir + "/env.json", "w") as f:
            f.write('{"name": "defect3"}')
        Environment.set(env_dir + "/env.json")
        deps = top.dependencies()
        assert deps.transitive_memento_fn_dependencies() == {pinned, leaf}
        assert deps.direct_memento_fn_dependencies() == {pinned}
        got = sorted((r.src, r.target) for r in deps.df().itertuples())
        print("graph of top:", got)
        assert got == [
            ("__main__:pinned", "__main__:leaf"),
            ("__main__:top", "__main__:pinned"),
        ], "pinned reaches leaf: the graph must have that edge"
        print("OK")
        return 0
    finally:
        shutil.rmtree(env_dir, ignore_errors=True)


if __name__ == "__main__":
    sys.exit(main())
