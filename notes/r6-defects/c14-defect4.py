"""
Clean-tree finding: "transitive" dependencies are not transitive across packages. The package
scope of the analysis is the package of the ROOT function for the whole walk, so the plain
helpers of a dependency that lives in another package are not followed, although that
dependency follows them itself.
"""
import importlib
import os
import shutil
import sys
import tempfile
import textwrap

from twosigma.memento import Environment

LIB = '''
from twosigma.memento import memento_function

@memento_function
def fx():
    return 2

def _lookup():
    return fx()

@memento_function
def price():
    return _lookup() * 10
'''
APP = '''
from twosigma.memento import memento_function
from lib.calc import price

@memento_function
def report():
    return price() + 1
'''


def main() -> int:
    work_dir = tempfile.mkdtemp(prefix="c14defect4")
    try:
        with open(work_dir + "/env.json", "w") as f:
            f.write('{"name": "defect4"}')
        Environment.set(work_dir + "/env.json")
        for pkg, mod, src in (("lib", "calc", LIB), ("app", "main", APP)):
            os.mkdir(os.path.join(work_dir, pkg))
            open(os.path.join(work_dir, pkg, "__init__.py"), "w").close()
            with open(os.path.join(work_dir, pkg, mod + ".py"), "w") as f:
                f.write(textwrap.dedent(src))
        sys.path.insert(0, work_dir)
        importlib.invalidate_caches()
        calc = importlib.import_module("lib.calc")
        app = importlib.import_module("app.main")

        assert calc.price.dependencies().transitive_memento_fn_dependencies() == {calc.fx}
        graph = sorted((r.src, r.target) for r in app.report.dependencies().df().itertuples())
        print("graph of report:", graph)
        assert ("lib.calc:price", "lib.calc:fx") in graph  # the graph knows
        transitive = app.report.dependencies().transitive_memento_fn_dependencies()
        print("transitive of report:", transitive)
        assert transitive == {calc.price, calc.fx}, (
            "report -> price -> _lookup -> fx: fx is reachable, and is a node of report's own "
            "graph, but is not among its transitive dependencies"
        )
        print("OK")
        return 0
    finally:
        sys.path[:] = [p for p in sys.path if p != work_dir]
        shutil.rmtree(work_dir, ignore_errors=True)


if __name__ == "__main__":
    sys.exit(main())
