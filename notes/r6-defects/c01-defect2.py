"""
defect2 (unchanged tree, Python 3.12+): a global that has the same name as a comprehension
variable of the function is not tracked.

Since PEP 709 comprehensions are inlined, so the comprehension variable appears in
`co_varnames` of the enclosing function although, outside the comprehension, the name still
refers to the global. `list_dotted_names` removes everything in `co_varnames` from the detected
names, so no rule is made for the global and editing it does not change the version.

Exits non-zero on the unchanged tree (on Python >= 3.12).
"""
import importlib
import os
import sys
import tempfile

sys.dont_write_bytecode = True
ROOT = os.path.dirname(os.path.abspath(__file__))
sys.path.insert(0, ROOT)

from twosigma.memento import Environment  # noqa: E402

PROGRAM = '''
from twosigma.memento import memento_function

k = 5


@memento_function
def total(xs):
    doubled = [k * 2 for k in xs]
    return sum(doubled) + k
'''


def main():
    with tempfile.TemporaryDirectory(prefix="defect2") as work:
        os.mkdir(os.path.join(work, "defect2_pkg"))
        open(os.path.join(work, "defect2_pkg", "__init__.py"), "w").close()
        with open(os.path.join(work, "defect2_pkg", "prog.py"), "w") as f:
            f.write(PROGRAM)
        env_file = os.path.join(work, "env.json")
        with open(env_file, "w") as f:
            f.write('{"name": "defect2"}')
        Environment.set(env_file)
        sys.path.insert(0, work)
        prog = importlib.import_module("defect2_pkg.prog")

        assert prog.total([1, 2]) == 11
        prog.k = 100
        expected = prog.total.fn([1, 2])
        assert expected == 106
        got = prog.total([1, 2])
        assert got == expected, (
            "stale result: memoized call returned {!r} but the edited program "
            "computes {!r}".format(got, expected)
        )
    print("defect2: ok")


if __name__ == "__main__":
    main()
