"""
defect1 (fails on the UNCHANGED tree): two threads recompute the version of the same function
around a re-binding of a tracked global. The instance ends up with the hash rules of the later
computation (X == 2) and the version of the earlier one (X == 1); the cache entry says the
same, at the current generation. From then on every query finds "generation current, no rule
changed" and returns the version for X == 1, for ever, although no thread is running any more.

Interleaving (forced with events):
  B  starts f.version(), finishes _recompute_version while X == 1, is held before it stores
  main re-binds X = 2
  A  calls f.version() -> recomputes, stores rules and version for X == 2   (correct)
  B  is released -> overwrites _calculated_version and the cache entry with the X == 1 version,
     but self._hash_rules are A's
  main f.version() -> stale
"""
import importlib
import json
import os
import shutil
import subprocess
import sys
import tempfile
import threading

ROOT = os.path.dirname(os.path.abspath(__file__))
sys.path.insert(0, ROOT)

MODULE = "defect1_prog"

TEMPLATE = """\
import twosigma.memento as m

X = {x}


@m.memento_function
def f(a):
    return a + X
"""

LATE = """\
import twosigma.memento as m


@m.memento_function
def late(a):
    return a
"""

FRESH = """\
import json, os, sys, tempfile
sys.path.insert(0, {root!r})
sys.path.insert(0, {src_dir!r})
from twosigma.memento import Environment
d = tempfile.mkdtemp(prefix="defect1fresh")
with open(os.path.join(d, "env.json"), "w") as fh:
    fh.write('{{"name": "fresh"}}')
Environment.set(os.path.join(d, "env.json"))
import {module} as prog
print(json.dumps(prog.f.version()))
"""


def fresh_version(work, x, tag):
    src_dir = os.path.join(work, "fresh_" + tag)
    os.makedirs(src_dir)
    with open(os.path.join(src_dir, MODULE + ".py"), "w") as fh:
        fh.write(TEMPLATE.format(x=x))
    script = os.path.join(src_dir, "run.py")
    with open(script, "w") as fh:
        fh.write(FRESH.format(root=ROOT, src_dir=src_dir, module=MODULE))
    out = subprocess.run(
        [sys.executable, script], check=True, capture_output=True, text=True, cwd=work
    ).stdout
    return json.loads(out.strip().splitlines()[-1])


def main():
    work = tempfile.mkdtemp(prefix="defect1")
    try:
        from twosigma.memento import Environment, MementoFunction

        env_file = os.path.join(work, "env.json")
        with open(env_file, "w") as fh:
            fh.write('{"name": "defect1"}')
        Environment.set(env_file)

        live_dir = os.path.join(work, "live")
        os.makedirs(live_dir)
        with open(os.path.join(live_dir, MODULE + ".py"), "w") as fh:
            fh.write(TEMPLATE.format(x=1))
        sys.path.insert(0, live_dir)
        prog = importlib.import_module(MODULE)

        expected_1 = fresh_version(work, 1, "x1")
        expected_2 = fresh_version(work, 2, "x2")
        assert expected_1 != expected_2
        assert prog.f.version() == expected_1

        # Another memento function is defined: every cached version is out of date now
        late_file = os.path.join(live_dir, "late.py")
        with open(late_file, "w") as fh:
            fh.write(LATE)
        exec(compile(LATE, late_file, "exec"), prog.__dict__)

        b_has_evaluated = threading.Event()
        release_b = threading.Event()
        held = {"thread": None}
        original = MementoFunction._recompute_version

        def recompute_and_hold(self):
            version = original(self)
            if threading.current_thread() is held["thread"]:
                b_has_evaluated.set()
                assert release_b.wait(60)
            return version

        MementoFunction._recompute_version = recompute_and_hold
        results = {}

        def query(name):
            results[name] = prog.f.version()

        thread_b = threading.Thread(target=query, args=("b",), daemon=True)
        held["thread"] = thread_b
        thread_a = threading.Thread(target=query, args=("a",), daemon=True)
        try:
            thread_b.start()
            assert b_has_evaluated.wait(60), "B never got to evaluate the rules"

            prog.X = 2  # the event

            thread_a.start()
            # A does not depend on B on a correct tree and finishes at once. If it is waiting
            # for B, B is let go after a while so that the outcome can be observed.
            thread_a.join(5)
            release_b.set()
            thread_a.join(60)
            thread_b.join(60)
        finally:
            release_b.set()
            MementoFunction._recompute_version = original

        assert not thread_a.is_alive() and not thread_b.is_alive()
        assert results["a"] == expected_2
        # Both threads are done. The program has X == 2 and nothing else happens any more.
        final = [prog.f.version() for _ in range(3)]
        assert final == [expected_2] * 3, (
            "after both threads finished, f.version() keeps returning {} "
            "(fresh process: {}, version for X = 1: {})".format(final, expected_2, expected_1)
        )
        print("defect1 ok")
    finally:
        shutil.rmtree(work, ignore_errors=True)


if __name__ == "__main__":
    main()
