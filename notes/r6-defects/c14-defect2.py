"""
Clean-tree defect (Python 3.12+, PEP 709 inlined comprehensions): a comprehension variable that
has the name of a global memento function hides the reference the function makes to that global.
"""
import shutil
import sys
import tempfile

from twosigma.memento import Environment, memento_function
from twosigma.memento.exception import UndeclaredDependencyError


@memento_function
def scale():
    return 7


@memento_function
def total(xs):
    doubled = [scale * 2 for scale in xs]  # `scale` here is the comprehension variable
    return sum(doubled) * scale()  # ... and here it is the global memento function


def main() -> int:
    env_dir = tempfile.mkdtemp(prefix="c14defect2")
    try:
        with open(env_dir + "/env.json", "w") as f:
            f.write('{"name": "defect2"}')
        Environment.set(env_dir + "/env.json")
        # plain Python semantics: the global is what `scale()` calls
        assert total.fn([1, 2]) == 6 * 7
        deps = total.dependencies()
        print("co_varnames:", total.fn.__code__.co_varnames)
        print("transitive:", deps.transitive_memento_fn_dependencies())
        assert deps.transitive_memento_fn_dependencies() == {scale}, "scale is named in the body"
        assert deps.direct_memento_fn_dependencies() == {scale}
        try:
            assert total([1, 2]) == 42
        except UndeclaredDependencyError as e:
            raise AssertionError("call inside the closure refused: {}".format(e))
        print("OK")
        return 0
    finally:
        shutil.rmtree(env_dir, ignore_errors=True)


if __name__ == "__main__":
    sys.exit(main())
