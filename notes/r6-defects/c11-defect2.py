"""
Defect on the unchanged tree (C11, at the "memento JSON files written by the filesystem
backend" observation point): the memoized function is called with the very list/dict objects
that the memento keeps as its recorded arguments (runner_local passes
fn_reference_with_args.effective_kwargs, whose values are the objects in .args/.kwargs).
A function that mutates a list argument therefore rewrites the recorded arguments before the
memento is encoded: the file stored under the hash of [1, 2] describes a call with
[1, 2, 99], and the argument hash recomputed from the decoded arguments is not the one the
memento is stored under.
"""
import shutil
import sys
import tempfile

import twosigma.memento as m
from twosigma.memento import (
    Environment,
    ConfigurationRepository,
    FunctionCluster,
    memento_function,
)
from twosigma.memento.storage_filesystem import FilesystemStorageBackend


@memento_function(cluster="c11defect2")
def consume(xs):
    xs.append(99)
    return len(xs)


def main() -> int:
    base = tempfile.mkdtemp(prefix="c11_defect2_")
    original_env = m.Environment.get()
    try:
        m.Environment.set(
            Environment(
                name="defect2",
                base_dir=base,
                repos=[
                    ConfigurationRepository(
                        name="r",
                        clusters={
                            "c11defect2": FunctionCluster(
                                name="c11defect2",
                                storage=FilesystemStorageBackend(path=base + "/store"),
                            )
                        },
                    )
                ],
            )
        )
        consume([1, 2])
        expected = consume.fn_reference().with_args([1, 2])
        stored = consume.memento([1, 2])
        got = stored.invocation_metadata.fn_reference_with_args
        failures = []
        if got.arg_hash != expected.arg_hash:
            failures.append(
                "memento stored under {} decodes to arg hash {}".format(
                    expected.arg_hash, got.arg_hash
                )
            )
        if got.args != expected.args:
            failures.append(
                "recorded args {} instead of {}".format(got.args, expected.args)
            )
        for f in failures:
            print("FAIL:", f)
        if not failures:
            print("OK")
        return 1 if failures else 0
    finally:
        m.Environment.set(original_env)
        shutil.rmtree(base, ignore_errors=True)


if __name__ == "__main__":
    sys.exit(main())
