"""
Defect on the UNCHANGED tree (C05): with a memory cache, read_result() of a memento that was
obtained before the call was forgotten puts the forgotten call back into the cache.
"""
import datetime
import shutil
import sys
import tempfile

from twosigma.memento import Memento, InvocationMetadata, memento_function
from twosigma.memento.metadata import ResultType
from twosigma.memento.storage_filesystem import FilesystemStorageBackend
from twosigma.memento.storage_memory import MemoryStorageBackend


@memento_function(version="1")
def fn_a(x):
    return x


def make(fn, arg, result):
    ref = fn.fn_reference().with_args(arg)
    memento = Memento(
        time=datetime.datetime.now(datetime.timezone.utc),
        invocation_metadata=InvocationMetadata(
            runtime=datetime.timedelta(seconds=1.0),
            fn_reference_with_args=ref,
            result_type=ResultType.from_object(result),
            invocations=[],
            resources=[],
        ),
        function_dependencies={ref.fn_reference},
        runner={},
        correlation_id="demo",
        content_key=None,
    )
    return ref, memento



def main():
    base = tempfile.mkdtemp(prefix="c05_defect1_")
    failures = []
    try:
        b = FilesystemStorageBackend(
            path=base + "/d", metadata_path=base + "/m", memory_cache_mb=1
        )
        # 1. forgotten call reappears
        ref, memento = make(fn_a, 1, "hello")
        b.memoize(None, memento, "hello")
        h = ref.fn_reference_with_arg_hash()
        held = b.get_memento(h)  # e.g. fn.memento(1), kept by the caller
        b.forget_call(h)
        assert not b.is_memoized(ref.fn_reference, ref.arg_hash)
        try:
            b.read_result(held)  # the data object is still in the store, so this succeeds
        except Exception:
            pass
        if b.is_memoized(ref.fn_reference, ref.arg_hash):
            failures.append("forgotten call is memoized again after read_result(old memento)")
        if b.get_memento(h) is not None:
            failures.append("get_memento returns a memento for the forgotten call")
        if b.list_mementos(ref.fn_reference):
            failures.append("list_mementos lists the forgotten call")

        # 2. superseded memento/value come back after the entry left the cache
        b.forget_everything()
        ref, m_old = make(fn_a, 2, "old")
        b.memoize(None, m_old, "old")
        h = ref.fn_reference_with_arg_hash()
        held = b.get_memento(h)
        ref, m_new = make(fn_a, 2, "new")
        b.memoize(None, m_new, "new")
        b._memory_cache.forget_everything()  # stands for LRU eviction by other traffic
        b.read_result(held)
        got = b.read_result(b.get_memento(h))
        if got != "new":
            failures.append(
                "after re-memoize, read_result(get_memento(call)) == {!r}, expected 'new'".format(got)
            )
    finally:
        shutil.rmtree(base, ignore_errors=True)
    for f in failures:
        print("FAIL:", f)
    sys.exit(1 if failures else 0)


if __name__ == "__main__":
    main()
