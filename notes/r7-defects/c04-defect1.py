"""
C04, unchanged tree: the key is NOT invariant under partial application when a positional
partial follows a keyword partial.

Positional arguments given at call time fill the parameters that are still open (those not
bound by the partial's kwargs), in order. Positional arguments given to .partial() are bound
by absolute index instead, silently overwriting a parameter already bound by keyword. So

    f.partial(a=1)(5)            binds a=1, b=5
    f.partial(a=1).partial(5)()  binds a=5        (a=1 is dropped, b left to its default)

and the second shares its key and memoized result with f(5), a call that binds different
values. By the property the two presentations must agree (same key, or both rejected).

Exits 0 if they agree, non-zero otherwise (fails at clean HEAD).
"""
import os
import shutil
import sys
import tempfile

from twosigma.memento import memento_function, Environment


@memento_function(version="1")
def f(a, b=0):
    return [a, b]


def presentation(thunk):
    """(key, effective kwargs) of a presentation, or the exception type if it is rejected"""
    try:
        fa = thunk()
        return fa.arg_hash, fa.effective_kwargs
    except Exception as e:  # noqa
        return type(e).__name__, None


def main():
    env_dir = tempfile.mkdtemp(prefix="c04defect1_env")
    env_before = Environment.get()
    try:
        env_file = os.path.join(env_dir, "env.json")
        with open(env_file, "w") as fh:
            fh.write('{"name": "demo"}')
        Environment.set(env_file)

        at_call = presentation(lambda: f.partial(a=1).fn_reference().with_args(5))
        at_partial = presentation(
            lambda: f.partial(a=1).partial(5).fn_reference().with_args()
        )
        unrelated = presentation(lambda: f.fn_reference().with_args(5))
        print("f.partial(a=1)(5)           ->", at_call)
        print("f.partial(a=1).partial(5)() ->", at_partial)
        print("f(5)                        ->", unrelated)

        assert at_partial[0] != unrelated[0], (
            "f.partial(a=1).partial(5)() has the key of f(5): the bound a=1 was dropped"
        )
        assert at_call[0] == at_partial[0], (
            "binding 5 positionally via .partial() and at call time give different keys"
        )

        # Same thing with a later parameter: the call-time form is rejected (no open
        # parameter is left for the second positional), the partial form rebinds b silently.
        at_call2 = presentation(lambda: f.partial(b=7).fn_reference().with_args(1, 2))
        at_partial2 = presentation(
            lambda: f.partial(b=7).partial(1, 2).fn_reference().with_args()
        )
        assert at_call2[0] == at_partial2[0], (at_call2, at_partial2)
    finally:
        Environment.set(env_before)
        shutil.rmtree(env_dir, ignore_errors=True)

    print("defect1: presentations agree")
    return 0


if __name__ == "__main__":
    sys.exit(main())
