"""
defect1 (unchanged tree): the value handed back by a call is the very object kept by the
memory backend / the memory cache, so a caller that uses (modifies) the list or dict it got
changes what later calls return. A filesystem store without cache returns [1, 2] every
time; the memory store and a filesystem store with a cache return [1, 2, 99].
"""
import shutil
import sys
import tempfile

import twosigma.memento as m
from twosigma.memento import Environment, ConfigurationRepository, FunctionCluster
from twosigma.memento.runner_local import LocalRunnerBackend
from twosigma.memento.storage_filesystem import FilesystemStorageBackend
from twosigma.memento.storage_memory import MemoryStorageBackend


@m.memento_function(cluster="fs", auto_dependencies=False)
def f_fs(x):
    return [x, x + 1]


@m.memento_function(cluster="fs_cached", auto_dependencies=False)
def f_fs_cached(x):
    return [x, x + 1]


@m.memento_function(cluster="mem", auto_dependencies=False)
def f_mem(x):
    return [x, x + 1]


def main():
    base = tempfile.mkdtemp(prefix="memento_defect1_")
    original_env = m.Environment.get()
    failures = []
    try:
        clusters = {
            "fs": FilesystemStorageBackend(path=base + "/a"),
            "fs_cached": FilesystemStorageBackend(path=base + "/b", memory_cache_mb=1),
            "mem": MemoryStorageBackend(),
        }
        m.Environment.set(
            Environment(
                name="demo",
                base_dir=base,
                repos=[
                    ConfigurationRepository(
                        name="repo",
                        clusters={
                            name: FunctionCluster(
                                name=name, storage=storage, runner=LocalRunnerBackend()
                            )
                            for name, storage in clusters.items()
                        },
                    )
                ],
            )
        )
        for fn in (f_fs, f_fs_cached, f_mem):
            first = fn(1)
            assert first == [1, 2]
            first.append(99)  # the caller goes on working with its result
            later = fn(1)
            if later != [1, 2]:
                failures.append((fn.fn_reference().cluster_name, later))
        assert not failures, "later calls returned a different value: {}".format(
            failures
        )
        print("OK")
    finally:
        m.Environment.set(original_env)
        shutil.rmtree(base, ignore_errors=True)


if __name__ == "__main__":
    main()
    sys.exit(0)
