"""
C14 defect on the UNCHANGED tree: the undeclared-dependency check is skipped when the calling
function is invoked through a modifier (force_local(), ignore_result(), partial(), with_context_args(),
...). Expected by the property: a memento function with an automatic version that calls, at run
time, a memento function outside its static closure (not passed as an argument) gets
UndeclaredDependencyError. Exits non-zero because the modified forms return a result instead.
"""
import os
import shutil
import tempfile

import twosigma.memento as m
from twosigma.memento.exception import UndeclaredDependencyError


@m.memento_function
def hidden(x):
    return x + 1


@m.memento_function
def caller(x):
    # A dynamic reference: `hidden` is not in the static closure of `caller`
    return getattr(__import__("__main__"), "hid" + "den")(x)


def main():
    env_dir = tempfile.mkdtemp(prefix="c14defect1")
    try:
        env_file = os.path.join(env_dir, "env.json")
        with open(env_file, "w") as f:
            f.write('{"name": "defect1"}')
        m.Environment.set(env_file)

        assert caller.explicit_version is None  # automatic version
        assert caller.dependencies().transitive_memento_fn_dependencies() == set()

        failures = []
        forms = [
            ("caller(1)", lambda: caller(1)),
            ("caller.force_local()(2)", lambda: caller.force_local()(2)),
            ("caller.partial(3)()", lambda: caller.partial(3)()),
            ("caller.ignore_result(False)(4)", lambda: caller.ignore_result(False)(4)),
            (
                "caller.with_context_args({'k': 1})(5)",
                lambda: caller.with_context_args({"k": 1})(5),
            ),
            (
                "caller.force_local().call_batch([{'x': 6}])",
                lambda: caller.force_local().call_batch([{"x": 6}]),
            ),
        ]
        for label, thunk in forms:
            try:
                result = thunk()
                failures.append("{} returned {} instead of being refused".format(label, result))
            except UndeclaredDependencyError:
                print("refused:", label)
        for failure in failures:
            print("FAIL", failure)
        assert not failures, failures
        print("OK")
    finally:
        shutil.rmtree(env_dir, ignore_errors=True)


if __name__ == "__main__":
    main()
