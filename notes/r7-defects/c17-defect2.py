"""
C17 candidate defect on the UNCHANGED tree: a merge parent that was built in memory (never
returned by a memoized call, hence never serialized) cannot be merged. PicklePartitionStrategy.store
raises IOError("Could not merge partitions: parent is not a PicklePartition or has never been
serialized"); the runner logs it and returns the result without memoizing it. The property statement
lists "built in memory" among the parent provenances for which the overlay must hold.
"""
import logging
import shutil
import sys
import tempfile

import twosigma.memento as m
from twosigma.memento import Environment, ConfigurationRepository, FunctionCluster
from twosigma.memento.partition import InMemoryPartition
from twosigma.memento.storage_filesystem import FilesystemStorageBackend

logging.disable(logging.CRITICAL)  # the runner logs the IOError with its traceback

base = tempfile.mkdtemp(prefix="c17_defect2_")
original_env = m.Environment.get()
m.Environment.set(
    Environment(
        name="c17defect2",
        base_dir=base,
        repos=[
            ConfigurationRepository(
                name="repo1",
                clusters={
                    "c17x2": FunctionCluster(
                        name="c17x2",
                        storage=FilesystemStorageBackend(path=base + "/data"),
                    )
                },
            )
        ],
    )
)


@m.memento_function(cluster="c17x2")
def overlay_in_memory():
    parent = InMemoryPartition({"a": 1, "b": 2})
    child = InMemoryPartition({"b": 3, "c": 4})
    child._merge_parent = parent
    return child


EXPECTED = {"a": 1, "b": 3, "c": 4}


def as_dict(partition):
    return {key: partition.get(key) for key in partition.list_keys()}


try:
    first = as_dict(overlay_in_memory())
    assert first == EXPECTED, first
    assert (
        overlay_in_memory.memento() is not None
    ), "the merged partition was not memoized (its parent was built in memory)"
    second = overlay_in_memory()
    assert type(second).__name__ == "PicklePartition", type(second)
    assert as_dict(second) == EXPECTED, as_dict(second)
    print("OK")
except AssertionError as e:
    print("PROPERTY VIOLATED:", e)
    sys.exit(1)
finally:
    m.Environment.set(original_env)
    shutil.rmtree(base, ignore_errors=True)
