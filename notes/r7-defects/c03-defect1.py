"""
C03 defect on the unchanged tree: in a locked cluster the version of a function depends on the
order in which the functions of the program were defined.

The same two functions (`f` calls `g`) are written to a module in both orders. Each process
imports one of the modules, locks the default cluster (as a deployment that is "positive that no
further function updates will occur" does) and evaluates `f`. Same program text, same declared
environment, same store: the versions should agree and the second process should run no body.
"""
import json
import os
import subprocess
import sys
import tempfile
import textwrap

HERE = os.path.dirname(os.path.abspath(__file__))

HEADER = """
import twosigma.memento as m
"""

DEF_F = """

@m.memento_function
def f(x):
    with open({log!r}, "a") as fh:
        fh.write("f\\n")
    return g(x) + 1
"""

DEF_G = """

@m.memento_function
def g(x):
    with open({log!r}, "a") as fh:
        fh.write("g\\n")
    return x * 2
"""

CHILD = """
import importlib, json, sys
from twosigma.memento import Environment

Environment.set({"name": "demo", "base_dir": sys.argv[1]})
sys.path.insert(0, sys.argv[2])
program = importlib.import_module("program")
Environment.get().get_cluster(None).locked = True
out = {"f": program.f.version(), "g": program.g.version()}
try:
    out["f(4)"] = program.f(4)
except Exception as e:
    out["f(4)"] = "{}: {}".format(type(e).__name__, e)
print(json.dumps(out))
"""


def run_child(tmp, store, program_dir):
    env = dict(os.environ)
    env["PYTHONPATH"] = HERE
    env["PYTHONHASHSEED"] = "0"
    env["HOME"] = tmp
    env.pop("MEMENTO_ENV", None)
    out = subprocess.run(
        [sys.executable, os.path.join(tmp, "child.py"), store, program_dir],
        env=env,
        cwd=tmp,
        stdout=subprocess.PIPE,
        stderr=subprocess.PIPE,
        universal_newlines=True,
        timeout=50,
    )
    if out.returncode != 0:
        sys.stderr.write(out.stderr)
        raise SystemExit("child process failed")
    return json.loads(out.stdout.strip().splitlines()[-1])


def main():
    with tempfile.TemporaryDirectory() as tmp:
        log = os.path.join(tmp, "calls.log")
        store = os.path.join(tmp, "store")
        os.mkdir(store)
        for name, parts in (("g_then_f", (DEF_G, DEF_F)), ("f_then_g", (DEF_F, DEF_G))):
            os.mkdir(os.path.join(tmp, name))
            with open(os.path.join(tmp, name, "program.py"), "w") as f:
                f.write(textwrap.dedent(HEADER) + "".join(p.format(log=log) for p in parts))
        with open(os.path.join(tmp, "child.py"), "w") as f:
            f.write(textwrap.dedent(CHILD))

        first = run_child(tmp, store, os.path.join(tmp, "g_then_f"))
        with open(log) as f:
            calls_first = f.read().split()
        second = run_child(tmp, store, os.path.join(tmp, "f_then_g"))
        with open(log) as f:
            calls_second = f.read().split()[len(calls_first) :]

        print("g defined before f:", first)
        print("f defined before g:", second, "bodies run:", calls_second)

        assert first["f(4)"] == 9, first
        assert first["g"] == second["g"]
        assert first["f"] == second["f"], "version of f depends on the definition order"
        assert second["f(4)"] == 9, second
        assert calls_second == [], "unchanged program re-ran {}".format(calls_second)
    print("OK")


if __name__ == "__main__":
    main()
