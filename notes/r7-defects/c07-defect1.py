"""
Unchanged tree, filesystem backend WITH memory_cache_mb: StorageBackend.read_result(memento) does not
return the bytes designated by memento.content_key once the same call has been memoized again with
another result (forget + recompute of a non-deterministic function, or an override key overwritten).
The memory cache is keyed by function/arg-hash only, so the old memento reads the new value.
Without memory cache the same script passes.
"""
import datetime
import os
import pickle
import shutil
import sys
import tempfile

sys.path.insert(0, os.path.dirname(os.path.abspath(__file__)))

import twosigma.memento as m  # noqa: E402
from twosigma.memento.metadata import ResultType, InvocationMetadata, Memento  # noqa: E402
from twosigma.memento.storage_filesystem import FilesystemStorageBackend  # noqa: E402


@m.memento_function(cluster="cluster1")
def fa(x):
    return x


def new_memento(fn_ref_args):
    return Memento(
        time=datetime.datetime.now(datetime.timezone.utc),
        invocation_metadata=InvocationMetadata(
            runtime=datetime.timedelta(seconds=1),
            fn_reference_with_args=fn_ref_args,
            result_type=ResultType.string,
            invocations=[],
            resources=[],
        ),
        function_dependencies={fn_ref_args.fn_reference},
        runner={},
        correlation_id="defect1",
        content_key=None,
    )


def run(memory_cache_mb, key_override):
    base = tempfile.mkdtemp(prefix="c07_defect1_")
    try:
        backend = FilesystemStorageBackend(
            path=os.path.join(base, "data"),
            metadata_path=os.path.join(base, "metadata"),
            memory_cache_mb=memory_cache_mb,
        )
        call = fa.fn_reference().with_args(1)
        old = new_memento(call)
        backend.memoize(key_override, old, "first result")
        backend.forget_call(call.fn_reference_with_arg_hash())
        new = new_memento(call)
        backend.memoize(key_override, new, "second result")
        assert old.content_key != new.content_key
        # the bytes under the old content key are intact ...
        # noinspection PyProtectedMember
        with backend._data_source.input_versioned(old.content_key) as f:
            assert pickle.loads(f.read()) == "first result"
        # ... and read_result of the old memento must return them
        got = backend.read_result(old)
        assert got == "first result", (
            "memory_cache_mb={}, key_override={!r}: read_result(old memento) returned {!r}, "
            "its content key holds 'first result'".format(memory_cache_mb, key_override, got)
        )
    finally:
        shutil.rmtree(base, ignore_errors=True)


if __name__ == "__main__":
    run(None, None)
    run(None, "shared/key")
    run(16, None)
    run(16, "shared/key")
    print("defect1: OK")
