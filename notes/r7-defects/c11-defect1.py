"""
Unchanged-tree finding for C11: with a NaN / infinite float among the arguments (the property's
quantifier names them as part of the argument domain) the memento document is not plain JSON:
it contains the bare tokens NaN / Infinity / -Infinity, which RFC 8259 does not allow and
which strict readers (other language implementations) reject.

A second, weaker finding is checked as well: a dict argument with non-string keys is accepted
(validate_args only looks at the values), but its keys turn into strings in the document, so
the decoded arguments differ and the recomputed argument hash is not the original one.
"""
import json
import os
import shutil
import sys
import tempfile

import twosigma.memento as m
from twosigma.memento import memento_function
from twosigma.memento.serialization import MementoCodec


@memento_function
def clip(values, low, high, weights=None):
    return 0


def strict_loads(text):
    def reject(token):
        raise ValueError("not a JSON token: " + token)

    return json.loads(text, parse_constant=reject)


def main() -> int:
    base = tempfile.mkdtemp(prefix="c11_defect1_")
    original_env = m.Environment.get()
    failures = []
    try:
        m.Environment.set({"name": "defect1", "base_dir": base, "repos": []})

        # --- NaN / infinity -------------------------------------------------------------
        args = ([1.0, float("nan")], float("-inf"), float("inf"))
        clip(*args)
        stored = clip.memento(*args)
        expected = clip.fn_reference().with_args(*args)
        # (the round trip itself is fine)
        assert (
            stored.invocation_metadata.fn_reference_with_args.arg_hash
            == expected.arg_hash
        )
        files = [
            os.path.join(root, name)
            for root, _dirs, names in os.walk(base)
            for name in names
            if name.endswith(".memento.json")
        ]
        assert files, "no memento file found"
        for f in files:
            with open(f, "r") as fh:
                text = fh.read()
            try:
                strict_loads(text)
            except ValueError as e:
                failures.append(
                    "memento file {} is not plain JSON: {}".format(
                        os.path.relpath(f, base), e
                    )
                )
        try:
            strict_loads(json.dumps(MementoCodec.encode_memento(stored)))
        except ValueError as e:
            failures.append("encode_memento output is not plain JSON: {}".format(e))

        # --- non-string dict keys ---------------------------------------------------------
        ref = clip.fn_reference().with_args([1.0], 0, 1, weights={1: 0.5, 2: 0.5})
        decoded = MementoCodec.decode_fn_reference_with_args(
            json.loads(json.dumps(MementoCodec.encode_fn_reference_with_args(ref)))
        )
        if decoded.kwargs != ref.kwargs or decoded.arg_hash != ref.arg_hash:
            failures.append(
                "dict argument with int keys: decoded {} (hash {}...) != original {} "
                "(hash {}...)".format(
                    decoded.kwargs, decoded.arg_hash[:8], ref.kwargs, ref.arg_hash[:8]
                )
            )

        for f in failures:
            print("FAIL:", f)
        if failures:
            return 1
        print("OK")
        return 0
    finally:
        m.Environment.set(original_env)
        shutil.rmtree(base, ignore_errors=True)


if __name__ == "__main__":
    sys.exit(main())
