"""
Defect on the UNCHANGED tree (C05): custom metadata whose key contains a percent escape (or a
"/") is not removed by forget_call on the filesystem backend, so it is read back for the
forgotten call and the function stays listed.
"""
import datetime
import shutil
import sys
import tempfile

from twosigma.memento import Memento, InvocationMetadata, memento_function
from twosigma.memento.metadata import ResultType
from twosigma.memento.storage_filesystem import FilesystemStorageBackend
from twosigma.memento.storage_memory import MemoryStorageBackend


@memento_function(version="1")
def fn_a(x):
    return x


def make(fn, arg, result):
    ref = fn.fn_reference().with_args(arg)
    memento = Memento(
        time=datetime.datetime.now(datetime.timezone.utc),
        invocation_metadata=InvocationMetadata(
            runtime=datetime.timedelta(seconds=1.0),
            fn_reference_with_args=ref,
            result_type=ResultType.from_object(result),
            invocations=[],
            resources=[],
        ),
        function_dependencies={ref.fn_reference},
        runner={},
        correlation_id="demo",
        content_key=None,
    )
    return ref, memento


def run(backend, label, key):
    failures = []
    ref, memento = make(fn_a, 1, "hello")
    backend.memoize(None, memento, "hello")
    h = ref.fn_reference_with_arg_hash()
    backend.write_metadata(h, key, b"v")
    assert backend.read_metadata(h, key) == b"v", label
    try:
        backend.forget_call(h)
    except Exception as e:
        failures.append("{}: forget_call raised {!r} (metadata key {!r})".format(label, e, key))
    got = backend.read_metadata(h, key)
    if got is not None:
        failures.append(
            "{}: metadata {!r} of the forgotten call is still read back: {!r}".format(label, key, got)
        )
    fns = [f.qualified_name for f in backend.list_functions()]
    if fns:
        failures.append("{}: list_functions after forgetting the only call: {}".format(label, fns))
    return failures


def main():
    base = tempfile.mkdtemp(prefix="c05_defect2_")
    failures = []
    try:
        for i, key in enumerate(["50%25", "logs/out"]):
            failures += run(MemoryStorageBackend(), "memory", key)
            failures += run(
                FilesystemStorageBackend(
                    path="{}/{}/d".format(base, i), metadata_path="{}/{}/m".format(base, i)
                ),
                "filesystem",
                key,
            )
    finally:
        shutil.rmtree(base, ignore_errors=True)
    for f in failures:
        print("FAIL:", f)
    sys.exit(1 if failures else 0)


if __name__ == "__main__":
    main()
