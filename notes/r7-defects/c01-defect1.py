"""
UNCHANGED tree: a call made through a modifier clone (force_local(), partial(), ignore_result(),
...) skips the undeclared-dependency check for the calls made below it, and its result is
memoized under the ordinary key of the function. A later plain call returns that result after
the hidden dependency was edited: neither the current value nor UndeclaredDependencyError.
"""
import os
import shutil
import sys
import tempfile

ROOT = os.path.dirname(os.path.abspath(__file__))
sys.path.insert(0, ROOT)

MODULE = '''
import twosigma.memento as m

K = 1


@m.memento_function
def g():
    return K


@m.memento_function
def f(x):
    return globals()["g"]() + x      # hidden dynamic call: g is not a detected dependency
'''


def main():
    work = tempfile.mkdtemp(prefix="defect1_")
    try:
        pkg_dir = os.path.join(work, "defect1pkg")
        os.mkdir(pkg_dir)
        open(os.path.join(pkg_dir, "__init__.py"), "w").close()
        with open(os.path.join(pkg_dir, "prog.py"), "w") as fh:
            fh.write(MODULE)
        env_file = os.path.join(work, "env.json")
        with open(env_file, "w") as fh:
            fh.write('{"name": "defect1"}')
        sys.path.insert(0, work)

        from twosigma.memento import Environment
        from twosigma.memento.exception import UndeclaredDependencyError

        Environment.set(env_file)
        import defect1pkg.prog as prog

        # Through a clone the hidden call is not rejected (a plain prog.f(1) would raise)
        try:
            prog.f.force_local()(1)
        except UndeclaredDependencyError:
            pass

        prog.K = 5  # edit something f uses only through the hidden call

        expected = prog.f.fn(1)  # 6
        try:
            got = prog.f(1)
        except UndeclaredDependencyError:
            print("ok (raised UndeclaredDependencyError)")
            return
        assert got == expected, "f(1) returned {!r}; the current program gives {!r}".format(
            got, expected
        )
        print("ok")
    finally:
        shutil.rmtree(work, ignore_errors=True)


if __name__ == "__main__":
    main()
