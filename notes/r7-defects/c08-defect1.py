"""
Clean-HEAD defect candidate: a link file cut short in the middle of a multi-byte character.

The link file is a text file holding the path of the latest version. When the store root (or
the key) contains a non-ASCII character and a crash / short write leaves the link truncated in
the middle of the UTF-8 encoding of that character, reading the link raises UnicodeDecodeError.
That is a ValueError, not an IOError: neither exists_nonversioned() nor get_mementos() nor the
runner treat it as "not memoized", so every later call of the function raises.
"""
import builtins
import logging
import os
import shutil
import tempfile

import twosigma.memento as m
from twosigma.memento import Environment, ConfigurationRepository, FunctionCluster
from twosigma.memento.storage_filesystem import FilesystemStorageBackend
import twosigma.memento.storage_filesystem as sfs

logging.getLogger("memento").setLevel(logging.CRITICAL)

ROOT = tempfile.mkdtemp(prefix="c08_defect1_")
STORE = os.path.join(ROOT, "données")  # "données": the é takes two bytes in UTF-8
COUNT = os.path.join(ROOT, "count")


def count():
    return os.path.getsize(COUNT) if os.path.exists(COUNT) else 0


@m.memento_function(cluster="c08demo", auto_dependencies=False)
def c08_defect1_fn():
    with open(COUNT, "a") as fh:
        fh.write("x")
    return "the value"


def fresh_env():
    m.Environment.set(
        Environment(
            name="c08_defect1",
            base_dir=ROOT,
            repos=[
                ConfigurationRepository(
                    name="repo",
                    clusters={
                        "c08demo": FunctionCluster(
                            name="c08demo",
                            storage=FilesystemStorageBackend(path=STORE),
                        )
                    },
                )
            ],
        )
    )


class SimulatedCrash(BaseException):
    """The process dies here."""


class CrashMidWrite:
    """The process dies after only the first `nbytes(data)` BYTES of the link reached the disk."""

    def __init__(self, path, nbytes):
        self.path, self.nbytes = path, nbytes

    def write(self, data):
        raw = data.encode("utf-8")
        with builtins.open(self.path, "wb") as fh:
            fh.write(raw[: self.nbytes(raw)])
        raise SimulatedCrash()

    def __enter__(self):
        return self

    def __exit__(self, *exc):
        return False


def main():
    env_before = m.Environment.get()
    try:
        fresh_env()

        def cut(raw):
            # one byte into the two-byte encoding of "é"
            return raw.index("é".encode("utf-8")) + 1

        def faulty_open(path, mode="r", *a, **kw):
            if "w" in mode and str(path).endswith(".memento.json.link"):
                return CrashMidWrite(str(path), cut)
            return builtins.open(path, mode, *a, **kw)

        sfs.open = faulty_open
        try:
            c08_defect1_fn()
        except SimulatedCrash:
            pass
        finally:
            del sfs.open
        assert count() == 1

        fresh_env()  # restart
        for _ in range(3):
            assert c08_defect1_fn() == "the value"  # raises UnicodeDecodeError at HEAD
        assert count() == 2, "memoization did not recover"
        print("OK")
    finally:
        m.Environment.set(env_before)
        shutil.rmtree(ROOT, ignore_errors=True)


if __name__ == "__main__":
    main()
