"""
C12 defect candidate on the UNCHANGED tree: a callee that moves from the default cluster to a
named cluster (same code, hence same version) makes stored default-cluster names unreadable
"as stored": FunctionReference.from_qualified_name("mod:callee#v") answers with the qualified
name "named::mod:callee#v". The listing of the default cluster therefore reports a function
under a name nothing is stored under (its own entries cannot be found through the listed
reference), and the caller's memento reports the invocation in a cluster it never ran in.
"""
import importlib
import os
import shutil
import sys
import tempfile
import textwrap

import twosigma.memento as m
from twosigma.memento import FunctionReference

tmp = tempfile.mkdtemp(prefix="c12defect1")
sys.path.insert(0, tmp)
m.Environment.set(
    {
        "name": "c12defect1",
        "base_dir": tmp,
        "repos": [
            {
                "name": "r",
                "clusters": {
                    "default": {
                        "name": "default",
                        "storage": {"type": "filesystem", "path": tmp + "/d"},
                    },
                    "named": {
                        "name": "named",
                        "storage": {"type": "filesystem", "path": tmp + "/n"},
                    },
                },
            }
        ],
    }
)

SOURCE = """
import twosigma.memento as m

@m.memento_function{cluster_deco}
def callee(x):
    return x + 1

@m.memento_function(version="pinned:1")
def caller(x):
    return callee(x) * 2
"""


def load(name, cluster):
    source = SOURCE.format(
        cluster_deco='(cluster="{}")'.format(cluster) if cluster else ""
    )
    with open(os.path.join(tmp, name + ".py"), "w") as f:
        f.write(textwrap.dedent(source))
    importlib.invalidate_caches()
    sys.modules.pop(name, None)
    return importlib.import_module(name)


try:
    mod = load("c12defect1mod", None)
    assert mod.caller(1) == 4
    stored_name = mod.callee.fn_reference().qualified_name  # "c12defect1mod:callee#<v>"
    storage = m.Environment.get().get_cluster(None).storage
    assert len(storage.list_mementos(mod.callee.fn_reference())) == 1

    mod = load("c12defect1mod", "named")  # callee re-clustered, code unchanged

    # the name splits into its parts all right ...
    parts = FunctionReference.parse_qualified_name(stored_name)
    assert parts["cluster"] is None
    # ... but the reference made from it carries another name
    ref = FunctionReference.from_qualified_name(stored_name)
    problems = []
    if ref.qualified_name != stored_name:
        problems.append(
            "from_qualified_name({!r}) -> {!r}".format(stored_name, ref.qualified_name)
        )
    # every function the default cluster lists has entries there
    for listed in m.list_memoized_functions():
        if not storage.list_mementos(listed):
            problems.append(
                "default cluster lists {!r} (external={}) but nothing is stored under "
                "it".format(listed.qualified_name, listed.external)
            )
    # the caller's entry is current and served; the invocation it records ran in the default
    # cluster under stored_name
    (invocation,) = mod.caller.memento(1).invocation_metadata.invocations
    if invocation.fn_reference.qualified_name != stored_name:
        problems.append(
            "caller memento reports invocation {!r}, stored was {!r}".format(
                invocation.fn_reference.qualified_name, stored_name
            )
        )
    assert not problems, "\n".join(problems)
finally:
    shutil.rmtree(tmp, ignore_errors=True)
print("ok")
