"""
Defect on the UNCHANGED tree (C05): is_all_memoized() is declared to take an Iterable; given a
generator, a backend with a memory cache consumes it in the cache look-up and then asks the store
about an empty list, so it answers True although a call is not memoized.
"""
import datetime
import shutil
import sys
import tempfile

from twosigma.memento import Memento, InvocationMetadata, memento_function
from twosigma.memento.metadata import ResultType
from twosigma.memento.storage_filesystem import FilesystemStorageBackend
from twosigma.memento.storage_memory import MemoryStorageBackend


@memento_function(version="1")
def fn_a(x):
    return x


def make(fn, arg, result):
    ref = fn.fn_reference().with_args(arg)
    memento = Memento(
        time=datetime.datetime.now(datetime.timezone.utc),
        invocation_metadata=InvocationMetadata(
            runtime=datetime.timedelta(seconds=1.0),
            fn_reference_with_args=ref,
            result_type=ResultType.from_object(result),
            invocations=[],
            resources=[],
        ),
        function_dependencies={ref.fn_reference},
        runner={},
        correlation_id="demo",
        content_key=None,
    )
    return ref, memento


def main():
    base = tempfile.mkdtemp(prefix="c05_defect3_")
    failures = []
    try:
        backends = {
            "memory": MemoryStorageBackend(),
            "filesystem": FilesystemStorageBackend(path=base + "/a/d", metadata_path=base + "/a/m"),
            "filesystem+cache": FilesystemStorageBackend(
                path=base + "/b/d", metadata_path=base + "/b/m", memory_cache_mb=1
            ),
        }
        for label, b in backends.items():
            ref1, m1 = make(fn_a, 1, "one")
            ref2, _ = make(fn_a, 2, "two")  # never memoized
            b.memoize(None, m1, "one")
            assert not b.is_all_memoized([ref1, ref2]), label
            if b.is_all_memoized(r for r in (ref1, ref2)):
                failures.append(
                    "{}: is_all_memoized(generator) is True although one call is not memoized".format(label)
                )
    finally:
        shutil.rmtree(base, ignore_errors=True)
    for f in failures:
        print("FAIL:", f)
    sys.exit(1 if failures else 0)


if __name__ == "__main__":
    main()
