"""
UNCHANGED tree: two smaller staleness cases.
 (a) a modifier clone that is kept (p = h.partial(x=1)) pins the version computed when it was
     made, so calling it after an edit returns the value of the previous edition;
 (b) the insertion order of a module-level dict is not part of its hash, although the program
     can observe it.
"""
import os
import shutil
import sys
import tempfile

ROOT = os.path.dirname(os.path.abspath(__file__))
sys.path.insert(0, ROOT)

MODULE = '''
import twosigma.memento as m

K = 1
D = {"a": 1, "b": 2}


@m.memento_function
def h(x):
    return K + x


@m.memento_function
def first_key():
    return list(D)[0]
'''


def main():
    work = tempfile.mkdtemp(prefix="defect2_")
    failures = []
    try:
        pkg_dir = os.path.join(work, "defect2pkg")
        os.mkdir(pkg_dir)
        open(os.path.join(pkg_dir, "__init__.py"), "w").close()
        with open(os.path.join(pkg_dir, "prog.py"), "w") as fh:
            fh.write(MODULE)
        env_file = os.path.join(work, "env.json")
        with open(env_file, "w") as fh:
            fh.write('{"name": "defect2"}')
        sys.path.insert(0, work)

        from twosigma.memento import Environment

        Environment.set(env_file)
        import defect2pkg.prog as prog

        # (a)
        p = prog.h.partial(x=1)
        assert p() == 2
        prog.K = 7
        if p() != prog.h.fn(1):
            failures.append(
                "(a) kept partial returned {!r}; current program gives {!r}".format(
                    p(), prog.h.fn(1)
                )
            )

        # (b)
        assert prog.first_key() == "a"
        prog.D = {"b": 2, "a": 1}
        if prog.first_key() != prog.first_key.fn():
            failures.append(
                "(b) first_key() returned {!r}; current program gives {!r}".format(
                    prog.first_key(), prog.first_key.fn()
                )
            )
        assert not failures, "; ".join(failures)
        print("ok")
    finally:
        shutil.rmtree(work, ignore_errors=True)


if __name__ == "__main__":
    main()
