"""
C17 defect on the UNCHANGED tree: a partition that was read back from the store (PicklePartition)
and is then given a merge parent does not behave as "the parent's entries overlaid by its own".

 * the object returned by the first call ignores the merge parent altogether
   (PicklePartition.get / list_keys never look at _merge_parent), and
 * the stored result drops the entries that the partition had inherited from its earlier parent
   (they are marked from_parent in its index, so list_keys(_include_merge_parent=False) skips them,
   and the "serves as its own parent" fallback in PicklePartitionStrategy.store only applies when
   no merge parent is set).

So the first call and every later call disagree with each other and both disagree with the overlay.
"""
import shutil
import sys
import tempfile

import twosigma.memento as m
from twosigma.memento import Environment, ConfigurationRepository, FunctionCluster
from twosigma.memento.partition import InMemoryPartition
from twosigma.memento.storage_filesystem import FilesystemStorageBackend

base = tempfile.mkdtemp(prefix="c17_defect1_")
original_env = m.Environment.get()
m.Environment.set(
    Environment(
        name="c17defect1",
        base_dir=base,
        repos=[
            ConfigurationRepository(
                name="repo1",
                clusters={
                    "c17x1": FunctionCluster(
                        name="c17x1",
                        storage=FilesystemStorageBackend(path=base + "/data"),
                    )
                },
            )
        ],
    )
)


@m.memento_function(cluster="c17x1")
def layer_a():
    return InMemoryPartition({"a": 1, "b": 2})


@m.memento_function(cluster="c17x1")
def layer_b():
    result = InMemoryPartition({"b": 3, "c": 4})
    result._merge_parent = layer_a()
    return result


@m.memento_function(cluster="c17x1")
def other():
    return InMemoryPartition({"c": 30, "z": 26})


@m.memento_function(cluster="c17x1")
def rebased():
    # layer_b() is read back from disk here: its entries are a (inherited), b, c
    result = layer_b()
    result._merge_parent = other()
    return result


# other's entries {c: 30, z: 26} overlaid by layer_b's entries {a: 1, b: 3, c: 4}
EXPECTED = {"a": 1, "b": 3, "c": 4, "z": 26}


def as_dict(partition):
    return {key: partition.get(key) for key in partition.list_keys()}


try:
    layer_a()
    layer_b()
    other()
    first = as_dict(rebased())
    second = as_dict(rebased())
    print("returned by the call:", first)
    print("read back from disk: ", second)
    assert first == second, "the call returned {} but reads back as {}".format(
        first, second
    )
    assert second == EXPECTED, "reads back as {}, expected {}".format(second, EXPECTED)
    print("OK")
except AssertionError as e:
    print("PROPERTY VIOLATED:", e)
    sys.exit(1)
finally:
    m.Environment.set(original_env)
    shutil.rmtree(base, ignore_errors=True)
