import sys, tempfile, os, traceback
from twosigma.memento import Environment, MementoFunction
from twosigma.memento.reference import FunctionReference
d = tempfile.mkdtemp()
Environment.set({"name":"e","base_dir":d})
import pkg.m2 as m

print("== C14: caller() direct")
try:
    print(m.caller(1))
except Exception as e:
    print("raised", type(e).__name__)
m.caller.forget_all()
print("== C14: caller.force_local()()")
try:
    print("returned", m.caller.force_local()(2))
except Exception as e:
    print("raised", type(e).__name__)
print("== C14: caller.partial(x=3)()")
try:
    print("returned", m.caller.partial(x=3)())
except Exception as e:
    print("raised", type(e).__name__)

print("== C13: unregistered wrapper version")
print("leaf version", m.leaf.version())
w = MementoFunction(m.leaf.fn, register_fn=False)
try:
    print("wrapper version", w.version())
except Exception as e:
    print("raised", type(e).__name__, e)

print("== C12: parse_qualified_name")
for qn in ["mod.sub:fn#1:2", "clu::mod:fn#a#b", "mod:fn#x::y", "clu::mod:fn#v:1", "mod:Cls.fn#1"]:
    print(qn, "->", FunctionReference.parse_qualified_name(qn))
print("== C12: from_qualified_name default cluster vanished fn")
try:
    r = FunctionReference.from_qualified_name("pkg.nonexistent:fn#abc")
    print("ok", r, r.external)
except BaseException as e:
    print("raised", type(e).__name__, e)
try:
    r = FunctionReference.from_qualified_name("clu::pkg.nonexistent:fn#abc")
    print("ok", r, r.external)
except BaseException as e:
    print("raised", type(e).__name__, e)
