import twosigma.memento as m
double = lambda x: 2 * x
triple = lambda x: 3 * x

@m.memento_function
def f(x):
    return double(x) + triple(x)
