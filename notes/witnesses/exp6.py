import tempfile
from twosigma.memento import Environment
d = tempfile.mkdtemp()
Environment.set({"name":"e","base_dir":d})
import pkg.m5 as m
print("v0", m.uses_cfg.version(), [r.describe() for r in m.uses_cfg.hash_rules()])
print("call", m.uses_cfg())
# re-execute the class definition in the module (in-process edit)
exec("class Cfg:\n    x = 2\n", m.__dict__)
print("v1", m.uses_cfg.version(), "call ->", m.uses_cfg(), "(unmemoized would give", m.uses_cfg.fn(), ")")

# C16 / C10 sanity
r = m.outer.with_context_args({"k": 1})(5)
mem = m.outer.with_context_args({"k": 1}).memento(5)
print("outer ctx", mem.invocation_metadata.fn_reference_with_args.context_args, [ (i.fn_reference.qualified_name, i.context_args) for i in mem.invocation_metadata.invocations])
print("deps", sorted(x.qualified_name for x in mem.function_dependencies))
print("inner memo without ctx:", m.inner.memento(5), " with ctx:", m.inner.with_context_args({"k":1}).memento(5) is not None)
