import sys, tempfile, os, traceback, logging
from twosigma.memento import Environment
d = tempfile.mkdtemp()
Environment.set({"name":"e","base_dir":d})
import pkg.m3 as m
r = m.base_part(); print(type(r).__name__, m.runs)
r = m.base_part(); print(type(r).__name__, m.runs)
r = m.child_part(); print(type(r).__name__, m.runs)
r = m.child_part(); print(type(r).__name__, m.runs)
print(m.child_part.memento())
