import twosigma.memento as m
V = 1
class H1:
    pass
class H2:
    @staticmethod
    def missing():
        return 5
helper = H1

@m.memento_function
def f():
    return V

@m.memento_function
def g():
    return helper.missing() if hasattr(helper, "missing") else 0

def make(n):
    def inner(x, n=n):
        return x + n
    return inner
add1 = make(1)
add2 = make(2)

@m.memento_function
def h(x):
    return add1(x) * add2(x)
