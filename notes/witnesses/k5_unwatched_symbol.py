"""
Defect on the UNCHANGED tree: a symbol bound to an object that no hash rule can describe
(here a functools.partial of a builtin: not a memento function, no __globals__, not
serializable) leaves no rule at all in the dependent function's rule set. When the symbol
is later re-bound to a plain function (or to a plain value) nothing notices: no rule's
did_change fires and no registration bumps the generation, so the cached version is
returned although a from-scratch computation now includes a Function / GlobalVariable rule.

Exits 0 if the property holds, non-zero otherwise (fails at clean HEAD).
"""
import itertools
import os
import shutil
import sys
import tempfile
import types

tmp = tempfile.mkdtemp(prefix="memento_defect1_")
try:
    from twosigma.memento import Environment, MementoFunction  # noqa: E402

    env_file = os.path.join(tmp, "env.json")
    with open(env_file, "w") as f:
        f.write('{"name": "defect1"}')
    Environment.set(env_file)

    mod = types.ModuleType("defect1_mod")
    sys.modules["defect1_mod"] = mod
    counter = itertools.count()

    def define(src):
        path = os.path.join(tmp, "cell_{}.py".format(next(counter)))
        with open(path, "w") as fh:
            fh.write(src)
        exec(compile(src, path, "exec"), mod.__dict__)

    def from_scratch(fn):
        probe = MementoFunction(fn.fn, register_fn=False)
        version = probe._recompute_version()
        return version, sorted(r.key for r in probe._hash_rules)

    def check(fn, step):
        got = fn.version()
        got_keys = sorted(r.key for r in fn.hash_rules())
        expected, expected_keys = from_scratch(fn)
        assert got == expected, (
            "{}: cached version {} but from-scratch {}\n  cached rules: {}\n  "
            "from-scratch rules: {}".format(step, got, expected, got_keys, expected_keys)
        )

    define(
        "import functools\n"
        "from twosigma.memento import memento_function\n"
        "\n"
        "helper = functools.partial(pow, 2)\n"
        "\n"
        "@memento_function\n"
        "def f(x):\n"
        "    return helper(x)\n"
    )
    check(mod.f, "initial (helper is an opaque callable)")

    # Event: helper is now defined as a plain function
    define("def helper(x):\n    return x + 1\n")
    check(mod.f, "after helper was defined as a plain function")
    print("defect1: OK")
finally:
    shutil.rmtree(tmp, ignore_errors=True)
