import tempfile
from twosigma.memento import Environment
d = tempfile.mkdtemp()
Environment.set({"name":"e","base_dir":d})
import pkg.m5 as m
v0 = m.outer.version()
print("v0", v0, m.outer(1))
m.inner = m.inner2     # rebinding a module attribute to another (already registered) memento function
v1 = m.outer.version()
print("v1", v1, "same" if v0 == v1 else "changed")
try:
    print("call", m.outer(1), "unmemoized:", m.inner.fn(1)*2)
except Exception as e:
    print("raised", type(e).__name__)
try:
    print("call new arg", m.outer(2))
except Exception as e:
    print("raised", type(e).__name__)
