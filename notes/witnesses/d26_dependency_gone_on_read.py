import tempfile, sys
import twosigma.memento as m
from twosigma.memento import Environment, ConfigurationRepository, FunctionCluster, MementoFunction
from twosigma.memento.storage_filesystem import FilesystemStorageBackend
d = tempfile.mkdtemp()
def env():
    Environment.set(Environment(name="t", base_dir=d, repos=[ConfigurationRepository(name="r", clusters={"c26": FunctionCluster(name="c26", storage=FilesystemStorageBackend(path=d))})]))
env()
import pkg26.m as mod
assert mod.caller(1) == 2
env()
# the code base evolves: the callee's declared dependency is removed
del mod.helper
MementoFunction.increment_global_fn_generation()
ok = True
try:
    mem = mod.caller.memento(1)
    print("memento read:", mem is not None, [r.external for r in mem.function_dependencies] if mem else None)
    v = mod.caller(1)
    print("call:", v)
    if v != 2: ok = False
except Exception as e:
    print("raised", type(e).__name__, str(e)[:100]); ok = False
print("PASS" if ok else "FAIL"); sys.exit(0 if ok else 1)
