import sys, tempfile, os, traceback, logging, glob
from twosigma.memento import Environment
from twosigma.memento.storage_filesystem import FilesystemStorageBackend
from twosigma.memento.storage_memory import MemoryStorageBackend
from twosigma.memento.storage_base import MemoryCache
d = tempfile.mkdtemp()
Environment.set({"name":"e","base_dir":d})
import pkg.m4 as m

print("== C18: memory_cache_mb from config")
env = Environment({"name":"x","base_dir":d,"repos":[{"name":"r","clusters":{"c1":{"name":"c1","storage":{"type":"filesystem","path":d+"/c1","metadata_path":d+"/c1meta","memory_cache_mb":16,"readonly":True}}}}]})
st = env.get_cluster("c1").storage
print("cache object:", st._memory_cache, "read_only:", st.read_only, "meta:", st.metadata_config_path)
print("to_dict:", st.to_dict())
st2 = FilesystemStorageBackend(path=d+"/c2", metadata_path=d+"/c2meta", memory_cache_mb=16)
print("ctor to_dict:", st2.to_dict())

print("== C05: memory backend autovivification")
ms = MemoryStorageBackend()
ref = m.f.fn_reference().with_args(1).fn_reference_with_arg_hash()
print("before", ms.list_functions())
ms.get_mementos([ref])
print("after lookup of absent key:", ms.list_functions())

print("== C05/C06: oversize replaces cached")
mc = MemoryCache(1)  # 1 MB
mc.memory_cache_bytes = 2000
Environment.get().default_cluster.storage = FilesystemStorageBackend(path=d+"/s", memory_cache_mb=1)
stor = Environment.get().default_cluster.storage
stor._memory_cache.memory_cache_bytes = 3000
from twosigma.memento.call_stack import StackFrame
from twosigma.memento.runner_local import LocalRunnerBackend
from twosigma.memento.context import RecursiveContext
from twosigma.memento.metadata import ResultType
def mk(fnref, res):
    fr = StackFrame(fnref, LocalRunnerBackend(), RecursiveContext(correlation_id="c"))
    fr.memento.invocation_metadata.result_type = ResultType.from_object(res)
    import datetime
    fr.memento.invocation_metadata.runtime = datetime.timedelta(0)
    return fr.memento
fa = m.f.fn_reference().with_args(1)
m1 = mk(fa, "small")
stor.memoize(None, m1, "small")
print("read1:", stor.read_result(stor.get_memento(fa.fn_reference_with_arg_hash())), "usage", stor._memory_cache.memory_usage)
m2 = mk(fa, "B"*10000)
stor.memoize(None, m2, "B"*10000)
got = stor.read_result(stor.get_memento(fa.fn_reference_with_arg_hash()))
print("read2 (expect BBBB...):", got[:10], len(got))

print("== C08: empty link file after crash")
Environment.get().default_cluster.storage = FilesystemStorageBackend(path=d+"/crash")
root = d+"/crash"
print(m.f(7), m.runs)
# simulate crash mid-write of the content link: truncate it
links = glob.glob(root+"/c/*.link")
print("links", len(links))
m.f.forget_all()
for l in links: open(l,"w").close()
m.runs.clear()
for i in range(3):
    try:
        print("call", i, m.f(7), m.runs)
    except Exception as e:
        print("call", i, "raised", type(e).__name__, e)
print("other function same content:")
for i in range(2):
    try:
        print("g call", i, m.g(7), m.runs)
    except Exception as e:
        print("g call", i, "raised", type(e).__name__, e)
