"""K4: rule hashes are concatenated without a delimiter when a version is computed, so moving a
character between the explicit versions of two dependencies leaves the caller's version unchanged
and the caller serves a result computed by the earlier edition."""
import tempfile, shutil, sys, os, importlib, textwrap
d = tempfile.mkdtemp()
pk = os.path.join(d, "pkgk4"); os.makedirs(pk); open(os.path.join(pk, "__init__.py"), "w").close()
SRC = '''
from twosigma.memento import memento_function
@memento_function(version="%s")
def dep_a():
    return %d
@memento_function(version="%s")
def dep_b():
    return %d
@memento_function
def caller():
    return dep_a() + dep_b()
'''
sys.path.insert(0, d)
import twosigma.memento as m
try:
    m.Environment.set({"name": "t", "base_dir": d, "repos": [{"name": "r", "clusters": {"main": {"name": "main", "storage": {"type": "filesystem", "path": d + "/s"}}}}]})
    open(os.path.join(pk, "mod.py"), "w").write(SRC % ("1", 1, "23", 10))
    import pkgk4.mod as mod
    r1 = mod.caller(); v1 = mod.caller.version()
    open(os.path.join(pk, "mod.py"), "w").write(SRC % ("12", 2, "3", 20))
    importlib.invalidate_caches(); os.utime(os.path.join(pk, "mod.py"), (1e9, 2e9))
    import shutil as _s; _s.rmtree(os.path.join(pk, "__pycache__"), ignore_errors=True)
    mod = importlib.reload(mod)
    r2 = mod.caller(); v2 = mod.caller.version()
    print("first", r1, v1, "second", r2, v2, "expected", 22)
    print("PASS" if r2 == 22 else "FAIL")
finally:
    shutil.rmtree(d)
