from twosigma.memento import memento_function
def g():
    return 1
def h():
    return 100
g2 = g
@memento_function
def f():
    return g() + g2()
