import os, sys, tempfile, json
from twosigma.memento import Environment
d = tempfile.mkdtemp()
os.chdir(d)
os.makedirs("conf", exist_ok=True)
json.dump({"name": "rel", "repos": []}, open("conf/env.json", "w"))
ok = True
for p in ("conf/env.json", os.path.join(d, "conf", "env.json")):
    try:
        e = Environment.from_file(p)
        print(p[:12], "->", e.name, e.base_dir)
        if os.path.realpath(e.base_dir) != os.path.realpath(os.path.join(d, "conf")): ok = False
    except Exception as ex:
        print(p[:12], "raised", type(ex).__name__, str(ex)[:80]); ok = False
print("PASS" if ok else "FAIL"); sys.exit(0 if ok else 1)
