import tempfile, sys
from twosigma.memento import Environment, ConfigurationRepository, FunctionCluster
from twosigma.memento.storage_filesystem import FilesystemStorageBackend
d = tempfile.mkdtemp()
def env():
    Environment.set(Environment(name="t", base_dir=d, repos=[ConfigurationRepository(name="r", clusters={"c23": FunctionCluster(name="c23", storage=FilesystemStorageBackend(path=d))})]))
env()
import pkg23.m as mod
mod.pb()                      # memoize pb (and pa) first
env()                         # fresh backend: pb() is now read from disk as the stored form
first = mod.passthru()
env()
second = mod.passthru()
k1, k2 = sorted(first.list_keys()), sorted(second.list_keys())
print("returned", k1, "read back", k2)
ok = k1 == k2 == ["a", "b", "c"] and second.get("a") == 1
print("PASS" if ok else "FAIL"); sys.exit(0 if ok else 1)
