import subprocess, sys
vs = set()
for seed in range(1, 9):
    out = subprocess.run([sys.executable, "-c", "import pkg16.m as mod; print(mod.f.version()); print(sorted(r.describe() for r in mod.f.hash_rules()))"],
                         env={"PYTHONHASHSEED": str(seed), "PATH": "/usr/bin:/bin", "HOME": "/tmp/w/home"}, capture_output=True, text=True, cwd="/tmp/w")
    lines = out.stdout.strip().splitlines()
    print(seed, lines[0] if lines else out.stderr[-300:], lines[1][:160] if len(lines) > 1 else "")
    if lines: vs.add(lines[0])
print("PASS" if len(vs) == 1 else "FAIL: %d distinct versions" % len(vs)); sys.exit(0 if len(vs) == 1 else 1)
