import dis
from twosigma.memento.code_hash import fn_code_hash
n = [0]
def b():
    n[0] += 1
    if n[0] == 2: raise KeyError()
def v1():
    try:
        b()
        b()
    except KeyError:
        return 0
def v2():
    try:
        b()
    except KeyError:
        return 0
    b()
v2.__code__ = v2.__code__.replace(co_name="v1")
print(v1.__code__.co_code == v2.__code__.co_code, v1.__code__.co_exceptiontable == v2.__code__.co_exceptiontable)
print(fn_code_hash(v1), fn_code_hash(v2))
dis.dis(v1); dis.dis(v2)
