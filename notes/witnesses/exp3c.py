import sys, tempfile, os, traceback, logging
from twosigma.memento import Environment
import twosigma.memento as tm
tm.set_log_level(logging.DEBUG) if hasattr(tm,'set_log_level') else None
d = tempfile.mkdtemp()
Environment.set({"name":"e","base_dir":d})
import pkg.m3 as m
r = m.base_part(); print(type(r).__name__, m.runs)
print(m.base_part.memento())
r = m.base_part(); print(type(r).__name__, m.runs)
os.system("find %s -type f | head -20" % d)
