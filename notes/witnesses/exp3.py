import sys, tempfile, os, traceback, logging
from twosigma.memento import Environment, MementoFunction
import twosigma.memento as tm
d = tempfile.mkdtemp()
def setenv(cache):
    st = {"type":"filesystem","path":d+"/s%s"%cache}
    Environment.set({"name":"e","base_dir":d})
    env = Environment.get()
    from twosigma.memento.storage_filesystem import FilesystemStorageBackend
    env.default_cluster.storage = FilesystemStorageBackend(path=d+"/s%s"%cache, memory_cache_mb=cache or None)
import pkg.m3 as m
for cache in (0, 10):
    setenv(cache)
    m.runs.clear()
    print("== C17 cache_mb=%d"%cache)
    try:
        r = m.child_part()
        print("keys", r.list_keys(), {k: r.get(k) for k in r.list_keys()})
        r2 = m.child_part()
        print("second keys", r2.list_keys(), {k: r2.get(k) for k in r2.list_keys()}, type(r2).__name__)
    except Exception as e:
        traceback.print_exc()
    print("runs", m.runs)
    m.runs.clear()
    print("== C02/C17 OnDiskPartition first-call usability cache_mb=%d"%cache)
    try:
        r = m.disk_part()
        print("first", r.list_keys(), r.get("k"))
        r = m.disk_part()
        print("second", r.list_keys(), r.get("k"))
    except Exception as e:
        print("raised", type(e).__name__, e)
    print("runs", m.runs)

setenv(0)
m.runs.clear()
print("== C02 local exception class replay")
for i in range(2):
    try:
        m.raises_local()
    except Exception as e:
        print("call", i, "raised", type(e).__name__, str(e)[:60].replace("\n"," "))
print("runs", m.runs)
