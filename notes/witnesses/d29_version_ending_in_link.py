"""D29: a function whose version ends in '.link' is listed under a truncated version."""
import tempfile, shutil
import twosigma.memento as m
from twosigma.memento import Environment
d = tempfile.mkdtemp()
try:
    m.Environment.set({"name": "t", "base_dir": d, "repos": [{"name": "r", "clusters": {"main": {"name": "main", "storage": {"type": "filesystem", "path": d + "/s"}}}}]})
    @m.memento_function(cluster="main", version="1.link")
    def f(x):
        return x
    f(1)
    st = Environment.get().get_cluster("main").storage
    fns = st.list_functions()
    names = [r.qualified_name for r in fns]
    print(names, "expected", f.fn_reference().qualified_name)
    print("PASS" if names == [f.fn_reference().qualified_name] else "FAIL")
finally:
    shutil.rmtree(d)
