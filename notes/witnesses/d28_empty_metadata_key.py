"""D28: custom metadata with the empty key, stored with the data, overwrites the result object."""
import tempfile, shutil, sys, os
sys.path.insert(0, os.path.dirname(__file__))
import twosigma.memento as m
from twosigma.memento import Environment
d = tempfile.mkdtemp()
try:
    m.Environment.set({"name": "t", "base_dir": d, "repos": [{"name": "r", "clusters": {"main": {"name": "main", "storage": {"type": "filesystem", "path": d + "/s"}}}}]})
    @m.memento_function(cluster="main")
    def f(x):
        return "result-%d" % x
    assert f(1) == "result-1"
    f.put_metadata("", b"clobber", 1, store_with_data=True)
    mem = f.memento(1)
    st = Environment.get().get_cluster("main").storage
    st._memory_cache and st._memory_cache.forget_everything() if hasattr(st, "_memory_cache") and st._memory_cache else None
    try:
        r = st.read_result(mem)
        print("read back:", repr(r))
        print("PASS" if r == "result-1" else "FAIL")
    except Exception as e:
        print("read raised", type(e).__name__, e); print("FAIL")
finally:
    shutil.rmtree(d)
