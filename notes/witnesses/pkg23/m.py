import twosigma.memento as m
from twosigma.memento.partition import InMemoryPartition

@m.memento_function(cluster="c23")
def pa():
    return InMemoryPartition({"a": 1, "b": 2})

@m.memento_function(cluster="c23")
def pb():
    p = InMemoryPartition({"b": 3, "c": 4})
    p._merge_parent = pa()
    return p

@m.memento_function(cluster="c23")
def passthru():
    return pb()
