import tempfile, sys, itertools, os
import pandas as pd
import twosigma.memento as m
from twosigma.memento import Environment, ConfigurationRepository, FunctionCluster
from twosigma.memento.storage_filesystem import FilesystemStorageBackend, _FilesystemDataSource
ok = True
for cache_mb in (0.001, 10):
    d = tempfile.mkdtemp()
    Environment.set(Environment(name="t", base_dir=d, repos=[ConfigurationRepository(name="r", clusters={"c21": FunctionCluster(name="c21", storage=FilesystemStorageBackend(path=d, memory_cache_mb=cache_mb))})]))
    c = itertools.count(1)
    @m.memento_function(cluster="c21", version=str(cache_mb))
    def f():
        next(c)
        return pd.DataFrame({"a": list(range(2000))})
    runs = lambda: int(repr(c)[6:-1]) - 1
    # the disk is full for the first memoization only
    real = _FilesystemDataSource.output
    state = {"fail": True}
    def flaky(self, key, data):
        if state["fail"]:
            raise OSError(28, "No space left on device")
        return real(self, key, data)
    _FilesystemDataSource.output = flaky
    r1 = f()                     # computed, write fails (swallowed), caller keeps r1 alive
    state["fail"] = False        # disk recovered
    f(); f(); f()
    _FilesystemDataSource.output = real
    files = sum(len(fs) for _, _, fs in os.walk(d))
    print("cache_mb", cache_mb, "body runs", runs(), "files in store", files)
    if runs() > 2 or files == 0:
        ok = False
print("PASS" if ok else "FAIL"); sys.exit(0 if ok else 1)
