import tempfile, sys, itertools
import twosigma.memento as m
from twosigma.memento import Environment, ConfigurationRepository, FunctionCluster
from twosigma.memento.storage_filesystem import FilesystemStorageBackend
d = tempfile.mkdtemp()
Environment.set(Environment(name="t", base_dir=d, repos=[ConfigurationRepository(name="r", clusters={"c": FunctionCluster(name="c", storage=FilesystemStorageBackend(path=d))})]))
class Weird(Exception):
    def __init__(self, msg):
        super().__init__(msg)
        self.code = int(msg)     # cannot be rebuilt from the replay message
@m.memento_function(cluster="c")
def bad(x):
    raise ValueError("boom %d" % x)
@m.memento_function(cluster="c")
def weird(x):
    raise Weird("42")
ok = True
out = []
for i in range(2):
    try:
        r = bad.ignore_result()(1); out.append(("returned", r))
    except Exception as e:
        out.append((type(e).__name__, str(e)[:20]))
print("ignore_result:", out)
if out[0][0] != out[1][0]: ok = False
out = []
for i in range(2):
    try:
        weird(1); out.append(("returned",))
    except Exception as e:
        out.append((type(e).__name__,))
print("unrebuildable class:", out)
if out[1][0] not in ("Weird", "MementoException"): ok = False
print("PASS" if ok else "FAIL"); sys.exit(0 if ok else 1)
