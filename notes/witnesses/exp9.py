import tempfile
from twosigma.memento import Environment, memento_function
d = tempfile.mkdtemp()
Environment.set({"name":"e","base_dir":d})
import pkg.m5 as m
g = m.outer.partial(a=1)          # long-lived modifier clone
print("before: outer", m.outer.version(), "clone", g.version(), "->", g())
# redefine the dependency in-process (re-execute its definition with a new body)
exec("@memento_function\ndef inner(a):\n    return a + 500\n", m.__dict__)
print("after : outer", m.outer.version(), "clone", g.version(), "->", g(), " unmemoized:", m.outer.fn(1))
