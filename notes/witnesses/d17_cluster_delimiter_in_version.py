import sys, tempfile
import twosigma.memento as m
from twosigma.memento import FunctionReference, Environment, ConfigurationRepository, FunctionCluster
from twosigma.memento.storage_filesystem import FilesystemStorageBackend
ok = True
r = FunctionReference.from_qualified_name("cl::nomod:fn#a::b")
print(r.qualified_name, "| cluster", r.cluster_name)
if r.qualified_name != "cl::nomod:fn#a::b": ok = False
p = FunctionReference.parse_qualified_name(r.qualified_name)
print(p)
if p["cluster"] != "cl": ok = False
d = tempfile.mkdtemp()
Environment.set(Environment(name="t", base_dir=d, repos=[ConfigurationRepository(name="r", clusters={"cl": FunctionCluster(name="cl", storage=FilesystemStorageBackend(path=d))})]))
@m.memento_function(version="1::2")
def g(x): return x
ref = g.fn_reference()
print(ref.qualified_name, "| without cluster:", ref.qualified_name_without_cluster)
if ref.qualified_name_without_cluster != ref.qualified_name: ok = False
print("PASS" if ok else "FAIL"); sys.exit(0 if ok else 1)
