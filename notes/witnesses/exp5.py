import threading, tempfile, datetime
from twosigma.memento import Environment
d = tempfile.mkdtemp()
Environment.set({"name":"e","base_dir":d})
import pkg.m4 as m
from twosigma.memento import storage_base as sb
from twosigma.memento.call_stack import StackFrame
from twosigma.memento.runner_local import LocalRunnerBackend
from twosigma.memento.context import RecursiveContext
from twosigma.memento.metadata import ResultType

def mk(fnref, res):
    fr = StackFrame(fnref, LocalRunnerBackend(), RecursiveContext(correlation_id="c"))
    fr.memento.invocation_metadata.result_type = ResultType.from_object(res)
    fr.memento.invocation_metadata.runtime = datetime.timedelta(0)
    return fr.memento

mc = sb.MemoryCache(1)
fa = m.f.fn_reference().with_args(1)
mem = mk(fa, "x")

# Schedule: thread A is preempted at the call to _CacheEntry() inside put (after _evict, before insert);
# thread B runs put() for the same key to completion; A resumes.
gate_a_reached = threading.Event(); gate_a_go = threading.Event()
orig_init = sb._CacheEntry.__init__
def patched(self, *a, **k):
    if threading.current_thread().name == "A":
        gate_a_reached.set(); gate_a_go.wait()
    orig_init(self, *a, **k)
sb._CacheEntry.__init__ = patched
ta = threading.Thread(target=lambda: mc.put(mem, None, False), name="A")   # e.g. batch pre-check fill (memento only)
tb = threading.Thread(target=lambda: mc.put(mem, "value"*10, True), name="B")  # e.g. memoize write-through
ta.start(); gate_a_reached.wait(); tb.start(); tb.join(); gate_a_go.set(); ta.join()
resident = sum(e.obj_size for e in mc.cache.values())
print("usage", mc.memory_usage, "resident-accounted", resident, "lru", list(mc.lru_deque))
mc.forget_call(fa.fn_reference_with_arg_hash())
print("after forget_call: usage", mc.memory_usage, "cache", len(mc.cache), "lru", list(mc.lru_deque))
