"""K2b: which name is bound to which function is not part of the version. Only the set of
functions reached is hashed (rule keys carry the target's name and only order the digest), so
swapping two aliases leaves the version unchanged and the stored result is served."""
import tempfile, shutil, sys, os, subprocess, textwrap
d = tempfile.mkdtemp()
pk = os.path.join(d, "pkgk2c"); os.makedirs(pk); open(os.path.join(pk, "__init__.py"), "w").close()
SRC = '''
from twosigma.memento import memento_function
@memento_function
def g():
    return 1
@memento_function
def h():
    return 100
a = %s
b = %s
@memento_function
def f():
    return a() - b()
'''
RUN = '''
import sys; sys.path.insert(0, %r)
import twosigma.memento as m
m.Environment.set({"name": "t", "base_dir": %r, "repos": [{"name": "r", "clusters": {"main": {"name": "main", "storage": {"type": "filesystem", "path": %r}}}}]})
import pkgk2c.mod as mod
print(mod.f(), mod.f.version())
''' % (d, d, d + "/s")
try:
    out = []
    for a, b in (("g", "h"), ("h", "g")):
        open(os.path.join(pk, "mod.py"), "w").write(SRC % (a, b))
        shutil.rmtree(os.path.join(pk, "__pycache__"), ignore_errors=True)
        out.append(subprocess.run([sys.executable, "-c", RUN], capture_output=True, text=True).stdout.split())
    print(out, "expected second result 99")
    print("PASS" if out[1][0] == "99" else "FAIL")
finally:
    shutil.rmtree(d)
