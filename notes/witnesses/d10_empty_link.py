import tempfile, os, glob, sys, itertools
import twosigma.memento as m
from twosigma.memento import Environment, ConfigurationRepository, FunctionCluster
from twosigma.memento.storage_filesystem import FilesystemStorageBackend
d = tempfile.mkdtemp()
Environment.set(Environment(name="t", base_dir=d, repos=[ConfigurationRepository(name="r", clusters={"c": FunctionCluster(name="c", storage=FilesystemStorageBackend(path=d))})]))
_c = itertools.count(1)
runs = []
@m.memento_function(cluster="c")
def f(x):
    next(_c)
    return "value-%d" % x
def n(): 
    import copy
    return int(repr(_c)[6:-1]) - 1
print(f(1), n())
links = glob.glob(os.path.join(d, "c", "*.link"))
open(links[0], "w").close()   # crash between open and write of the data pointer
f.forget_all()                # (or: another function producing the same bytes)
print(f(1), n()); print(f(1), n()); print(f(1), n())
