import twosigma.memento as m
from twosigma.memento.partition import InMemoryPartition

@m.memento_function(cluster="c15")
def pa():
    return InMemoryPartition({"a": 1, "b": 2})

@m.memento_function(cluster="c15")
def pb():
    p = InMemoryPartition({"b": 3, "c": 4})
    p._merge_parent = pa()
    return p

@m.memento_function(cluster="c15")
def pc():
    p = InMemoryPartition({"c": 5, "d": 6})
    p._merge_parent = pb()
    return p
