import tempfile, sys, datetime
import pandas as pd
from twosigma.memento.storage_filesystem import FilesystemStorageBackend
from twosigma.memento.metadata import Memento, InvocationMetadata, ResultType
from twosigma.memento.reference import FunctionReferenceWithArguments
import twosigma.memento as m

@m.memento_function(version="1")
def f(x):
    return x

d = tempfile.mkdtemp()
b = FilesystemStorageBackend(path=d, memory_cache_mb=1)
ref = f.fn_reference().with_args(1)
def memento(rt):
    return Memento(time=datetime.datetime.now(datetime.timezone.utc),
                   invocation_metadata=InvocationMetadata(fn_reference_with_args=ref, invocations=[], resources=[], runtime=datetime.timedelta(0), result_type=rt),
                   function_dependencies={ref.fn_reference}, runner={}, correlation_id="c", content_key=None)
big = pd.DataFrame({"a": range(400000)})          # > 1 MB: never resident, only weakly referenced
b.memoize(None, memento(ResultType.data_frame), big)
m2 = memento(ResultType.number)
b.memoize(None, m2, 7)                               # same call, new value (last write)
# push the entry for this call out of the cache
for i in range(2, 40):
    r2 = f.fn_reference().with_args(i)
    mm = Memento(time=m2.time, invocation_metadata=InvocationMetadata(fn_reference_with_args=r2, invocations=[], resources=[], runtime=datetime.timedelta(0), result_type=ResultType.data_frame),
                 function_dependencies={r2.fn_reference}, runner={}, correlation_id="c", content_key=None)
    b.memoize(None, mm, pd.DataFrame({"a": range(20000)}))
got = b.read_result(m2)  # a memento the caller still holds
print(type(got).__name__, got if not isinstance(got, pd.DataFrame) else "<DataFrame %d rows>" % len(got))
ok = (not isinstance(got, pd.DataFrame)) and got == 7
print("PASS" if ok else "FAIL"); sys.exit(0 if ok else 1)
