import tempfile, sys
from twosigma.memento import Environment, ConfigurationRepository, FunctionCluster
from twosigma.memento.storage_filesystem import FilesystemStorageBackend
ok = True
for cache_mb in (None, 10):
    d = tempfile.mkdtemp()
    def env():
        Environment.set(Environment(name="t", base_dir=d, repos=[ConfigurationRepository(name="r", clusters={"c15": FunctionCluster(name="c15", storage=FilesystemStorageBackend(path=d, memory_cache_mb=cache_mb))})]))
    env()
    import pkg15.m as mod
    first = mod.pc()                      # computed: parents are fresh / cached in-memory partitions
    k1 = sorted(first.list_keys())
    env()                                  # fresh backend: read back from disk
    second = mod.pc()
    k2 = sorted(second.list_keys())
    print("cache_mb", cache_mb, "returned", k1, "read back", k2, type(second).__name__)
    if k2 != ["a", "b", "c", "d"] or second.get("a") != 1:
        ok = False
print("PASS" if ok else "FAIL"); sys.exit(0 if ok else 1)
