# fresh process computing version of program where outer's `inner` is bound to inner2
import tempfile
from twosigma.memento import Environment
d = tempfile.mkdtemp()
Environment.set({"name":"e","base_dir":d})
import pkg.m5 as m
print(m.outer.version())
