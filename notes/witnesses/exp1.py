import sys, tempfile, os
from twosigma.memento import Environment
d = tempfile.mkdtemp()
Environment.set({"name":"e","base_dir":d})
import pkg.m1 as m
print("default", m.f_default.version())
print("setconst", m.f_setconst.version())
print("helper", m.f_helper.version())
