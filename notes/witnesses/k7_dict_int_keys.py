"""
C11 observation on the UNCHANGED tree: a dict argument with non-string keys is accepted by
memento (validate_args does not look at keys, the call is memoized under a hash computed from
the int keys), but JSON turns the keys into strings, so the stored memento decodes to different
arguments with a different argument hash. Likewise a content key whose *version* contains '#'
is split in the wrong place by decode_versioned_data_source_key (rfind).

Exit 0 if both survive the codec, non-zero otherwise.
"""
import json
import shutil
import tempfile

import twosigma.memento as m
from twosigma.memento import (
    Environment,
    ConfigurationRepository,
    FunctionCluster,
    memento_function,
)
from twosigma.memento.serialization import MementoCodec
from twosigma.memento.storage_filesystem import FilesystemStorageBackend
from twosigma.memento.types import VersionedDataSourceKey


@memento_function(cluster="c1")
def lookup(table):
    return len(table)


def main():
    base = tempfile.mkdtemp(prefix="c11_defect2_")
    original_env = m.Environment.get()
    failures = []
    try:
        m.Environment.set(
            Environment(
                name="defect2",
                base_dir=base,
                repos=[
                    ConfigurationRepository(
                        name="repo1",
                        clusters={
                            "c1": FunctionCluster(
                                name="c1",
                                storage=FilesystemStorageBackend(path=base + "/data"),
                            )
                        },
                    )
                ],
            )
        )
        assert lookup({1: "a", 2: "b"}) == 2
        expected = lookup.fn_reference().with_args({1: "a", 2: "b"})
        memento = lookup.memento({1: "a", 2: "b"})
        assert memento is not None
        got = memento.invocation_metadata.fn_reference_with_args
        if got.arg_hash != expected.arg_hash:
            failures.append(
                "dict with int keys: stored memento decodes to {!r}, hash {} != {}".format(
                    got.args, got.arg_hash[:12], expected.arg_hash[:12]
                )
            )

        key = VersionedDataSourceKey("c/abc", "v#1")
        back = MementoCodec.decode_versioned_data_source_key(
            json.loads(json.dumps(MementoCodec.encode_versioned_data_source_key(key)))
        )
        if back != key:
            failures.append("content key {!r} decodes to {!r}".format(key, back))
    finally:
        m.Environment.set(original_env)
        shutil.rmtree(base, ignore_errors=True)
    for failure in failures:
        print("defect2:", failure)
    assert not failures
    print("defect2: property holds")


if __name__ == "__main__":
    main()
