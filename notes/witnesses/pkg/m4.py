from twosigma.memento import memento_function
class _Runs:
    def __init__(self): self.l = []
    def append(self, x): self.l.append(x)
    def clear(self): self.l.clear()
    def __repr__(self): return repr(self.l)
runs = _Runs()

@memento_function
def f(x):
    runs.append(("f", x))
    return "result-%d" % x

@memento_function
def g(x):
    runs.append(("g", x))
    return "result-%d" % x
