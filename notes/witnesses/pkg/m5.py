from twosigma.memento import memento_function

class Cfg:
    x = 1

@memento_function
def uses_cfg():
    return Cfg.x

@memento_function
def inner(a):
    return a + 1

@memento_function
def outer(a):
    return inner(a) * 2

@memento_function
def inner2(a):
    return a + 1000
