from twosigma.memento import memento_function

@memento_function
def f_default(x, y=1):
    return x + y

@memento_function
def f_setconst(x):
    return x in {"alpha", "beta", "gamma", "delta"}

def helper(z=10):
    return z

@memento_function
def f_helper():
    return helper()
