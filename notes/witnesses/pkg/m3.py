from twosigma.memento import memento_function
from twosigma.memento.partition import InMemoryPartition
from twosigma.memento.storage_filesystem import OnDiskPartition

class _Runs:
    def __init__(self): self.l = []
    def append(self, x): self.l.append(x)
    def clear(self): self.l.clear()
    def __repr__(self): return repr(self.l)
runs = _Runs()

@memento_function
def base_part():
    runs.append("base")
    return InMemoryPartition({"a": 1, "b": 2})

@memento_function
def child_part():
    runs.append("child")
    p = InMemoryPartition({"b": 20, "c": 30})
    p._merge_parent = base_part()
    return p

@memento_function
def disk_part():
    runs.append("disk")
    p = OnDiskPartition()
    p["k"] = "v"
    return p

class Outer:
    pass

def mk_exc():
    class LocalErr(Exception):
        pass
    return LocalErr

@memento_function
def raises_local():
    runs.append("raises_local")
    raise mk_exc()("boom")
