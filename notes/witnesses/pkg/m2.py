from twosigma.memento import memento_function

@memento_function
def leaf(x):
    return x * 2

@memento_function
def undeclared_target(x):
    return x + 100

def _hidden():
    import pkg.m2 as me
    return getattr(me, "undeclared_" + "target")

@memento_function
def caller(x):
    return _hidden()(x) + leaf(x)
