import subprocess, sys, os
import twosigma.memento as m
from twosigma.memento import MementoFunction
import pkg19.m as mod
ok = True
# D19: an unregistered wrapper adopts the cached version and can never notice a change
v0 = mod.f.version()
w = MementoFunction(mod.f.fn, register_fn=False)
assert w.version() == v0
mod.V = 2
wv = w.version(); fv = mod.f.version(); wv2 = w.version()
print("wrapper", wv, wv2, "registered", fv)
if wv2 != fv: ok = False
# D20: an undefined dotted attribute pins the old base object
g0 = mod.g.version()
mod.helper = mod.H2
g1 = mod.g.version()
fresh = subprocess.run([sys.executable, "-c", "import pkg19.m as mod; mod.helper = mod.H2; mod.V = 2\nprint(mod.g.version())"], capture_output=True, text=True, cwd=os.path.dirname(os.path.abspath(__file__))).stdout.strip()
print("g before", g0, "after rebinding helper", g1, "fresh process", fresh)
if g1 == g0: ok = False
# D16b: closures of one factory share a qualname
vs = set()
for seed in range(1, 9):
    out = subprocess.run([sys.executable, "-c", "import pkg19.m as mod; print(mod.h.version())"], env={"PYTHONHASHSEED": str(seed), "PATH": "/usr/bin:/bin", "HOME": "/tmp/w/home"}, capture_output=True, text=True, cwd=os.path.dirname(os.path.abspath(__file__)))
    vs.add(out.stdout.strip())
print("h versions over 8 hash seeds:", sorted(vs))
if len(vs) != 1: ok = False
print("PASS" if ok else "FAIL"); sys.exit(0 if ok else 1)
