"""K2: two names bound to one plain function collapse into one hash rule (the rule key is the
function's own qualified name), so only one of the two bindings is watched for change."""
import tempfile, shutil, sys, os
sys.path.insert(0, os.path.dirname(os.path.abspath(__file__)))
import twosigma.memento as m
d = tempfile.mkdtemp()
try:
    m.Environment.set({"name": "t", "base_dir": d, "repos": [{"name": "r", "clusters": {"main": {"name": "main", "storage": {"type": "filesystem", "path": d + "/s"}}}}]})
    import pkgk2.mod as mod
    r1 = mod.f(); v1 = mod.f.version()
    print([r.key for r in mod.f.hash_rules()] if hasattr(mod.f, "hash_rules") else "")
    fails = 0
    for name in ("g2", "g"):
        old = getattr(mod, name)
        setattr(mod, name, mod.h)
        exp = mod.g() + mod.g2()
        r2 = mod.f(); v2 = mod.f.version()
        print("rebinding", name, "->", r2, "expected", exp, v1, v2)
        fails += r2 != exp
        setattr(mod, name, old)
        mod.f()
    print("PASS" if not fails else "FAIL")
finally:
    shutil.rmtree(d)
