"""
The memento JSON document written for a call with a NaN / infinite float argument is not
plain JSON: it contains the bare tokens NaN / Infinity / -Infinity, which RFC 8259 parsers
(and the JSON parsers of other language implementations) reject.
"""
import json
import os
import shutil
import tempfile

import twosigma.memento as m
from twosigma.memento import memento_function
from twosigma.memento.serialization import MementoCodec


@memento_function
def scale(x, factors=None):
    return 1


def reject_constant(token):
    raise ValueError("not plain JSON: bare token {}".format(token))


def main():
    base = tempfile.mkdtemp(prefix="r4_defect1_")
    original_env = m.Environment.get()
    try:
        m.Environment.set(
            {
                "name": "defect1",
                "base_dir": base,
                "repos": [
                    {
                        "name": "r",
                        "clusters": {
                            "main": {
                                "name": "main",
                                "storage": {"type": "filesystem"},
                            }
                        },
                    }
                ],
            }
        )
        scale(float("nan"), factors=[float("inf"), float("-inf")])
        paths = [
            os.path.join(d, name)
            for (d, _, names) in os.walk(base)
            for name in names
            if name.endswith(".memento.json")
        ]
        assert len(paths) == 1
        with open(paths[0], encoding="utf-8") as f:
            text = f.read()
        # A strict parser must accept the document
        json.loads(text, parse_constant=reject_constant)
        # ... and so must the codec output when serialized strictly
        ref = scale.fn_reference().with_args(float("nan"))
        json.dumps(MementoCodec.encode_fn_reference_with_args(ref), allow_nan=False)
    finally:
        m.Environment.set(original_env)
        shutil.rmtree(base, ignore_errors=True)
    print("defect1: OK")


if __name__ == "__main__":
    main()
