import twosigma.memento as m

@m.memento_function(cluster="c26")
def helper(x):
    return x

@m.memento_function(cluster="c26", dependencies=["helper"])
def callee(x):
    return x + 1

@m.memento_function(cluster="c26", version="1")
def caller(x):
    return callee(x)
