"""
"Explicit arguments override the file": the `base_dir` argument of Environment and of
ConfigurationRepository is documented to override `base_dir` of the config object and to be the
directory relative paths are evaluated against. At HEAD the relative repository / cluster paths
are resolved (and the files loaded) BEFORE the argument is applied, against the `base_dir` of the
config object only.
"""
import json
import os
import shutil
import sys
import tempfile

from twosigma.memento import ConfigurationRepository, Environment

tmp = tempfile.mkdtemp(prefix="defect1")
errors = []
try:
    for sub, desc in (("x", "from-x"), ("y", "from-y")):
        os.makedirs(os.path.join(tmp, sub))
        cluster = {"name": "A", "description": desc, "storage": {"type": "null"}}
        with open(os.path.join(tmp, sub, "cluster.json"), "w") as f:
            json.dump(cluster, f)
        with open(os.path.join(tmp, sub, "repo.json"), "w") as f:
            json.dump({"name": "repo-" + sub, "clusters": {"A": "cluster.json"}}, f)
    x, y = os.path.join(tmp, "x"), os.path.join(tmp, "y")

    # 1. config object has no base_dir, argument provides it
    try:
        env = Environment({"name": "e", "repos": ["repo.json"]}, base_dir=y)
        if env.get_cluster("A").description != "from-y":
            errors.append("Environment(base_dir=y) resolved A elsewhere")
    except FileNotFoundError as e:
        errors.append("Environment(config, base_dir=y): {}".format(e))

    # 2. config object says x, argument says y: the argument must win
    env = Environment({"name": "e", "base_dir": x, "repos": ["repo.json"]}, base_dir=y)
    got = env.get_cluster("A").description
    if got != "from-y":
        errors.append(
            "Environment({{base_dir: x}}, base_dir=y): base_dir is {} but cluster A was "
            "loaded {}".format(env.base_dir, got)
        )

    # 3. the same for ConfigurationRepository and its cluster files
    repo = ConfigurationRepository(
        {"name": "r", "base_dir": x, "clusters": {"A": "cluster.json"}}, base_dir=y
    )
    got = repo.clusters["A"].description
    if got != "from-y":
        errors.append(
            "ConfigurationRepository({{base_dir: x}}, base_dir=y): base_dir is {} but "
            "cluster A was loaded {}".format(repo.base_dir, got)
        )
finally:
    shutil.rmtree(tmp, ignore_errors=True)

for e in errors:
    print("FAIL:", e)
sys.exit(1 if errors else 0)
