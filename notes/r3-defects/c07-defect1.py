"""
defect1 (clean HEAD): two threads that store results with identical bytes at the same time
each create their own object under the one content key.

`Codec.BlobStrategy.store` does `exists_nonversioned(key)` and then `output(key, ...)` without any
exclusion; fn1(100) and fn2(100) are different invocations, so the runner's per-invocation mutex does
not serialize them. The interleaving is forced by making both threads finish the existence check
before either writes.
"""
import shutil
import sys
import tempfile
import threading
from pathlib import Path

import twosigma.memento as m
from twosigma.memento import Environment, ConfigurationRepository, FunctionCluster
from twosigma.memento.storage_filesystem import FilesystemStorageBackend


@m.memento_function(cluster="cluster1")
def fn1(a):
    return {"v": a, "pad": "x" * 50}


@m.memento_function(cluster="cluster1")
def fn2(a):
    return {"v": a, "pad": "x" * 50}


def main():
    base = tempfile.mkdtemp(prefix="defect1_")
    original_env = Environment.get()
    try:
        root = Path(base) / "store"
        backend = FilesystemStorageBackend(
            path=str(root), metadata_path=str(Path(base) / "meta")
        )
        Environment.set(
            Environment(
                name="defect1",
                base_dir=base,
                repos=[
                    ConfigurationRepository(
                        name="repo1",
                        clusters={
                            "cluster1": FunctionCluster(name="cluster1", storage=backend)
                        },
                    )
                ],
            )
        )
        env = Environment.get()

        # Both writers complete the "is the content key already there?" check before either writes
        data_source = backend._data_source
        barrier = threading.Barrier(2, timeout=30)
        real_exists = data_source.exists_nonversioned

        def exists_then_wait(key):
            result = real_exists(key)
            if key.key.startswith("c/"):
                barrier.wait()
            return result

        data_source.exists_nonversioned = exists_then_wait

        errors = []

        def run(fn):
            try:
                Environment.set(env)
                fn(100)
            except BaseException as e:  # noqa
                errors.append(e)

        threads = [threading.Thread(target=run, args=(f,)) for f in (fn1, fn2)]
        for t in threads:
            t.start()
        for t in threads:
            t.join(60)
        assert not errors, errors

        m1 = fn1.memento(100)
        m2 = fn2.memento(100)
        assert m1.content_key.key == m2.content_key.key
        objects = [
            p for p in (root / "c" / ".versions").glob("*/*") if ".meta." not in p.name
        ]
        assert len(objects) == 1 and m1.content_key == m2.content_key, (
            "same bytes stored {} times under one content key; mementos reference {} and {}".format(
                len(objects), m1.content_key.version, m2.content_key.version
            )
        )
        print("defect1 OK")
    finally:
        Environment.set(original_env)
        shutil.rmtree(base, ignore_errors=True)


if __name__ == "__main__":
    main()
    sys.exit(0)
