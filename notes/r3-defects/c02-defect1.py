"""
Unchanged tree: a caller that mutates the list it received changes what later calls with
equal arguments return (memory backend; filesystem backend with a memory cache).
"""
import logging
import os
import shutil
import sys
import tempfile

import twosigma.memento as m
from twosigma.memento import Environment, ConfigurationRepository, FunctionCluster
from twosigma.memento.runner_local import LocalRunnerBackend
from twosigma.memento.storage_filesystem import FilesystemStorageBackend
from twosigma.memento.storage_memory import MemoryStorageBackend

logging.getLogger("memento").setLevel(logging.CRITICAL)


@m.memento_function(cluster="mem")
def squares_mem(n):
    return [i * i for i in range(n)]


@m.memento_function(cluster="fs_cache")
def squares_fs_cache(n):
    return [i * i for i in range(n)]


@m.memento_function(cluster="fs")
def squares_fs(n):
    return [i * i for i in range(n)]


def main():
    base = tempfile.mkdtemp(prefix="memento_defect1_")
    original_env = Environment.get()
    try:
        clusters = {
            "mem": MemoryStorageBackend(),
            "fs_cache": FilesystemStorageBackend(
                path=os.path.join(base, "d1"), memory_cache_mb=16
            ),
            "fs": FilesystemStorageBackend(path=os.path.join(base, "d2")),
        }
        Environment.set(
            Environment(
                name="defect1",
                base_dir=base,
                repos=[
                    ConfigurationRepository(
                        name="repo1",
                        clusters={
                            name: FunctionCluster(
                                name=name, storage=storage, runner=LocalRunnerBackend()
                            )
                            for name, storage in clusters.items()
                        },
                    )
                ],
            )
        )
        failures = []
        for fn in (squares_fs, squares_fs_cache, squares_mem):
            first = fn(4)
            assert first == [0, 1, 4, 9]
            first.append(-1)  # the caller goes on working with its value
            later = fn(4)
            if later != [0, 1, 4, 9]:
                failures.append(
                    "{}: later call returned {}".format(
                        fn.fn_reference().qualified_name, later
                    )
                )
        assert not failures, failures
    finally:
        Environment.set(original_env)
        shutil.rmtree(base, ignore_errors=True)


if __name__ == "__main__":
    main()
    print("defect1: OK")
    sys.exit(0)
