"""
Unchanged tree, I/O fault: the blob of a memoized result is lost. The next call recomputes
(documented), but the result is never memoized again: the body runs on every later call.
"""
import glob
import logging
import os
import shutil
import sys
import tempfile

import twosigma.memento as m
from twosigma.memento import Environment, ConfigurationRepository, FunctionCluster
from twosigma.memento.runner_local import LocalRunnerBackend
from twosigma.memento.storage_filesystem import FilesystemStorageBackend

logging.getLogger("memento").setLevel(logging.CRITICAL)

BASE = tempfile.mkdtemp(prefix="memento_defect2_")
RUNS = os.path.join(BASE, "runs")


def _record_run():
    with open(RUNS, "a") as f:
        f.write("x")


def _runs():
    return os.path.getsize(RUNS) if os.path.exists(RUNS) else 0


@m.memento_function(cluster="defect2")
def squares(n):
    _record_run()
    return [i * i for i in range(n)]


def main():
    original_env = Environment.get()
    try:
        data = os.path.join(BASE, "data")
        Environment.set(
            Environment(
                name="defect2",
                base_dir=BASE,
                repos=[
                    ConfigurationRepository(
                        name="repo1",
                        clusters={
                            "defect2": FunctionCluster(
                                name="defect2",
                                storage=FilesystemStorageBackend(path=data),
                                runner=LocalRunnerBackend(),
                            )
                        },
                    )
                ],
            )
        )
        assert squares(4) == [0, 1, 4, 9]
        assert squares(4) == [0, 1, 4, 9]
        assert _runs() == 1

        # fault: the content blob disappears (disk trouble, overzealous cleanup, ...)
        blobs = glob.glob(os.path.join(data, "c", ".versions", "*", "*"))
        assert len(blobs) == 1
        os.unlink(blobs[0])

        assert squares(4) == [0, 1, 4, 9]
        assert _runs() == 2  # recomputed once: fine

        for _ in range(3):
            assert squares(4) == [0, 1, 4, 9]
        assert _runs() == 2, "body ran {} times; the recomputed result was never memoized".format(
            _runs()
        )
    finally:
        Environment.set(original_env)
        shutil.rmtree(BASE, ignore_errors=True)


if __name__ == "__main__":
    main()
    print("defect2: OK")
    sys.exit(0)
