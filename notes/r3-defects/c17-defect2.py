"""
UNCHANGED TREE: a merge parent that lives in another storage (function of another cluster).
The merged index refers to the parent's blobs by content key + version, DataSource.reference
is a no-op for the filesystem data source, so the inherited entries are never copied: the
stored partition lists them but cannot load them.
"""
import logging
import os
import shutil
import sys
import tempfile

sys.path.insert(0, os.getcwd())

import twosigma.memento as m  # noqa: E402
from twosigma.memento import (  # noqa: E402
    Environment,
    ConfigurationRepository,
    FunctionCluster,
)
from twosigma.memento.partition import InMemoryPartition  # noqa: E402
from twosigma.memento.storage_filesystem import FilesystemStorageBackend  # noqa: E402

logging.disable(logging.CRITICAL)


def dump(p):
    return {k: p.get(k) for k in p.list_keys()}


@m.memento_function(cluster="c2")
def fa():
    return InMemoryPartition({"a": 1, "b": 2})


@m.memento_function(cluster="c1")
def fb():
    child = InMemoryPartition({"b": 3, "c": 4})
    child._merge_parent = fa()
    return child


EXPECTED = {"a": 1, "b": 3, "c": 4}

base = tempfile.mkdtemp(prefix="memento_defect2_")
original_env = m.Environment.get()
try:
    s1 = FilesystemStorageBackend(path=base + "/data1")
    s2 = FilesystemStorageBackend(path=base + "/data2")
    m.Environment.set(
        Environment(
            name="demo",
            base_dir=base,
            repos=[
                ConfigurationRepository(
                    name="r",
                    clusters={
                        "c1": FunctionCluster(name="c1", storage=s1),
                        "c2": FunctionCluster(name="c2", storage=s2),
                    },
                )
            ],
        )
    )
    assert dump(fb()) == EXPECTED
    assert fb.memento() is not None
    second = fb()
    assert sorted(second.list_keys()) == sorted(EXPECTED)
    try:
        got = dump(second)
    except Exception as e:
        raise AssertionError(("read back: inherited key not loadable", repr(e)))
    assert got == EXPECTED, got
finally:
    m.Environment.set(original_env)
    shutil.rmtree(base, ignore_errors=True)

print("defect2 OK")
