"""
defect3 (clean HEAD, borderline): "forget_* never delete data objects" does not hold for
forget_everything in the DEFAULT filesystem configuration (no separate metadata_path).
DataSourceMetadataSource.forget_everything() does delete_all_versions(DataSourceKey(""), True) on
the metadata data source; when that is the same object as the data source, the whole root -
including c/ and every override key - is removed, so a memento obtained earlier can no longer
read its bytes. With a separate metadata_path the same history leaves all data objects in place.
"""
import shutil
import sys
import tempfile
from pathlib import Path

import twosigma.memento as m
from twosigma.memento import Environment, ConfigurationRepository, FunctionCluster
from twosigma.memento.storage_filesystem import FilesystemStorageBackend


@m.memento_function(cluster="cluster1")
def fn(a):
    return {"v": a}


def history(base: str, backend) -> None:
    Environment.set(
        Environment(
            name="defect3",
            base_dir=base,
            repos=[
                ConfigurationRepository(
                    name="repo1",
                    clusters={"cluster1": FunctionCluster(name="cluster1", storage=backend)},
                )
            ],
        )
    )
    fn(1)
    memento = fn.memento(1)
    assert backend.read_result(memento) == {"v": 1}
    backend.forget_everything()
    assert fn.memento(1) is None
    # The memento obtained before still names a versioned object: it must still be there
    assert backend._data_source.exists_versioned(memento.content_key), (
        "forget_everything removed the data object {}".format(memento.content_key)
    )
    assert backend.read_result(memento) == {"v": 1}


def main():
    base = tempfile.mkdtemp(prefix="defect3_")
    original_env = Environment.get()
    try:
        # separate metadata path: passes
        history(
            base,
            FilesystemStorageBackend(
                path=str(Path(base) / "d1"), metadata_path=str(Path(base) / "m1")
            ),
        )
        # default layout: fails
        history(base, FilesystemStorageBackend(path=str(Path(base) / "d2")))
        print("defect3 OK")
    finally:
        Environment.set(original_env)
        shutil.rmtree(base, ignore_errors=True)


if __name__ == "__main__":
    main()
    sys.exit(0)
