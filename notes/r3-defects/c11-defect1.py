"""
UNCHANGED tree: the memento document written for a call whose argument is NaN or +/-infinity
is not plain (RFC 8259) JSON - it contains the bare tokens NaN / Infinity / -Infinity, which
strict parsers (JSON.parse, Jackson defaults, Go encoding/json, ...) reject.

Exits non-zero at clean HEAD.
"""
import json
import os
import shutil
import tempfile

import twosigma.memento as m
from twosigma.memento import memento_function
from twosigma.memento.reference import FunctionReferenceWithArguments
from twosigma.memento.serialization import MementoCodec


@memento_function
def describe(x, tag=None):
    return str(x)


def reject_constant(token):
    raise ValueError("not plain JSON: bare token {}".format(token))


def main():
    base = tempfile.mkdtemp(prefix="defect1_")
    original_env = m.Environment.get()
    failures = []
    try:
        m.Environment.set({"name": "defect1", "base_dir": base})

        # 1. codec level: the encoded document round-trips in Python ...
        for value in (float("nan"), float("inf"), float("-inf"), [1.0, float("nan")]):
            fa = FunctionReferenceWithArguments(describe.fn_reference(), (value,), {})
            doc = MementoCodec.encode_fn_reference_with_args(fa)
            back = MementoCodec.decode_fn_reference_with_args(json.loads(json.dumps(doc)))
            assert back.arg_hash == fa.arg_hash
            # ... but cannot be emitted as strict JSON
            try:
                json.dumps(doc, allow_nan=False)
            except ValueError as e:
                failures.append("codec {!r}: {}".format(value, e))

        # 2. the files the filesystem backend writes
        describe(float("nan"))
        describe(float("-inf"), tag="x")
        for root, _, names in os.walk(base):
            for name in names:
                if name.endswith(".memento.json"):
                    with open(os.path.join(root, name), encoding="utf-8") as f:
                        text = f.read()
                    try:
                        json.loads(text, parse_constant=reject_constant)
                    except ValueError as e:
                        failures.append("file {}: {}".format(name[:12], e))
    finally:
        m.Environment.set(original_env)
        shutil.rmtree(base, ignore_errors=True)

    for failure in failures:
        print(failure)
    assert not failures, "{} documents are not plain JSON".format(len(failures))
    print("defect1: ok")


if __name__ == "__main__":
    main()
