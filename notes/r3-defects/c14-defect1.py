"""
defect1 (UNCHANGED tree): every function modifier (force_local(), partial(), ignore_result(),
with_context_args() ...) goes through MementoFunction.clone_with(), which pins
`version=self.version()`.  The clone therefore has an *explicit* version, and

  1. a caller with an automatic version that is invoked through a modifier is treated by
     _validate_dependency as "explicit version, nothing to check": a call outside its static
     closure returns a result instead of UndeclaredDependencyError;
  2. the clone's hash rules stay empty (_update_dependencies returns early for explicit
     versions), so clone.dependencies() reports no transitive/direct dependencies at all;
  3. (same early return) a genuinely explicit-version function in the middle of a chain
     A -> B(version="1") -> C is expanded by A's closure (C is transitive of A) but df() has
     no edge B -> C, so graph and closure disagree.
"""
import os
import sys
import shutil
import tempfile
import textwrap

sys.path.insert(0, os.path.dirname(os.path.abspath(__file__)))

from twosigma.memento import Environment  # noqa: E402
from twosigma.memento.exception import UndeclaredDependencyError  # noqa: E402

SRC = '''
from twosigma.memento import memento_function


@memento_function
def hidden(x):
    return x + 100


@memento_function
def sneaky_plain(x):
    return globals()["hid" + "den"](x)


@memento_function
def sneaky_local(x):
    return globals()["hid" + "den"](x)


@memento_function
def sneaky_partial(x):
    return globals()["hid" + "den"](x)


@memento_function
def c():
    return 1


@memento_function
def r():
    return c()


@memento_function(version="1")
def b():
    return c()


@memento_function
def a():
    return b()
'''


def main():
    work = tempfile.mkdtemp(prefix="defect1")
    failures = []
    try:
        env_file = os.path.join(work, "env.json")
        with open(env_file, "w") as f:
            f.write('{"name": "defect1"}')
        Environment.set(env_file)

        pkg = os.path.join(work, "defect1pkg")
        os.makedirs(pkg)
        open(os.path.join(pkg, "__init__.py"), "w").close()
        with open(os.path.join(pkg, "prog.py"), "w") as f:
            f.write(textwrap.dedent(SRC))
        sys.path.insert(0, work)
        import defect1pkg.prog as prog

        # 1. enforcement
        for label, call in (
            ("plain call", lambda: prog.sneaky_plain(1)),
            ("force_local()", lambda: prog.sneaky_local.force_local()(1)),
            ("partial(x=1)", lambda: prog.sneaky_partial.partial(x=1)()),
        ):
            try:
                result = call()
            except UndeclaredDependencyError:
                continue
            failures.append(
                "{}: call outside the closure returned {!r} instead of "
                "UndeclaredDependencyError".format(label, result)
            )

        # 2. closure reported for a modifier clone
        assert prog.r.dependencies().transitive_memento_fn_dependencies() == {prog.c}
        got = prog.r.force_local().dependencies().transitive_memento_fn_dependencies()
        if got != {prog.c}:
            failures.append(
                "r.force_local().dependencies() transitive = {} (expected c)".format(got)
            )

        # 3. graph below an explicit-version function
        deps = prog.a.dependencies()
        assert deps.transitive_memento_fn_dependencies() == {prog.b, prog.c}
        df = deps.df()
        edges = set(zip(df.src, df.target))
        edge = (
            prog.b.qualified_name_without_version,
            prog.c.qualified_name_without_version,
        )
        if edge not in edges:
            failures.append("a.dependencies().df() has no edge b -> c: {}".format(edges))
    finally:
        shutil.rmtree(work, ignore_errors=True)

    if failures:
        for failure in failures:
            print("DEFECT:", failure)
        sys.exit(1)
    print("defect1 not reproduced")


if __name__ == "__main__":
    main()
