"""
defect2 (unchanged tree): a modifier clone of an automatically-versioned function
(`f.force_local()`, `f.ignore_result()`, `f.partial(...)`, `f.monitor_progress()` ...) is created
with `version=self.version()`, i.e. with an *explicit* version, and never re-computes it. A clone
that is kept across an in-process edit keeps returning the result of the earlier edition.
"""
import os
import sys
import tempfile
import types

import twosigma.memento as m

SOURCE = '''
import twosigma.memento as m

K = 1


@m.memento_function
def f():
    return K * 100
'''


def main():
    with tempfile.TemporaryDirectory(prefix="defect2") as tmp:
        m.Environment.set({"name": "defect2", "base_dir": os.path.join(tmp, "env")})
        path = os.path.join(tmp, "progd2.py")
        with open(path, "w") as fh:
            fh.write(SOURCE)
        module = types.ModuleType("progd2")
        module.__file__ = path
        sys.modules["progd2"] = module
        exec(compile(SOURCE, path, "exec"), module.__dict__)

        local_f = module.f.force_local()  # the user never asked for an explicit version
        assert local_f() == 100
        module.K = 2  # the edit
        assert module.f() == 200  # the registered function notices the edit
        got = local_f()
        assert got == module.f.fn() == 200, (
            "stale result: f.force_local() created before the edit returned {} but the current "
            "program computes {}".format(got, module.f.fn())
        )
    print("defect2 ok")


if __name__ == "__main__":
    main()
