"""
UNCHANGED tree: a string-keyed dict argument that happens to contain the key "_mementoType"
is not distinguished from a date / datetime, and is not delivered to the function body as
the dict that was passed.
"""
import datetime
import shutil
import tempfile

from twosigma.memento import Environment, memento_function


@memento_function
def describe(x):
    return type(x).__name__


def main():
    base = tempfile.mkdtemp(prefix="defect1")
    try:
        Environment.set({"name": "defect1", "base_dir": base})
        ref = describe.fn_reference()
        as_date = datetime.date(2020, 1, 1)
        as_dict = {"_mementoType": "date", "iso8601": "2020-01-01"}

        assert describe(as_date) == "date"
        h_date = ref.with_args(as_date).arg_hash
        h_dict = ref.with_args(as_dict).arg_hash
        assert h_date != h_dict, "a dict and a date share one memo key"
        assert describe(as_dict) == "dict", "body did not receive the dict"
        print("ok")
    finally:
        shutil.rmtree(base, ignore_errors=True)


if __name__ == "__main__":
    main()
