"""
defect1 (unchanged tree): the version digest concatenates the rule hashes without a separator,
and the "hash" of a dependency that has an explicit version is the version string itself.
Moving characters between the explicit versions of two adjacent dependencies leaves the digest
of the caller unchanged, so the caller returns a result computed by the earlier edition.

Each edition runs in a fresh interpreter against the same persistent store.
"""
import json
import os
import subprocess
import sys
import tempfile

ROOT = os.path.dirname(os.path.abspath(__file__))

TEMPLATE = '''
import twosigma.memento as m


@m.memento_function(version="{va}")
def ga():
    return {ra}


@m.memento_function(version="{vb}")
def gb():
    return {rb}


@m.memento_function
def f():
    return ga() + gb()
'''

DRIVER = '''
import json, sys
import twosigma.memento as m
m.Environment.set({"name": "defect1", "base_dir": sys.argv[1]})
import progd1
try:
    memoized = progd1.f()
except m.exception.UndeclaredDependencyError:
    memoized = "UNDECLARED"
print(json.dumps({"memoized": memoized, "expected": progd1.ga.fn() + progd1.gb.fn(),
                  "version": progd1.f.version()}))
'''


def run_edition(tmp, source):
    with open(os.path.join(tmp, "progd1.py"), "w") as f:
        f.write(source)
    env = dict(os.environ)
    env["PYTHONPATH"] = os.pathsep.join([tmp, ROOT])
    env["PYTHONDONTWRITEBYTECODE"] = "1"
    out = subprocess.run(
        [sys.executable, "-c", DRIVER, os.path.join(tmp, "env")],
        env=env, cwd=tmp, check=True, stdout=subprocess.PIPE, timeout=50,
    ).stdout.decode("utf-8")
    return json.loads(out.strip().splitlines()[-1])


def main():
    with tempfile.TemporaryDirectory(prefix="defect1") as tmp:
        os.makedirs(os.path.join(tmp, "env"))
        first = run_edition(tmp, TEMPLATE.format(va="1", vb="23", ra=1, rb=10))
        assert first["memoized"] == first["expected"] == 11, first
        # Both dependencies get a new explicit version (and a new body)
        second = run_edition(tmp, TEMPLATE.format(va="12", vb="3", ra=2, rb=20))
        assert second["expected"] == 22, second
        assert second["memoized"] in ("UNDECLARED", second["expected"]), (
            "stale result: f() returned {} but the current program computes {} "
            "(version of f before {}, after {})".format(
                second["memoized"], second["expected"], first["version"], second["version"]
            )
        )
    print("defect1 ok")


if __name__ == "__main__":
    main()
