"""
Defect on the UNCHANGED tree: a tracked module variable whose value is `None` is deleted.
GlobalVariableHashRule.did_change re-resolves the symbol with a resolver that returns `None`
for a missing name, so "deleted" is indistinguishable from "still None" and the cached
version (with a GlobalVariable rule hashing null) is kept, whereas a from-scratch
computation yields an UndefinedSymbol rule that does not contribute to the hash.

Exits 0 if the property holds, non-zero otherwise (fails at clean HEAD).
"""
import itertools
import os
import shutil
import sys
import tempfile
import types

tmp = tempfile.mkdtemp(prefix="memento_defect2_")
try:
    from twosigma.memento import Environment, MementoFunction  # noqa: E402

    env_file = os.path.join(tmp, "env.json")
    with open(env_file, "w") as f:
        f.write('{"name": "defect2"}')
    Environment.set(env_file)

    mod = types.ModuleType("defect2_mod")
    sys.modules["defect2_mod"] = mod
    counter = itertools.count()

    def define(src):
        path = os.path.join(tmp, "cell_{}.py".format(next(counter)))
        with open(path, "w") as fh:
            fh.write(src)
        exec(compile(src, path, "exec"), mod.__dict__)

    def from_scratch(fn):
        probe = MementoFunction(fn.fn, register_fn=False)
        version = probe._recompute_version()
        return version, sorted(r.key for r in probe._hash_rules)

    def check(fn, step):
        got = fn.version()
        got_keys = sorted(r.key for r in fn.hash_rules())
        expected, expected_keys = from_scratch(fn)
        assert got == expected, (
            "{}: cached version {} but from-scratch {}\n  cached rules: {}\n  "
            "from-scratch rules: {}".format(step, got, expected, got_keys, expected_keys)
        )

    define(
        "from twosigma.memento import memento_function\n"
        "\n"
        "HOOK = None\n"
        "\n"
        "@memento_function\n"
        "def f(x):\n"
        "    return HOOK(x) if HOOK is not None else x\n"
    )
    check(mod.f, "initial (HOOK = None)")

    # Event: the tracked variable is deleted
    del mod.HOOK
    check(mod.f, "after `del HOOK`")
    print("defect2: OK")
finally:
    shutil.rmtree(tmp, ignore_errors=True)
