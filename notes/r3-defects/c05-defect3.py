"""
defect3 (unchanged tree): StorageBackendBase.forget_call clears the memory cache and then the
metadata store, without a lock spanning both. A look-up by another thread between the two steps
re-populates the cache from the store, and the forgotten call stays "memoized" for good.
The interleaving is forced by hooking the metadata source's forget_call.
"""
import shutil
import tempfile
import threading

from _defect_common import f, memento_for
from twosigma.memento.storage_filesystem import FilesystemStorageBackend

base = tempfile.mkdtemp(prefix="memento_defect3_")
try:
    backend = FilesystemStorageBackend(
        path=base + "/data", metadata_path=base + "/meta", memory_cache_mb=1
    )
    call = f.fn_reference().with_args(1)
    h = call.fn_reference_with_arg_hash()
    backend.memoize(None, memento_for(call), "x")

    metadata_source = backend._metadata_source
    original = metadata_source.forget_call

    def forget_call_with_concurrent_lookup(fn_with_arg_hash):
        # the cache has been cleared already; another thread now looks the call up
        t = threading.Thread(target=lambda: backend.get_mementos([h]))
        t.start()
        t.join()
        return original(fn_with_arg_hash)

    metadata_source.forget_call = forget_call_with_concurrent_lookup
    backend.forget_call(h)
    metadata_source.forget_call = original

    # Both operations have completed; in either order the call must be gone now.
    assert [] == backend.list_mementos(f.fn_reference())
    assert not backend.is_memoized(
        call.fn_reference, call.arg_hash
    ), "forgotten call is still reported as memoized"
    assert [None] == backend.get_mementos([h]), "forgotten memento reappeared"
finally:
    shutil.rmtree(base, ignore_errors=True)
print("defect3: ok")
