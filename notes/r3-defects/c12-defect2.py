"""
Unchanged tree: a callee is moved to another cluster without any change to its code (so its
version string stays the same). References to it that were stored before the move are read
back under a qualified name that was never stored, and whose cluster prefix can disagree
with the reference's own cluster_name.
"""
import linecache
import os
import shutil
import sys
import tempfile
import textwrap
import types

import twosigma.memento as m
from twosigma.memento import FunctionReference

tmp = tempfile.mkdtemp(prefix="memento_defect2_")


def load(modname, src):
    mod = sys.modules.get(modname)
    if mod is None:
        mod = types.ModuleType(modname)
        mod.__file__ = os.path.join(tmp, modname + ".py")
        sys.modules[modname] = mod
    src = textwrap.dedent(src)
    with open(mod.__file__, "w") as f:
        f.write(src)
    linecache.checkcache(mod.__file__)
    exec(compile(src, mod.__file__, "exec"), mod.__dict__)
    return mod


SRC = """
import twosigma.memento as m

@m.memento_function{deco}
def callee(x):
    return x + 1

@m.memento_function(version="1")
def caller(x):
    return callee(x) * 2
"""


def deco(cluster):
    return "(cluster=%r)" % cluster if cluster else ""


failures = []
try:
    m.Environment.set(
        {
            "name": "defect2",
            "base_dir": tmp,
            "repos": [
                {
                    "name": "r",
                    "clusters": {
                        c: {
                            "name": c,
                            "storage": {
                                "type": "filesystem",
                                "path": os.path.join(tmp, "store_" + c),
                            },
                        }
                        for c in ("c1", "c2")
                    },
                }
            ],
        }
    )
    m.Environment.get().get_cluster(None).storage = m.StorageBackend.create(
        "filesystem", {"path": os.path.join(tmp, "store_default")}
    )
    for i, (before, after) in enumerate([(None, "c2"), ("c1", "c2")]):
        modname = "defect2_mod%d" % i
        mod = load(modname, SRC.format(deco=deco(before)))
        assert mod.caller(1) == 4
        stored_name = mod.callee.fn_reference().qualified_name
        mod = load(modname, SRC.format(deco=deco(after)))

        (invocation,) = mod.caller.memento(1).invocation_metadata.invocations
        ref = invocation.fn_reference
        parts = FunctionReference.parse_qualified_name(ref.qualified_name)
        if ref.qualified_name != stored_name:
            failures.append(
                "%r -> %r: stored reference %r is read back as %r (external=%r)"
                % (before, after, stored_name, ref.qualified_name, ref.external)
            )
        if parts["cluster"] != ref.cluster_name:
            failures.append(
                "%r -> %r: %r has cluster_name %r"
                % (before, after, ref.qualified_name, ref.cluster_name)
            )
        listed = [r.qualified_name for r in m.list_memoized_functions(before)]
        if stored_name not in listed:
            failures.append(
                "%r -> %r: cluster %r stores %r but lists %r"
                % (before, after, before, stored_name, listed)
            )
finally:
    shutil.rmtree(tmp, ignore_errors=True)

for failure in failures:
    print("DEFECT:", failure)
assert not failures
print("defect2: OK")
