"""
UNCHANGED tree: with a locked cluster, the version of a function depends on definition order.

The program defines `f` (calls `g`) and `g`, then locks the default cluster (the documented
way to freeze versions once all functions are defined) and only then asks for versions. It is
written twice, with `f` before `g` and with `g` before `f`. By the property both variants must
yield the same versions and the second process must reuse what the first one stored.
"""
import json
import os
import subprocess
import sys
import tempfile

ROOT = os.path.dirname(os.path.abspath(__file__))

HEADER = """
import os
from twosigma.memento import memento_function
"""

FN_F = '''
@memento_function
def f(x):
    with open(os.environ["DEMO_TRACE"], "a") as fh:
        fh.write("f\\n")
    return g(x) + 1
'''

FN_G = '''
@memento_function
def g(x):
    with open(os.environ["DEMO_TRACE"], "a") as fh:
        fh.write("g\\n")
    return x * 2
'''

DRIVER = """
import json, sys
sys.path.insert(0, sys.argv[1])
import prog
from twosigma.memento import Environment
Environment.get().get_cluster(None).locked = True
out = {"versions": {"f": prog.f.version(), "g": prog.g.version()}}
try:
    out["result"] = prog.f(1)
except Exception as e:
    out["error"] = type(e).__name__
print("RESULT " + json.dumps(out))
"""


def run(prog_dir, env_file, trace_file):
    env = dict(os.environ)
    env["PYTHONPATH"] = ROOT
    env["PYTHONHASHSEED"] = "0"
    env["MEMENTO_ENV"] = env_file
    env["DEMO_TRACE"] = trace_file
    out = subprocess.run(
        [sys.executable, "-c", DRIVER, prog_dir],
        env=env,
        cwd=prog_dir,
        capture_output=True,
        text=True,
        timeout=50,
    )
    if out.returncode != 0:
        print(out.stdout)
        print(out.stderr)
        raise SystemExit("driver failed")
    line = [x for x in out.stdout.splitlines() if x.startswith("RESULT ")][-1]
    return json.loads(line[len("RESULT "):])


def main():
    with tempfile.TemporaryDirectory(prefix="defect1") as tmp:
        env_file = os.path.join(tmp, "env.json")
        with open(env_file, "w") as f:
            json.dump({"name": "defect1"}, f)
        dirs = {}
        for name, body in (("g_first", FN_G + FN_F), ("f_first", FN_F + FN_G)):
            d = os.path.join(tmp, name)
            os.mkdir(d)
            with open(os.path.join(d, "prog.py"), "w") as f:
                f.write(HEADER + body)
            dirs[name] = d
        trace = os.path.join(tmp, "trace")

        open(trace, "w").close()
        first = run(dirs["g_first"], env_file, trace)
        executed1 = open(trace).read().split()
        open(trace, "w").close()
        second = run(dirs["f_first"], env_file, trace)
        executed2 = open(trace).read().split()
        print("g defined first:", first, "executed", executed1)
        print("f defined first:", second, "executed", executed2)

        assert first["versions"] == second["versions"], (
            "versions depend on definition order when the cluster is locked",
            first["versions"],
            second["versions"],
        )
        assert first.get("result") == second.get("result") == 3, (first, second)
        assert executed2 == [], executed2
    print("OK")


if __name__ == "__main__":
    main()
