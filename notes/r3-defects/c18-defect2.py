"""
YAML/JSON files with template parameters: ConfigurationRepository.from_file(path, **kwargs)
renders the repository file with the parameters, but the cluster files the repository refers to
are rendered with NO parameters. A `path: {{data_dir}}` in a cluster file silently becomes an
empty value, and the cluster stores to the default ~/.memento/data instead of failing or of
honouring the parameter. The same option written inline in the repository file is honoured.
"""
import os
import shutil
import sys
import tempfile

from twosigma.memento import ConfigurationRepository

tmp = tempfile.mkdtemp(prefix="defect2")
try:
    data_dir = os.path.join(tmp, "data")
    with open(os.path.join(tmp, "inline.yaml"), "w") as f:
        f.write(
            "name: r\nclusters:\n  A:\n    name: A\n    storage:\n"
            "      type: filesystem\n      path: {{data_dir}}\n"
        )
    with open(os.path.join(tmp, "nested.yaml"), "w") as f:
        f.write("name: r\nclusters:\n  A: cluster.yaml\n")
    with open(os.path.join(tmp, "cluster.yaml"), "w") as f:
        f.write("name: A\nstorage:\n  type: filesystem\n  path: {{data_dir}}\n")

    inline = ConfigurationRepository.from_file(
        os.path.join(tmp, "inline.yaml"), data_dir=data_dir
    )
    nested = ConfigurationRepository.from_file(
        os.path.join(tmp, "nested.yaml"), data_dir=data_dir
    )
    p_inline = inline.clusters["A"].storage.config_path
    p_nested = nested.clusters["A"].storage.config_path
    assert p_inline == data_dir, p_inline
    if p_nested != data_dir:
        print(
            "FAIL: path option of the cluster file resolved to {} instead of {}".format(
                p_nested, data_dir
            )
        )
        sys.exit(1)
finally:
    shutil.rmtree(tmp, ignore_errors=True)
