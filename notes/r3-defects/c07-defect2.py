"""
defect2 (clean HEAD): a key override is used verbatim as the storage key, so it can name a slot of
the content-addressed namespace. A result written with key_override="c/<sha256 of other bytes>"
puts bytes under a content key that do not hash to it, and a later result whose bytes do hash to
that key is "deduplicated" against them: its memento reads the wrong value.
"""
import hashlib
import pickle
import shutil
import sys
import tempfile
from pathlib import Path

import twosigma.memento as m
from twosigma.memento import Environment, ConfigurationRepository, FunctionCluster
from twosigma.memento.result import KeyOverrideResult
from twosigma.memento.storage_filesystem import FilesystemStorageBackend

VICTIM = {"answer": 42}
VICTIM_KEY = "c/" + hashlib.sha256(pickle.dumps(VICTIM, protocol=5)).hexdigest()


@m.memento_function(cluster="cluster1")
def publisher(key):
    return KeyOverrideResult(result={"answer": -1}, key_override=key)


@m.memento_function(cluster="cluster1")
def honest():
    return {"answer": 42}


def main():
    base = tempfile.mkdtemp(prefix="defect2_")
    original_env = Environment.get()
    try:
        root = Path(base) / "store"
        backend = FilesystemStorageBackend(
            path=str(root), metadata_path=str(Path(base) / "meta")
        )
        Environment.set(
            Environment(
                name="defect2",
                base_dir=base,
                repos=[
                    ConfigurationRepository(
                        name="repo1",
                        clusters={
                            "cluster1": FunctionCluster(name="cluster1", storage=backend)
                        },
                    )
                ],
            )
        )
        publisher(VICTIM_KEY)
        assert honest() == VICTIM  # computed, returned directly
        mem = honest.memento()
        # Integrity: every content link resolves to bytes that hash to the key
        for link in (root / "c").glob("*.link"):
            digest = hashlib.sha256(Path(link.read_text()).read_bytes()).hexdigest()
            assert digest == link.name[:-5], "bytes under content key {} hash to {}".format(
                link.name[:-5], digest
            )
        assert backend.read_result(mem) == VICTIM
        print("defect2 OK")
    finally:
        Environment.set(original_env)
        shutil.rmtree(base, ignore_errors=True)


if __name__ == "__main__":
    main()
    sys.exit(0)
