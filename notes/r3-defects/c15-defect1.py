"""
defect1 (borderline, UNCHANGED tree): "each distinct element's body runs at most once"
does not hold for a duplicated element whose body raises a NonMemoizedException (or a
subclass such as MementoNotFoundError, which put_metadata raises). Nothing is memoized for
it, so the second occurrence in the same batch runs the body again.
"""
import os
import shutil
import sys
import tempfile

sys.path.insert(0, os.path.dirname(os.path.abspath(__file__)))

import twosigma.memento as m  # noqa: E402
from twosigma.memento.exception import NonMemoizedException  # noqa: E402


class Counter:
    def __init__(self):
        self.dir = None

    def hit(self, x):
        n = len(os.listdir(self.dir)) + 1
        with open(os.path.join(self.dir, "{:04d}_{}".format(n, x)), "w"):
            pass

    def count(self, x):
        return len([f for f in os.listdir(self.dir) if f.endswith("_{}".format(x))])


COUNTER = Counter()


@m.memento_function(auto_dependencies=False, version="1")
def flaky(x):
    COUNTER.hit(x)
    if x % 2:
        raise NonMemoizedException("transient failure for {}".format(x))
    return x


def main():
    root = tempfile.mkdtemp(prefix="defect1")
    env_before = m.Environment.get()
    try:
        os.makedirs(os.path.join(root, "calls"))
        COUNTER.dir = os.path.join(root, "calls")
        env_file = os.path.join(root, "env.json")
        with open(env_file, "w") as f:
            f.write('{"name": "defect1"}')
        m.Environment.set(env_file)

        slots = flaky.call_batch(
            [{"x": 0}, {"x": 1}, {"x": 0}, {"x": 1}], raise_first_exception=False
        )
        assert slots[0] == 0 and slots[2] == 0
        assert isinstance(slots[1], NonMemoizedException)
        assert isinstance(slots[3], NonMemoizedException)
        assert COUNTER.count(0) == 1
        assert COUNTER.count(1) == 1, "body of x=1 ran {} times in one batch".format(
            COUNTER.count(1)
        )
    finally:
        m.Environment.set(env_before)
        shutil.rmtree(root, ignore_errors=True)
    print("defect1 OK")


if __name__ == "__main__":
    main()
