"""
UNCHANGED TREE: a merge parent that was built in memory and never serialized.
PicklePartitionStrategy.store raises IOError ("has never been serialized"), the runner logs
and swallows it, so the result is silently never memoized and never reads back: the function
body runs again on every call.
"""
import logging
import os
import shutil
import sys
import tempfile

sys.path.insert(0, os.getcwd())

import twosigma.memento as m  # noqa: E402
from twosigma.memento import (  # noqa: E402
    Environment,
    ConfigurationRepository,
    FunctionCluster,
)
from twosigma.memento.partition import InMemoryPartition  # noqa: E402
from twosigma.memento.storage_filesystem import FilesystemStorageBackend  # noqa: E402

logging.disable(logging.CRITICAL)


def dump(p):
    return {k: p.get(k) for k in p.list_keys()}


class Counter:
    def __init__(self, path):
        self.path = path

    def bump(self):
        with open(self.path, "a") as f:
            f.write("x")

    def value(self):
        return os.path.getsize(self.path) if os.path.exists(self.path) else 0


base = tempfile.mkdtemp(prefix="memento_defect3_")
os.environ["DEFECT3_COUNTER"] = base + "/calls"


@m.memento_function(cluster="c1")
def fb():
    with open(os.environ["DEFECT3_COUNTER"], "a") as f:
        f.write("x")
    parent = InMemoryPartition({"a": 1, "b": 2})
    child = InMemoryPartition({"b": 3, "c": 4})
    child._merge_parent = parent
    return child


EXPECTED = {"a": 1, "b": 3, "c": 4}
counter = Counter(base + "/calls")
original_env = m.Environment.get()
try:
    storage = FilesystemStorageBackend(path=base + "/data")
    m.Environment.set(
        Environment(
            name="demo",
            base_dir=base,
            repos=[
                ConfigurationRepository(
                    name="r",
                    clusters={"c1": FunctionCluster(name="c1", storage=storage)},
                )
            ],
        )
    )
    assert dump(fb()) == EXPECTED
    assert dump(fb()) == EXPECTED
    calls = counter.value()
    memoized = fb.memento() is not None
finally:
    m.Environment.set(original_env)
    shutil.rmtree(base, ignore_errors=True)

assert memoized, "result with a fresh in-memory parent was not memoized"
assert calls == 1, "function body ran {} times".format(calls)
print("defect3 OK")
