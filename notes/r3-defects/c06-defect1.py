"""
UNCHANGED TREE: the size estimate for a DataFrame can be negative, so a frame three times
the budget becomes resident and the usage counter goes below zero.

MemoryCache._pd_linreg_mem_usage extrapolates the deep size of a frame with more than 100
rows from a random sample of 100, split 33/67, with a straight line through the two
splits. When the few heavy rows of a skewed frame land in the small split, the slope is
negative and the extrapolation to len(obj) is far below zero (about one sample in ten for
the frame below). put() takes the number at face value.

The sample is drawn from numpy's global RNG; the script looks for a seed that shows the
effect (seed 0 does with the pinned versions) so that the run is deterministic.
"""
import datetime
import shutil
import sys
import tempfile

import twosigma.memento as m
from twosigma.memento import Memento, InvocationMetadata, memento_function
from twosigma.memento.metadata import ResultType
from twosigma.memento.reference import FunctionReferenceWithArguments
from twosigma.memento.storage_base import MemoryCache
from twosigma.memento.types import VersionedDataSourceKey


@memento_function
def f(x):
    return x


@memento_function
def g(x):
    return x


def memento_for(fn, arg) -> Memento:
    return Memento(
        time=datetime.datetime.now(datetime.timezone.utc),
        invocation_metadata=InvocationMetadata(
            runtime=datetime.timedelta(seconds=1.0),
            fn_reference_with_args=FunctionReferenceWithArguments(
                fn.fn_reference(), (arg,), {}
            ),
            result_type=ResultType.string,
            invocations=[],
            resources=[],
        ),
        function_dependencies={fn.fn_reference()},
        runner={},
        correlation_id="demo",
        content_key=VersionedDataSourceKey("key-{}".format(arg), "v"),
    )


def main():
    import numpy as np
    import pandas as pd

    budget = 1024 * 1024
    values = ["x"] * 300
    for i in range(0, 300, 10):
        values[i] = "y" * 100000
    frame = pd.DataFrame({"c": values})
    true_size = int(frame.memory_usage(deep=True).sum())
    assert true_size > 2 * budget  # about 3 MB

    seed = None
    for candidate in range(500):
        np.random.seed(candidate)
        if MemoryCache._estimate_object_size(frame) < 0:
            seed = candidate
            break
    if seed is None:
        print("no sample gives a negative estimate: nothing to show")
        return

    cache = MemoryCache(1)
    key = MemoryCache._cache_key_for_memento
    g1 = memento_for(g, 1)
    np.random.seed(seed)
    cache.put(g1, frame, has_result=True)
    print("true size", true_size, "budget", budget, "usage after put", cache.memory_usage,
          "resident", key(g1) in cache.cache)

    # With the negative entry in the books, strings worth more than the budget fit "too"
    strings = [memento_for(f, i) for i in range(4)]
    for i, mm in enumerate(strings):
        cache.put(mm, chr(97 + i) * 400000, has_result=True)
    positive = sum(e.obj_size for e in cache.cache.values() if e.obj_size > 0)
    print("usage", cache.memory_usage, "strings resident",
          sum(1 for mm in strings if key(mm) in cache.cache), "worth", positive)

    assert all(e.obj_size >= 0 for e in cache.cache.values()), "an entry is accounted a negative size"
    assert cache.memory_usage >= 0
    assert key(g1) not in cache.cache, "a 3 MB frame is resident in a 1 MB cache"
    assert positive <= budget
    print("ok")


if __name__ == "__main__":
    base = tempfile.mkdtemp(prefix="memento_defect1_")
    original = m.Environment.get()
    try:
        m.Environment.set({"name": "defect1", "base_dir": base})
        main()
    finally:
        m.Environment.set(original)
        shutil.rmtree(base, ignore_errors=True)
    sys.exit(0)
