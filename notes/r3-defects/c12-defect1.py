"""
Unchanged tree: cluster names containing '#' (or ending in ':') are accepted by the
configuration, but qualified names built with them cannot be split back into their parts, so
entries stored in such a cluster cannot be read back.
"""
import linecache
import os
import shutil
import sys
import tempfile
import textwrap
import types

import twosigma.memento as m
from twosigma.memento import FunctionReference

tmp = tempfile.mkdtemp(prefix="memento_defect1_")
CLUSTERS = ["team#1", "a:"]

SRC = """
import twosigma.memento as m

@m.memento_function(cluster={cluster!r}, version="1")
def f(x):
    return x + 1
"""

failures = []
try:
    m.Environment.set(
        {
            "name": "defect1",
            "base_dir": tmp,
            "repos": [
                {
                    "name": "r",
                    "clusters": {
                        c: {
                            "name": c,
                            "storage": {
                                "type": "filesystem",
                                "path": os.path.join(tmp, "store%d" % i),
                            },
                        }
                        for i, c in enumerate(CLUSTERS)
                    },
                }
            ],
        }
    )
    for i, cluster in enumerate(CLUSTERS):
        modname = "defect1_mod%d" % i
        mod = types.ModuleType(modname)
        mod.__file__ = os.path.join(tmp, modname + ".py")
        sys.modules[modname] = mod
        src = textwrap.dedent(SRC.format(cluster=cluster))
        with open(mod.__file__, "w") as fh:
            fh.write(src)
        linecache.checkcache(mod.__file__)
        exec(compile(src, mod.__file__, "exec"), mod.__dict__)

        qn = mod.f.fn_reference().qualified_name
        expected = {"cluster": cluster, "module": modname, "function": "f", "version": "1"}
        try:
            parts = FunctionReference.parse_qualified_name(qn)
            if parts != expected:
                failures.append("parse(%r) = %r" % (qn, parts))
        except Exception as e:
            failures.append("parse(%r) raised %r" % (qn, e))
        for what, action in (
            ("first call", lambda: mod.f(1)),
            ("second call", lambda: mod.f(1)),
            ("memento", lambda: mod.f.memento(1)),
            ("list_mementos", lambda: mod.f.list_mementos()),
            ("list_memoized_functions", lambda: m.list_memoized_functions(cluster)),
        ):
            try:
                result = action()
                if what == "list_memoized_functions":
                    if [(r.qualified_name, r.external) for r in result] != [(qn, False)]:
                        failures.append("%s in %r: %r" % (what, cluster, result))
            except Exception as e:
                failures.append("%s in cluster %r raised %r" % (what, cluster, e))
finally:
    shutil.rmtree(tmp, ignore_errors=True)

for failure in failures:
    print("DEFECT:", failure)
assert not failures
print("defect1: OK")
