"""
defect2 (unchanged tree): MemoryStorageBackend.forget_function only forgets the calls that have
a memento; custom metadata written for a call that was not (yet) memoized survives the forget,
whereas the filesystem backend drops it with the function directory.
"""
import shutil
import tempfile

from _defect_common import f
from twosigma.memento.storage_filesystem import FilesystemStorageBackend
from twosigma.memento.storage_memory import MemoryStorageBackend


def scenario(backend):
    h = f.fn_reference().with_args(1).fn_reference_with_arg_hash()
    backend.write_metadata(h, "log", b"v1")
    assert b"v1" == backend.read_metadata(h, "log")
    backend.forget_function(f.fn_reference())
    got = backend.read_metadata(h, "log")
    assert got is None, "{}: metadata {!r} survived forget_function".format(
        type(backend).__name__, got
    )


base = tempfile.mkdtemp(prefix="memento_defect2_")
try:
    scenario(FilesystemStorageBackend(path=base + "/data", metadata_path=base + "/meta"))
    scenario(MemoryStorageBackend())
finally:
    shutil.rmtree(base, ignore_errors=True)
print("defect2: ok")
