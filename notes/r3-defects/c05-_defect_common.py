import datetime
import os
import sys

sys.path.insert(0, os.path.dirname(os.path.abspath(__file__)))

import twosigma.memento as m
from twosigma.memento.metadata import ResultType, InvocationMetadata, Memento


@m.memento_function(version="1")
def f(a):
    return a


def memento_for(fn_ref_with_args):
    return Memento(
        time=datetime.datetime.now(datetime.timezone.utc),
        invocation_metadata=InvocationMetadata(
            runtime=datetime.timedelta(seconds=1.0),
            fn_reference_with_args=fn_ref_with_args,
            result_type=ResultType.string,
            invocations=[],
            resources=[],
        ),
        function_dependencies={fn_ref_with_args.fn_reference},
        runner={},
        correlation_id="defect",
        content_key=None,
    )
