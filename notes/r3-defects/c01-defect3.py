"""
defect3 (unchanged tree): when the source of a function cannot be loaded (`inspect.getsource`
raises OSError: code executed from a string, a REPL, a .pyc-only deployment, a file removed
after import), `list_dotted_names` logs at debug level and returns the empty set. The function
then has no detected dependencies at all: edits of the globals it reads and of the plain helpers
it calls never change its version, and nothing raises.
"""
import os
import sys
import tempfile
import types

import twosigma.memento as m

SOURCE = '''
import twosigma.memento as m

K = 1


def helper():
    return K * 100


@m.memento_function
def f():
    return helper() + K
'''


def main():
    with tempfile.TemporaryDirectory(prefix="defect3") as tmp:
        m.Environment.set({"name": "defect3", "base_dir": os.path.join(tmp, "env")})
        module = types.ModuleType("progd3")
        sys.modules["progd3"] = module
        exec(compile(SOURCE, "<cell 1>", "exec"), module.__dict__)  # no source file

        assert module.f() == 101
        module.K = 2  # edit of a global that f reads directly
        got = module.f()
        expected = module.f.fn()
        assert expected == 202
        assert got == expected, (
            "stale result: f() returned {} but the current program computes {}; detected "
            "dependencies of f: {}".format(got, expected, module.f.detected_dependencies)
        )
    print("defect3 ok")


if __name__ == "__main__":
    main()
