"""
A read-only memory backend is modified by reads: read_metadata() of a call that has no
metadata inserts an (empty) entry into the backend's `metadata` map, because the map is a
defaultdict that is indexed rather than queried.
"""
import sys

import twosigma.memento as m
from twosigma.memento.storage_memory import MemoryStorageBackend


@m.memento_function
def fn_defect_probe(x):
    return x


def state(storage):
    return (
        {k: dict(v) for k, v in storage.metadata.items()},
        dict(storage.result),
        {k: dict(v) for k, v in storage.mementos.items()},
    )


def main():
    storage = MemoryStorageBackend(read_only=True)
    before = state(storage)
    for x in range(3):
        ref = fn_defect_probe.fn_reference().with_args(x).fn_reference_with_arg_hash()
        assert storage.read_metadata(ref, "log") is None
    after = state(storage)
    assert before == after, "reads modified a read-only memory backend: {}".format(
        sorted(after[0])
    )
    print("defect1: ok")


if __name__ == "__main__":
    main()
    sys.exit(0)
