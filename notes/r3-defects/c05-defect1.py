"""
defect1 (unchanged tree): custom metadata written plainly and then re-written "with the data
object" (store_with_content_key) reads back the OLD value on the filesystem backend.
"""
import shutil
import tempfile

from _defect_common import f, memento_for
from twosigma.memento.storage_filesystem import FilesystemStorageBackend
from twosigma.memento.storage_memory import MemoryStorageBackend


def scenario(backend):
    call = f.fn_reference().with_args(1)
    h = call.fn_reference_with_arg_hash()
    mem = memento_for(call)
    backend.memoize(None, mem, "x")
    backend.write_metadata(h, "k", b"v1")
    assert b"v1" == backend.read_metadata(h, "k")
    backend.write_metadata(h, "k", b"v2", store_with_content_key=mem.content_key)
    got = backend.read_metadata(h, "k")
    assert b"v2" == got, "{}: read {!r} after writing b'v2'".format(
        type(backend).__name__, got
    )


base = tempfile.mkdtemp(prefix="memento_defect1_")
try:
    scenario(MemoryStorageBackend())
    scenario(FilesystemStorageBackend(path=base + "/data", metadata_path=base + "/meta"))
finally:
    shutil.rmtree(base, ignore_errors=True)
print("defect1: ok")
