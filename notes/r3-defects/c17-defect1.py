"""
UNCHANGED TREE: a stored-form partition (read back from disk) that declares a merge parent
does not behave as the parent's entries overlaid by its own.
"""
import logging
import os
import shutil
import sys
import tempfile

sys.path.insert(0, os.getcwd())

import twosigma.memento as m  # noqa: E402
from twosigma.memento import (  # noqa: E402
    Environment,
    ConfigurationRepository,
    FunctionCluster,
)
from twosigma.memento.partition import InMemoryPartition  # noqa: E402
from twosigma.memento.storage_filesystem import FilesystemStorageBackend  # noqa: E402

logging.disable(logging.CRITICAL)


def dump(p):
    return {k: p.get(k) for k in p.list_keys()}


@m.memento_function(cluster="c1")
def fa():
    return InMemoryPartition({"a": 1, "b": 2})


@m.memento_function(cluster="c1")
def fb():
    child = InMemoryPartition({"b": 3, "c": 4})
    child._merge_parent = fa()
    return child


@m.memento_function(cluster="c1")
def fq():
    return InMemoryPartition({"z": 26})


@m.memento_function(cluster="c1")
def fc():
    b = fb()  # stored form (PicklePartition): keys a (inherited), b, c
    b._merge_parent = fq()
    return b


EXPECTED = {"a": 1, "b": 3, "c": 4, "z": 26}

base = tempfile.mkdtemp(prefix="memento_defect1_")
original_env = m.Environment.get()
failures = []
try:
    storage = FilesystemStorageBackend(path=base + "/data")
    m.Environment.set(
        Environment(
            name="demo",
            base_dir=base,
            repos=[
                ConfigurationRepository(
                    name="r",
                    clusters={"c1": FunctionCluster(name="c1", storage=storage)},
                )
            ],
        )
    )
    fb()
    fq()
    first = dump(fc())
    if first != EXPECTED:
        failures.append(("as computed", first))
    second = dump(fc())
    if second != EXPECTED:
        failures.append(("read back", second))
finally:
    m.Environment.set(original_env)
    shutil.rmtree(base, ignore_errors=True)

assert not failures, failures
print("defect1 OK")
