"""
defect1 (fails on the UNCHANGED tree): a memento function that has its own
context args attached and is handed to another memento function as an argument
loses those context args. Argument normalisation (ArgumentHasher._encode /
_decode in reference.py) round-trips a function through its FunctionReference,
which carries partial args but not the function's InvocationContext, so the
callee receives a plain copy of the function. The nested call therefore does
not "attach its own" context args any more: it inherits the caller's instead,
and its result is stored under the wrong identity.
"""
import os
import shutil
import sys
import tempfile

import twosigma.memento as m
from twosigma.memento import Environment, ConfigurationRepository, FunctionCluster
from twosigma.memento.runner_local import LocalRunnerBackend
from twosigma.memento.storage_filesystem import FilesystemStorageBackend

base = tempfile.mkdtemp(prefix="memento_defect1_")
COUNT_DIR = os.path.join(base, "counts")
os.makedirs(COUNT_DIR)


def _bump(name):
    with open(os.path.join(COUNT_DIR, name), "a") as f:
        f.write("x")


def _count(name):
    p = os.path.join(COUNT_DIR, name)
    return os.path.getsize(p) if os.path.exists(p) else 0


@m.memento_function(cluster="demo")
def leaf(x):
    _bump("leaf")
    return x * 10


@m.memento_function(cluster="demo")
def apply(fn, x):
    return fn(x)


def main():
    original_env = Environment.get()
    Environment.set(
        Environment(
            name="defect1",
            base_dir=base,
            repos=[
                ConfigurationRepository(
                    name="repo1",
                    clusters={
                        "demo": FunctionCluster(
                            name="demo",
                            storage=FilesystemStorageBackend(
                                path=os.path.join(base, "data")
                            ),
                            runner=LocalRunnerBackend(),
                        )
                    },
                )
            ],
        )
    )
    try:
        ctx_a = {"tenant": "A"}
        ctx_b = {"tenant": "B"}
        leaf_b = leaf.with_context_args(ctx_b)

        # The edge apply -> leaf carries its own context args (B); they must replace
        # the ones apply was called with (A).
        assert apply.with_context_args(ctx_a)(leaf_b, 1) == 10
        assert _count("leaf") == 1

        under_a = leaf.with_context_args(dict(ctx_a)).memento(1)
        under_b = leaf.with_context_args(dict(ctx_b)).memento(1)
        assert under_b is not None and under_a is None, (
            "leaf(1) was called through leaf.with_context_args({}) but is stored under "
            "{}".format(
                ctx_b,
                under_a.invocation_metadata.fn_reference_with_args.context_args
                if under_a
                else None,
            )
        )
    finally:
        Environment.set(original_env)
        shutil.rmtree(base, ignore_errors=True)
    print("defect1 OK")


if __name__ == "__main__":
    main()
    sys.exit(0)
