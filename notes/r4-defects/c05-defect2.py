"""
UNCHANGED tree, shared metadata path (the default): a key override under 'm/' puts the data object
into the metadata tree, where list_functions takes it for a function directory.
'c/' is rejected as a key override (reserved for content-addressed objects), 'm/' is not.
With a separate metadata path the same sequence is fine.
"""

import datetime
import shutil
import sys
import tempfile

import twosigma.memento as m
from twosigma.memento.metadata import InvocationMetadata, Memento, ResultType
from twosigma.memento.storage_filesystem import FilesystemStorageBackend


@m.memento_function
def fn_a(x):
    return x


def make_memento(fn_ref_with_args, value):
    return Memento(
        time=datetime.datetime.now(datetime.timezone.utc),
        invocation_metadata=InvocationMetadata(
            runtime=datetime.timedelta(seconds=1.0),
            fn_reference_with_args=fn_ref_with_args,
            result_type=ResultType.from_object(value),
            invocations=[],
            resources=[],
        ),
        function_dependencies={fn_ref_with_args.fn_reference},
        runner={},
        correlation_id="defect2",
        content_key=None,
    )


def scenario(backend, label):
    ref = fn_a.fn_reference().with_args(1)
    backend.memoize("m/out", make_memento(ref, "v"), "v")
    try:
        listed = [f.qualified_name for f in backend.list_functions()]
    except Exception as e:
        return ["{}: list_functions raises {!r}".format(label, e)]
    if listed != [fn_a.fn_reference().qualified_name]:
        return ["{}: list_functions() = {}".format(label, listed)]
    return []


def main():
    base = tempfile.mkdtemp(prefix="memento_defect2_")
    problems = []
    try:
        problems += scenario(
            FilesystemStorageBackend(
                path=base + "/data", metadata_path=base + "/meta"
            ),
            "separate metadata path",
        )
        problems += scenario(
            FilesystemStorageBackend(path=base + "/shared"), "shared path"
        )
    finally:
        shutil.rmtree(base, ignore_errors=True)
    for p in problems:
        print("VIOLATION:", p)
    if problems:
        sys.exit(1)
    print("ok")


if __name__ == "__main__":
    main()
