"""
UNCHANGED tree: custom metadata keys are not independent dictionary keys on the filesystem backend.
The metadata source stores key K either as '<hash>.metadata.K' or, when the value lives beside the
data object, as the marker '<hash>.metadata.K.with_data'. A metadata key that itself ends in
'.with_data' therefore shares its file with the marker of another key:
 - writing key 'log' deletes the value of key 'log.with_data' ("superseded" form of 'log');
 - after writing only 'log.with_data', reading 'log' does not answer None: it takes the file for
   the marker and goes looking for metadata beside the data object (IOError).
The memory backend answers like a dictionary in both cases.
"""

import datetime
import shutil
import sys
import tempfile

import twosigma.memento as m
from twosigma.memento.metadata import InvocationMetadata, Memento, ResultType
from twosigma.memento.storage_filesystem import FilesystemStorageBackend
from twosigma.memento.storage_memory import MemoryStorageBackend


@m.memento_function
def fn_a(x):
    return x


def make_memento(fn_ref_with_args, value):
    return Memento(
        time=datetime.datetime.now(datetime.timezone.utc),
        invocation_metadata=InvocationMetadata(
            runtime=datetime.timedelta(seconds=1.0),
            fn_reference_with_args=fn_ref_with_args,
            result_type=ResultType.from_object(value),
            invocations=[],
            resources=[],
        ),
        function_dependencies={fn_ref_with_args.fn_reference},
        runner={},
        correlation_id="defect1",
        content_key=None,
    )


def scenario(backend, label):
    problems = []
    ref_1 = fn_a.fn_reference().with_args(1)
    ref_2 = fn_a.fn_reference().with_args(2)
    call_1 = ref_1.fn_reference_with_arg_hash()
    call_2 = ref_2.fn_reference_with_arg_hash()
    backend.memoize(None, make_memento(ref_1, "one"), "one")
    backend.memoize(None, make_memento(ref_2, "two"), "two")

    # (a) a write to one key erases another key
    backend.write_metadata(call_1, "log.with_data", b"A")
    backend.write_metadata(call_1, "log", b"B")
    got = backend.read_metadata(call_1, "log.with_data")
    if got != b"A":
        problems.append(
            "{}: key 'log.with_data' reads {!r} after key 'log' was written, expected b'A'".format(
                label, got
            )
        )
    if backend.read_metadata(call_1, "log") != b"B":
        problems.append("{}: key 'log' not read back".format(label))

    # (b) reading a key that was never written
    backend.write_metadata(call_2, "log.with_data", b"A")
    try:
        got = backend.read_metadata(call_2, "log")
        if got is not None:
            problems.append(
                "{}: key 'log' was never written but reads {!r}".format(label, got)
            )
    except Exception as e:
        problems.append(
            "{}: reading the never written key 'log' raises {!r}".format(label, e)
        )
    return problems


def main():
    base = tempfile.mkdtemp(prefix="memento_defect1_")
    problems = []
    try:
        problems += scenario(MemoryStorageBackend(), "memory")
        problems += scenario(
            FilesystemStorageBackend(path=base + "/plain"), "filesystem"
        )
    finally:
        shutil.rmtree(base, ignore_errors=True)
    for p in problems:
        print("VIOLATION:", p)
    if problems:
        sys.exit(1)
    print("ok")


if __name__ == "__main__":
    main()
