"""
Unchanged tree: a partition whose merge parent was produced by a function of ANOTHER cluster
(another filesystem store) is written with an index that points at the parent's blobs, but the
blobs stay in the parent's store (_FilesystemDataSource.reference is a no-op and nothing is
copied). Read back from its own store, the parent-only keys are listed but cannot be loaded.
"""
import logging
import shutil
import tempfile

import twosigma.memento as m
from twosigma.memento import Environment, ConfigurationRepository, FunctionCluster
from twosigma.memento.partition import InMemoryPartition
from twosigma.memento.storage_filesystem import FilesystemStorageBackend

logging.disable(logging.CRITICAL)

base = tempfile.mkdtemp(prefix="memento_defect1_")
m.Environment.set(
    Environment(
        name="demo",
        base_dir=base,
        repos=[
            ConfigurationRepository(
                name="repo",
                clusters={
                    "A": FunctionCluster(
                        name="A", storage=FilesystemStorageBackend(path=base + "/A")
                    ),
                    "B": FunctionCluster(
                        name="B", storage=FilesystemStorageBackend(path=base + "/B")
                    ),
                },
            )
        ],
    )
)


@m.memento_function(cluster="A")
def parent_in_a():
    return InMemoryPartition({"a": 1, "b": 2})


@m.memento_function(cluster="B")
def child_in_b():
    child = InMemoryPartition({"b": 3, "c": 4})
    child._merge_parent = parent_in_a()
    return child


try:
    expected = {"a": 1, "b": 3, "c": 4}
    first = child_in_b()
    assert {k: first.get(k) for k in first.list_keys()} == expected
    second = child_in_b()  # read back from store B
    assert sorted(second.list_keys()) == sorted(expected)
    got = {k: second.get(k) for k in second.list_keys()}  # FileNotFoundError for "a"
    assert got == expected, got
    print("OK")
finally:
    shutil.rmtree(base, ignore_errors=True)
