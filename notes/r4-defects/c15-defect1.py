"""
map_over_range returns a dict keyed by the raw parameter values. Values that Python considers
equal (1, 1.0, True) are distinct invocations for memento but one dict key, so the entry for 1
holds the result of the LAST of them; a range of unhashable values (lists) is evaluated and then
fails with TypeError although each individual call works.
"""
import logging
import os
import shutil
import tempfile

import twosigma.memento as m

logging.disable(logging.CRITICAL)
ROOT = tempfile.mkdtemp(prefix="defect1_")


@m.memento_function
def describe(x):
    return "{}:{!r}".format(type(x).__name__, x)


def main():
    env_file = os.path.join(ROOT, "env.json")
    with open(env_file, "w") as f:
        f.write('{"name": "defect1"}')
    m.Environment.set(env_file)

    assert describe(1) == "int:1" and describe(1.0) == "float:1.0"
    result = describe.map_over_range(x=[1, 2, 1.0])
    # element-wise: the value for parameter 1 is describe(1)
    assert result[1] == describe(1), "result[1] is {!r}, describe(1) is {!r}".format(
        result[1], describe(1)
    )

    assert describe([1]) == "list:[1]"
    result = describe.map_over_range(x=[[1], [2]])  # TypeError: unhashable type: 'list'
    print("ok")


if __name__ == "__main__":
    try:
        main()
    finally:
        shutil.rmtree(ROOT, ignore_errors=True)
