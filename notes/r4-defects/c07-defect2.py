"""
UNCHANGED TREE: with memory_cache_mb set, StorageBackend.read_result(memento) is served from a
cache keyed by function + argument hash, not by memento.content_key. A memento obtained before the
call was forgotten and recomputed reads the NEW value, not the bytes stored when it was created.
"""
import os
import pathlib
import shutil
import sys
import tempfile

import twosigma.memento as m
from twosigma.memento import Environment, ConfigurationRepository, FunctionCluster
from twosigma.memento.storage_filesystem import FilesystemStorageBackend

base = tempfile.mkdtemp(prefix="defect2_")
m.Environment.set(
    Environment(
        name="defect2",
        base_dir=base,
        repos=[
            ConfigurationRepository(
                name="r",
                clusters={
                    "defect2": FunctionCluster(
                        name="defect2",
                        storage=FilesystemStorageBackend(
                            path=os.path.join(base, "data"),
                            metadata_path=os.path.join(base, "meta"),
                            memory_cache_mb=10,
                        ),
                    )
                },
            )
        ],
    )
)
source = pathlib.Path(base) / "source.txt"
source.write_text("v1")


@m.memento_function(cluster="defect2")
def load(x):
    return [x, source.read_text()]


try:
    backend = m.Environment.get().get_cluster("defect2").storage
    load(1)
    mem1 = load.memento(1)
    assert backend.read_result(mem1) == [1, "v1"]

    load.forget(1)
    source.write_text("v2")
    load(1)
    mem2 = load.memento(1)
    assert mem1.content_key != mem2.content_key
    assert backend.read_result(mem2) == [1, "v2"]
    # the object under mem1.content_key is intact on disk ...
    # noinspection PyProtectedMember
    assert backend.codec.load(
        mem1.invocation_metadata.result_type, backend._data_source, mem1.content_key
    ) == [1, "v1"]
    # ... but this is not what the memento reads
    got = backend.read_result(mem1)
    assert got == [1, "v1"], "old memento reads {!r}".format(got)
finally:
    shutil.rmtree(base, ignore_errors=True)
print("ok")
sys.exit(0)
