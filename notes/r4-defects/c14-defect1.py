"""
Defect on the UNCHANGED tree: a plain helper of the same package that is wrapped by a
functools.wraps decorator defined in ANOTHER module of the package hides the memento
functions it calls.
"""
import importlib
import os
import shutil
import sys
import tempfile
import textwrap

sys.path.insert(0, os.getcwd())

from twosigma.memento import Environment  # noqa: E402


def write(path, text):
    os.makedirs(os.path.dirname(path), exist_ok=True)
    with open(path, "w") as f:
        f.write(textwrap.dedent(text))


work = tempfile.mkdtemp(prefix="defect1_")
try:
    write(os.path.join(work, "dfpkg", "__init__.py"), "")
    write(
        os.path.join(work, "dfpkg", "deco.py"),
        '''
        import functools


        def logged(fn):
            @functools.wraps(fn)
            def wrapper(*args, **kwargs):
                return fn(*args, **kwargs)

            return wrapper
        ''',
    )
    write(
        os.path.join(work, "dfpkg", "core.py"),
        '''
        from twosigma.memento import memento_function
        from dfpkg.deco import logged


        @memento_function
        def leaf():
            return 1


        @logged
        def helper():
            return leaf()


        @memento_function
        def root():
            return helper()
        ''',
    )
    sys.path.insert(0, work)
    Environment.set({"name": "defect1", "base_dir": os.path.join(work, "env")})
    core = importlib.import_module("dfpkg.core")

    # root -> helper (plain, same package, decorator-wrapped) -> leaf, all by bare name
    deps = core.root.dependencies().transitive_memento_fn_dependencies()
    assert deps == {core.leaf}, ("transitive dependencies of root", deps)
    assert core.root() == 1
    print("ok")
finally:
    shutil.rmtree(work, ignore_errors=True)
