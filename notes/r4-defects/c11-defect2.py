"""
A function reference that is marked external (it denotes a function served by another
process) loses that mark in the codec whenever a function with the same qualified name and
version also happens to be importable locally: the wire format has no field for it and the
decoder resolves the name locally first. FunctionReference.__eq__ includes `external`, so the
decoded reference (and a memento's function_dependencies set) is not equal to the original.
"""
import json

from twosigma.memento import memento_function
from twosigma.memento.reference import FunctionReference
from twosigma.memento.serialization import MementoCodec


@memento_function
def local_twin(x, y=None):
    return 1


def main():
    original = FunctionReference.from_qualified_name(
        local_twin.fn_reference().qualified_name,
        external=True,
        parameter_names=["x", "y"],
    )
    assert original.external
    text = json.dumps(MementoCodec.encode_fn_reference(original))
    decoded = MementoCodec.decode_fn_reference(json.loads(text))
    assert decoded.external == original.external, "external flag lost in the codec"
    assert decoded == original
    print("defect2: OK")


if __name__ == "__main__":
    main()
