"""
UNCHANGED TREE: the guard that reserves "c/" for content-addressed objects only looks at the
first path component of a key override. "./c/<sha>" (also "x/../c/<sha>") passes the guard and
resolves to the same files, so arbitrary bytes can be planted under a content key; a later result
that hashes to that key is deduplicated against the planted object.
"""
import hashlib
import os
import pickle
import shutil
import sys
import tempfile

import twosigma.memento as m
from twosigma.memento import Environment, ConfigurationRepository, FunctionCluster
from twosigma.memento.result import KeyOverrideResult
from twosigma.memento.storage_filesystem import FilesystemStorageBackend

base = tempfile.mkdtemp(prefix="defect3_")
store = os.path.join(base, "data")
m.Environment.set(
    Environment(
        name="defect3",
        base_dir=base,
        repos=[
            ConfigurationRepository(
                name="r",
                clusters={
                    "defect3": FunctionCluster(
                        name="defect3",
                        storage=FilesystemStorageBackend(
                            path=store, metadata_path=os.path.join(base, "meta")
                        ),
                    )
                },
            )
        ],
    )
)

TARGET = hashlib.sha256(pickle.dumps([1, "hello"], protocol=5)).hexdigest()


@m.memento_function(cluster="defect3")
def publish():
    return KeyOverrideResult(result="something else", key_override="./c/" + TARGET)


@m.memento_function(cluster="defect3")
def honest():
    return [1, "hello"]


try:
    backend = m.Environment.get().get_cluster("defect3").storage
    try:
        publish()
    except ValueError:
        pass  # rejecting the key would be fine
    honest()
    mem = honest.memento()
    # noinspection PyProtectedMember
    with backend._data_source.input_versioned(mem.content_key) as f:
        data = f.read()
    assert mem.content_key.key == "c/" + hashlib.sha256(data).hexdigest(), (
        "bytes under {} do not hash to the key".format(mem.content_key.key)
    )
    assert backend.read_result(mem) == [1, "hello"]
finally:
    shutil.rmtree(base, ignore_errors=True)
print("ok")
sys.exit(0)
