"""
UNCHANGED TREE: with the default layout (metadata stored under the same root as the data),
forget_everything() removes the whole store root, data objects included.

Scenario: forget_cluster() runs while another call is between "data object written" and "memento
written" (forced here by hooking put_memento). The call is memoized after the forget, so it has
not been forgotten, yet the bytes under its content key are gone.
"""
import os
import shutil
import sys
import tempfile

import twosigma.memento as m
from twosigma.memento import Environment, ConfigurationRepository, FunctionCluster
from twosigma.memento.storage_filesystem import FilesystemStorageBackend

base = tempfile.mkdtemp(prefix="defect1_")
m.Environment.set(
    Environment(
        name="defect1",
        base_dir=base,
        repos=[
            ConfigurationRepository(
                name="r",
                clusters={
                    "defect1": FunctionCluster(
                        name="defect1",
                        # default layout: no separate metadata_path
                        storage=FilesystemStorageBackend(path=os.path.join(base, "store")),
                    )
                },
            )
        ],
    )
)


@m.memento_function(cluster="defect1")
def f(x):
    return [x, "payload"]


@m.memento_function(cluster="defect1")
def g(x):
    return [x, "other payload"]


try:
    backend = m.Environment.get().get_cluster("defect1").storage
    f(1)
    # noinspection PyProtectedMember
    metadata_source = backend._metadata_source
    real_put = metadata_source.put_memento

    def put_memento(memento):
        metadata_source.put_memento = real_put
        m.forget_cluster("defect1")  # "another thread" forgets everything right now
        return real_put(memento)

    metadata_source.put_memento = put_memento
    g(1)
    mem = g.memento(1)
    assert mem is not None, "g(1) was memoized after the forget"
    # noinspection PyProtectedMember
    assert backend._data_source.exists_versioned(mem.content_key), (
        "forget_everything deleted the data object {} of a call that is still memoized".format(
            mem.content_key
        )
    )
    assert backend.read_result(mem) == [1, "other payload"]
finally:
    shutil.rmtree(base, ignore_errors=True)
print("ok")
sys.exit(0)
