"""
UNCHANGED tree: with the in-memory write-through cache enabled (memory_cache_mb) - or with the
"memory" storage backend - mementos are kept as live objects whose function references were
resolved when they were created. After the callee is edited in the same process, the cached memento
of the pinned caller still reports the vanished callee version as a local (external=False)
reference, while the un-cached listing of the same store reports it as external.
"""
import importlib
import json
import os
import shutil
import sys
import tempfile
import textwrap

ROOT = os.path.dirname(os.path.abspath(__file__))
sys.path.insert(0, ROOT)
tmp = tempfile.mkdtemp(prefix="defect1_")
sys.path.insert(0, tmp)

import twosigma.memento as m  # noqa: E402
from twosigma.memento import Environment, MementoFunction  # noqa: E402

MODULE = "defect1_evolving"
STORAGE = (
    {"type": "memory"}
    if sys.argv[1:] == ["memory"]
    else {"type": "filesystem", "path": os.path.join(tmp, "cl"), "memory_cache_mb": 8}
)


def load(src):
    with open(os.path.join(tmp, MODULE + ".py"), "w") as f:
        f.write(textwrap.dedent(src))
    importlib.invalidate_caches()
    sys.modules.pop(MODULE, None)
    mod = importlib.import_module(MODULE)
    MementoFunction.increment_global_fn_generation()
    return mod


SRC = '''
    from twosigma.memento import memento_function

    @memento_function(cluster="cl")
    def callee(x):
        return x + 1

    @memento_function(cluster="cl", version="1")
    def caller(x):
        return callee(x) * 2
'''

try:
    env_file = os.path.join(tmp, "env.json")
    with open(env_file, "w") as f:
        json.dump(
            {
                "name": "defect1",
                "base_dir": tmp,
                "repos": [
                    {
                        "name": "r",
                        "clusters": {"cl": {"name": "cl", "storage": STORAGE}},
                    }
                ],
            },
            f,
        )
    Environment.set(env_file)

    mod = load(SRC)
    assert mod.caller(1) == 4
    old_callee = mod.callee.fn_reference().qualified_name

    mod = load(SRC.replace("x + 1", "x + 100"))
    assert mod.callee.fn_reference().qualified_name != old_callee

    listed = {r.qualified_name: r for r in m.list_memoized_functions("cl")}
    assert listed[old_callee].external  # the listing knows that this version is gone

    memento = mod.caller.memento(1)
    assert memento is not None
    (invocation,) = memento.invocation_metadata.invocations
    assert invocation.fn_reference.qualified_name == old_callee
    assert invocation.fn_reference.external, (
        "{} does not exist any more but the memento read back reports it as a local "
        "reference".format(old_callee)
    )
    print("defect1: ok")
finally:
    shutil.rmtree(tmp, ignore_errors=True)
