"""
UNCHANGED tree: a module variable that holds an object memento cannot hash (so no hash rule is
produced for it) leaves no sentinel behind. Re-binding that variable to something that a
from-scratch computation does put into the version (a number, a plain function, an already
registered memento function) goes unnoticed: the cached version is returned.
"""
import os
import shutil
import sys
import tempfile

tmp = tempfile.mkdtemp(prefix="memento_defect1_")
os.environ.pop("MEMENTO_ENV", None)
os.environ["HOME"] = tmp  # no user-level default environment
sys.path.insert(0, os.path.dirname(os.path.abspath(__file__)))

from twosigma.memento import memento_function, MementoFunction  # noqa: E402


class Opaque:
    """Not a function and not serializable by MementoCodec: no hash rule applies"""


def plain_helper():
    return 7


@memento_function
def registered():
    return 8


setting = Opaque()


@memento_function
def reader():
    return setting


def from_scratch(fn):
    """What a cold computation yields for the current program"""
    MementoFunction.increment_global_fn_generation(reason="demo: force recompute")
    return fn.version()


failures = []
try:
    for label, new_value in (
        ("a number", 5),
        ("a plain function", plain_helper),
        ("a registered memento function", registered),
    ):
        setting = Opaque()
        from_scratch(reader)  # start from a coherent state
        reader.version()
        setting = new_value
        got = reader.version()
        expected = from_scratch(reader)
        if got != expected:
            failures.append(
                "setting re-bound from an opaque object to {}: version() gave {}, "
                "a from-scratch computation gives {}".format(label, got, expected)
            )
    for failure in failures:
        print(failure)
    assert not failures
    print("ok")
finally:
    shutil.rmtree(tmp, ignore_errors=True)
