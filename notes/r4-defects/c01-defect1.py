"""
defect1 (unchanged tree): a module-level variable is edited from a tuple to a list with the same
elements, between two processes sharing one store. The global-variable hash rule serializes
both to the same JSON, so the version of f does not move and the stale result is returned.
"""
import json
import os
import subprocess
import sys
import tempfile
import textwrap

ROOT = os.path.dirname(os.path.abspath(__file__))

EDITION_1 = """
from twosigma.memento import memento_function

G = (1, 2)


@memento_function
def f():
    return type(G).__name__
"""

EDITION_2 = """
from twosigma.memento import memento_function

G = [1, 2]


@memento_function
def f():
    return type(G).__name__
"""


def run_edition(store_dir: str, src: str, expr: str):
    """Write the program, import it in a fresh process against the store, evaluate expr"""
    pkg = os.path.join(store_dir, "defectpkg")
    os.makedirs(pkg, exist_ok=True)
    open(os.path.join(pkg, "__init__.py"), "w").close()
    with open(os.path.join(pkg, "mod.py"), "w") as fh:
        fh.write(src)
    env_file = os.path.join(store_dir, "env.json")
    if not os.path.exists(env_file):
        with open(env_file, "w") as fh:
            fh.write('{"name": "defect"}')
    driver = textwrap.dedent(
        """
        import sys, json
        sys.dont_write_bytecode = True
        sys.path.insert(0, {root!r})
        sys.path.insert(0, {store!r})
        from twosigma.memento import Environment
        Environment.set({env!r})
        import defectpkg.mod as mod
        try:
            out = {expr}
        except Exception as e:
            out = "EXC:" + type(e).__name__
        print("RESULT " + json.dumps(out))
        """
    ).format(root=ROOT, store=store_dir, env=env_file, expr=expr)
    proc = subprocess.run(
        [sys.executable, "-c", driver], capture_output=True, text=True, timeout=50
    )
    for line in proc.stdout.splitlines():
        if line.startswith("RESULT "):
            return json.loads(line[len("RESULT ") :])
    raise RuntimeError("driver failed:\n" + proc.stdout + proc.stderr)


def main():
    with tempfile.TemporaryDirectory(prefix="defect1_") as store:
        first = run_edition(store, EDITION_1, "mod.f()")
        expected = run_edition(store, EDITION_2, "mod.f.fn()")
        memoized = run_edition(store, EDITION_2, "mod.f()")
    print("edition 1:", first, " edition 2 plain:", expected, " memoized:", memoized)
    assert memoized == expected or memoized == "EXC:UndeclaredDependencyError", (
        "stale result: memoized call returned {} but the current program computes {}".format(
            memoized, expected
        )
    )
    print("OK")


if __name__ == "__main__":
    main()
