"""C05 defect 1 (unchanged tree): a custom metadata key that ends in ".memento.json" is taken for a memento by list_mementos of the filesystem backend."""
import datetime
import shutil
import sys
import tempfile

import twosigma.memento as m
from twosigma.memento.metadata import InvocationMetadata, Memento, ResultType
from twosigma.memento.storage_filesystem import FilesystemStorageBackend
from twosigma.memento.storage_memory import MemoryStorageBackend


@m.memento_function
def fn_a(a):
    return a


def make_memento(fn_ref_with_args, result):
    return Memento(
        time=datetime.datetime.now(datetime.timezone.utc),
        invocation_metadata=InvocationMetadata(
            runtime=datetime.timedelta(seconds=1.0),
            fn_reference_with_args=fn_ref_with_args,
            result_type=ResultType.from_object(result),
            invocations=[],
            resources=[],
        ),
        function_dependencies={fn_ref_with_args.fn_reference},
        runner={},
        correlation_id="defect",
        content_key=None,
    )


def backends(base):
    yield "memory", MemoryStorageBackend()
    yield "filesystem", FilesystemStorageBackend(path=base + "/one")
    yield "filesystem with cache", FilesystemStorageBackend(
        path=base + "/two", memory_cache_mb=1
    )


def run(scenario):
    base = tempfile.mkdtemp(prefix="c05_defect_")
    failures = []
    try:
        for label, backend in backends(base):
            try:
                scenario(label, backend, failures)
            except Exception as e:  # noqa
                failures.append("{}: raised {}: {}".format(label, type(e).__name__, e))
    finally:
        shutil.rmtree(base, ignore_errors=True)
    for f in failures:
        print("FAIL:", f)
    sys.exit(1 if failures else 0)


def scenario(label, backend, failures):
    a1 = fn_a.fn_reference().with_args(1)
    a2 = fn_a.fn_reference().with_args(2)
    backend.memoize(None, make_memento(a1, "r1"), "r1")
    backend.memoize(None, make_memento(a2, "r2"), "r2")
    backend.write_metadata(a1.fn_reference_with_arg_hash(), "x.memento.json", b"not json")
    got = backend.read_metadata(a1.fn_reference_with_arg_hash(), "x.memento.json")
    if got != b"not json":
        failures.append("{}: metadata reads {!r}".format(label, got))
    listed = backend.list_mementos(fn_a.fn_reference())
    if len(listed) != 2:
        failures.append("{}: {} mementos listed, expected 2".format(label, len(listed)))


if __name__ == "__main__":
    run(scenario)
