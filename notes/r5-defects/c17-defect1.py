"""
Defect on the UNCHANGED tree (C17): a partition that was read back from the store (stored form,
carrying a key it inherited from its own parent) is given a new merge parent and returned.
Expected by the overlay law: parent's entries overlaid by ALL of the partition's entries.
Observed: the inherited key is dropped from the stored result, and the returned object ignores
the declared parent altogether, so returned and read-back key sets differ as well.
"""
import shutil
import sys
import tempfile

import twosigma.memento as m
from twosigma.memento import Environment, ConfigurationRepository, FunctionCluster
from twosigma.memento.partition import InMemoryPartition
from twosigma.memento.storage_filesystem import FilesystemStorageBackend


@m.memento_function(cluster="c17defect1")
def pa():
    return InMemoryPartition({"a": 1, "b": 2})


@m.memento_function(cluster="c17defect1")
def pb():
    p = InMemoryPartition({"b": 3, "c": 4})
    p._merge_parent = pa()
    return p


@m.memento_function(cluster="c17defect1")
def pq():
    return InMemoryPartition({"q": 9, "c": 10})


@m.memento_function(cluster="c17defect1")
def pc():
    p = pb()  # read back from the store: {a: 1 (inherited), b: 3, c: 4}
    p._merge_parent = pq()
    return p


EXPECTED = {"a": 1, "b": 3, "c": 4, "q": 9}


def main():
    base = tempfile.mkdtemp(prefix="c17defect1_")
    original_env = m.Environment.get()
    try:
        backend = FilesystemStorageBackend(path=base + "/data")
        m.Environment.set(
            Environment(
                name="c17defect1",
                base_dir=base,
                repos=[
                    ConfigurationRepository(
                        name="r",
                        clusters={
                            "c17defect1": FunctionCluster(
                                name="c17defect1", storage=backend
                            )
                        },
                    )
                ],
            )
        )
        pa()
        pb()
        pq()
        assert sorted(pb().list_keys()) == ["a", "b", "c"]
        returned = pc()
        stored = pc()  # no memory cache: read back from the store
        problems = []
        if sorted(stored.list_keys()) != sorted(EXPECTED):
            problems.append(
                "read back keys {} != {}".format(
                    sorted(stored.list_keys()), sorted(EXPECTED)
                )
            )
        if sorted(returned.list_keys()) != sorted(EXPECTED):
            problems.append(
                "returned keys {} != {}".format(
                    sorted(returned.list_keys()), sorted(EXPECTED)
                )
            )
        for k, v in EXPECTED.items():
            if k in stored.list_keys() and stored.get(k) != v:
                problems.append("read back {} -> {!r}".format(k, stored.get(k)))
        assert not problems, "; ".join(problems)
    finally:
        m.Environment.set(original_env)
        shutil.rmtree(base, ignore_errors=True)


if __name__ == "__main__":
    main()
    print("ok")
    sys.exit(0)
