"""
Defect on the UNCHANGED tree (thread interleaving): `MementoFunction._update_dependencies`
publishes the new `_calculated_version` first and only afterwards builds the new
`_fn_reference` (which, through `version()`, recomputes the whole rule set a second time, so
the window is wide). A second thread that calls the function inside that window recomputes the
same version, finds `self._calculated_version == version`, concludes that the reference is
current, and uses the *previous* `_fn_reference`: its call is looked up under the storage key
of the old edition and returns the stale memoized result.

The edit (re-binding a module variable) is complete before either thread calls the function.
The interleaving is forced with events; no sleeps.

Exits 0 if the property holds, non-zero (assertion) otherwise.
"""
import importlib
import os
import shutil
import sys
import tempfile
import textwrap
import threading

ROOT = os.path.dirname(os.path.abspath(__file__))
sys.path.insert(0, ROOT)

import twosigma.memento as m  # noqa: E402
from twosigma.memento.memento import MementoFunction  # noqa: E402

PROG = textwrap.dedent(
    '''
    import twosigma.memento as m

    X = 1


    @m.memento_function
    def f():
        return X
    '''
)


def main():
    tmp = tempfile.mkdtemp(prefix="c01_defect3_")
    env_before = m.Environment.get()
    original = MementoFunction._update_fn_reference
    try:
        env_file = os.path.join(tmp, "env.json")
        with open(env_file, "w") as f:
            f.write('{"name": "c01_defect3"}')
        m.Environment.set(env_file)
        code_dir = os.path.join(tmp, "code")
        os.mkdir(code_dir)
        sys.path.insert(0, code_dir)
        with open(os.path.join(code_dir, "c01_defect3_prog.py"), "w") as f:
            f.write(PROG)
        prog = importlib.import_module("c01_defect3_prog")
        assert prog.f() == 1

        # The edit
        prog.X = 2

        in_window = threading.Event()
        release = threading.Event()
        first = threading.Lock()
        claimed = []

        def paused_update_fn_reference(self):
            with first:
                mine = not claimed
                claimed.append(1)
            if mine:
                # the new version has been published, the new reference has not been built
                in_window.set()
                assert release.wait(30)
            return original(self)

        MementoFunction._update_fn_reference = paused_update_fn_reference

        results = {}

        def worker():
            results["t1"] = prog.f()

        t1 = threading.Thread(target=worker)
        t1.start()
        assert in_window.wait(30)
        try:
            results["t2"] = prog.f()
        finally:
            release.set()
            t1.join(30)
        assert results == {"t1": 2, "t2": 2}, (
            "after X was re-bound to 2, concurrent calls returned {}".format(results)
        )
        print("OK")
    finally:
        MementoFunction._update_fn_reference = original
        m.Environment.set(env_before)
        shutil.rmtree(tmp, ignore_errors=True)


if __name__ == "__main__":
    main()
