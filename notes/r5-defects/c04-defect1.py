"""
C04 defect on the UNCHANGED tree: the normalized partial arguments stored on a function reference
are handed to the function body by reference (effective_kwargs aliases
FunctionReference.partial_args / partial_kwargs, no copy). A body that modifies a list or dict
argument in place therefore rewrites what the partial binds: after the first call the key of
`fn.partial(value)()` is no longer the key of `fn(value)`, later calls of the same partial bind a
different value, and the memento written for the first call records arguments its key was not
computed from.
"""
import os
import shutil
import sys
import tempfile

import twosigma.memento as m
from twosigma.memento import memento_function


@memento_function
def drain(items):
    """Consumes its (private, normalized) copy of the argument"""
    total = 0
    while items:
        total += items.pop()
    return total


@memento_function
def tag(options):
    options["seen"] = True  # scribbles on its own copy
    return sorted(options)


def main():
    failures = []

    # -- direct call: the body works on a copy, the caller's list is untouched, the key is stable
    mine = [1, 2, 3]
    assert drain(mine) == 6
    assert mine == [1, 2, 3]
    key_direct = drain.fn_reference().with_args([1, 2, 3]).arg_hash
    recorded = drain.memento([1, 2, 3]).invocation_metadata.fn_reference_with_args
    if recorded.arg_hash != key_direct:
        failures.append(
            "direct call: the memento stored under the key of drain([1,2,3]) records arguments "
            "{!r}, whose key is different (drain.list() shows them too)".format(
                recorded.effective_kwargs
            )
        )

    # -- the same value bound by partial application (forget, so that the body runs again)
    drain.forget([1, 2, 3])
    bound = drain.partial([1, 2, 3])
    key_before = bound.fn_reference().with_args().arg_hash
    if key_before != key_direct:
        failures.append("partial([1,2,3])() and drain([1,2,3]) differ before any call")
    if bound() != 6:
        failures.append("bound() returned a wrong value")
    key_after = bound.fn_reference().with_args().arg_hash
    if key_after != key_direct:
        failures.append(
            "after one call, partial([1,2,3]) binds {!r}: its key is no longer the key of "
            "drain([1,2,3])".format(bound.fn_reference().partial_args)
        )
    r = bound()
    if r != 6:
        failures.append("second bound() returned {!r} instead of the memoized 6".format(r))

    # -- the stored memento must describe the arguments its key was computed from
    mem = drain.memento([1, 2, 3])
    if mem is not None:
        recorded = mem.invocation_metadata.fn_reference_with_args
        if recorded.arg_hash != key_direct:
            failures.append(
                "memento stored under the key of drain([1,2,3]) records arguments {!r} whose "
                "key is different".format(recorded.effective_kwargs)
            )

    # -- same with a keyword partial and a dict
    key_direct = tag.fn_reference().with_args({"a": 1}).arg_hash
    bound_kw = tag.partial(options={"a": 1})
    if bound_kw() != ["a", "seen"]:
        failures.append("bound_kw() returned a wrong value")
    if bound_kw.fn_reference().with_args().arg_hash != key_direct:
        failures.append(
            "after one call, partial(options={{'a': 1}}) binds {!r}".format(
                bound_kw.fn_reference().partial_kwargs
            )
        )

    for f in failures:
        print("FAIL:", f)
    return 1 if failures else 0


if __name__ == "__main__":
    tmp = tempfile.mkdtemp(prefix="c04defect1")
    env_file = os.path.join(tmp, "env.json")
    with open(env_file, "w") as f:
        f.write('{"name": "demo"}')
    try:
        m.Environment.set(env_file)
        rc = main()
    finally:
        shutil.rmtree(tmp, ignore_errors=True)
    print("OK" if rc == 0 else "BROKEN")
    sys.exit(rc)
