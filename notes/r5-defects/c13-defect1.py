"""
C13 defect 1 (unchanged tree): two dotted names that miss an attribute of the same name on
two different objects (`left.scale`, `right.scale`) collapse into one undefined-symbol rule;
defining the attribute on the object whose rule was dropped goes unnoticed.

Exit code 0 if the property holds, non-zero otherwise.
"""
import itertools
import os
import shutil
import subprocess
import sys
import tempfile
import textwrap
import types

ROOT = os.path.dirname(os.path.abspath(__file__))
sys.path.insert(0, ROOT)

MOD = "c13_demo_mod"


def make_module():
    mod = types.ModuleType(MOD)
    mod.__package__ = ""
    sys.modules[MOD] = mod
    return mod


_counter = itertools.count()


def run_chunk(mod, tmp, src):
    """Execute source in the module from a real file, so that inspect.getsource works"""
    path = os.path.join(tmp, "chunk_{}_{}.py".format(os.getpid(), next(_counter)))
    with open(path, "w") as f:
        f.write(textwrap.dedent(src))
    with open(path) as f:
        exec(compile(f.read(), path, "exec"), mod.__dict__)


def set_env(tmp):
    from twosigma.memento import Environment

    Environment.set({"name": "c13demo", "base_dir": tmp})


def fresh_version(tmp, final_src, fn_name):
    """Version of `fn_name` as computed by a new process that only sees the final program"""
    src_path = os.path.join(tmp, "final_program.py")
    with open(src_path, "w") as f:
        f.write(textwrap.dedent(final_src))
    out = subprocess.run(
        [sys.executable, os.path.abspath(__file__), "--fresh", tmp, src_path, fn_name],
        check=True,
        stdout=subprocess.PIPE,
        cwd=ROOT,
    ).stdout.decode()
    return out.strip().splitlines()[-1]


def fresh_main(tmp, src_path, fn_name):
    set_env(tmp)
    mod = make_module()
    with open(src_path) as f:
        exec(compile(f.read(), src_path, "exec"), mod.__dict__)
    print(getattr(mod, fn_name).version())


def main():
    tmp = tempfile.mkdtemp(prefix="c13defect1")
    try:
        set_env(tmp)
        mod = make_module()

        prog = """
            from twosigma.memento import memento_function

            class Left:
                pass

            class Right:
                pass

            def plain_scale():
                return 7
            {late}
            @memento_function
            def combine():
                return Left.scale() + Right.scale()
            """
        run_chunk(mod, tmp, prog.format(late=""))
        before = mod.combine.version()
        print([r.describe() for r in mod.combine._hash_rules])
        stale = []
        for cls in ("Left", "Right"):
            # define the previously undefined symbol on one of the classes
            setattr(getattr(mod, cls), "scale", staticmethod(mod.plain_scale))
            observed = mod.combine.version()
            expected = fresh_version(
                tmp,
                prog.format(
                    late="\n            {}.scale = staticmethod(plain_scale)\n".format(cls)
                ),
                "combine",
            )
            print(cls, "before", before, "observed", observed, "fresh", expected)
            if observed != expected:
                stale.append(cls)
            delattr(getattr(mod, cls), "scale")
            assert mod.combine.version() == before
        assert not stale, "defining {}.scale went unnoticed".format(stale)
    finally:
        shutil.rmtree(tmp, ignore_errors=True)


if __name__ == "__main__":
    if len(sys.argv) > 1 and sys.argv[1] == "--fresh":
        fresh_main(sys.argv[2], sys.argv[3], sys.argv[4])
    else:
        main()
        print("OK")
