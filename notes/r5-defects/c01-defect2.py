"""
Defect on the UNCHANGED tree: `_recompute_version` feeds the rule hashes into the digest one
after the other with no separator and without the rule keys. The hash of a dependency that has
an explicit version is that version string verbatim, so the digest cannot tell where one ends
and the next begins: dependencies versioned ("1", "23") and ("12", "3") give the caller the
same automatic version. Editing both dependencies at once (new bodies, new explicit version
strings) leaves the automatically versioned caller with its old storage key, and it returns
the result computed by the previous edition.

Exits 0 if the property holds, non-zero (assertion) otherwise.
"""
import importlib
import os
import shutil
import sys
import tempfile
import textwrap

ROOT = os.path.dirname(os.path.abspath(__file__))
sys.path.insert(0, ROOT)

import twosigma.memento as m  # noqa: E402

PROG_V1 = textwrap.dedent(
    '''
    import twosigma.memento as m


    @m.memento_function(version="1")
    def g():
        return 1


    @m.memento_function(version="23")
    def h():
        return 2


    @m.memento_function
    def f():
        return g() * 10 + h()
    '''
)
PROG_V2 = (
    PROG_V1.replace('version="1"', 'version="12"')
    .replace('version="23"', 'version="3"')
    .replace("return 1", "return 5")
    .replace("return 2", "return 7")
)


def main():
    tmp = tempfile.mkdtemp(prefix="c01_defect2_")
    env_before = m.Environment.get()
    try:
        env_file = os.path.join(tmp, "env.json")
        with open(env_file, "w") as f:
            f.write('{"name": "c01_defect2"}')
        m.Environment.set(env_file)
        code_dir = os.path.join(tmp, "code")
        os.mkdir(code_dir)
        sys.path.insert(0, code_dir)
        path = os.path.join(code_dir, "c01_defect2_prog.py")
        with open(path, "w") as f:
            f.write(PROG_V1)
        prog = importlib.import_module("c01_defect2_prog")
        assert prog.f() == 12
        v1 = prog.f.version()

        with open(path, "w") as f:
            f.write(PROG_V2)
        importlib.invalidate_caches()
        prog = importlib.reload(prog)
        # both dependencies carry a new explicit version, so nothing of theirs is memoized
        assert prog.g() == 5 and prog.h() == 7
        v2 = prog.f.version()
        got = prog.f()
        assert got == 57, "f() returned {} (edition 1 gave 12, edition 2 gives 57); version {} -> {}".format(
            got, v1, v2
        )
        print("OK")
    finally:
        m.Environment.set(env_before)
        shutil.rmtree(tmp, ignore_errors=True)


if __name__ == "__main__":
    main()
