"""
C10 defect on the UNCHANGED tree: the reference recorded for a sub-call that was found
memoized is the reference stored in the *memento found*, not the reference of the call
the body made. Two spellings of the same call (same function version, same effective
arguments, same argument hash) that differ in their partial binding - add.partial(y=5)(1)
versus add(1, y=5) - therefore yield different provenance records depending on what was
memoized before the run: invocations[i].fn_reference / .args / .kwargs differ and
function_dependencies holds a different element (FunctionReference.__eq__ compares the
partial arguments).

Exit 0 if the records are identical, non-zero otherwise (fails at clean HEAD).
"""
import os
import shutil
import tempfile

import twosigma.memento as m
from twosigma.memento import Environment, ConfigurationRepository, FunctionCluster
from twosigma.memento.runner_local import LocalRunnerBackend
from twosigma.memento.storage_filesystem import FilesystemStorageBackend

BASE = tempfile.mkdtemp(prefix="c10_defect1_")
_count = [0]


def fresh_env():
    _count[0] += 1
    path = os.path.join(BASE, "env{}".format(_count[0]))
    m.Environment.set(
        Environment(
            name="defect1_{}".format(_count[0]),
            base_dir=path,
            repos=[
                ConfigurationRepository(
                    name="repo",
                    clusters={
                        "c10": FunctionCluster(
                            name="c10",
                            storage=FilesystemStorageBackend(path=path + "/data"),
                            runner=LocalRunnerBackend(),
                        )
                    },
                )
            ],
        )
    )


@m.memento_function(cluster="c10")
def add(x, y):
    return x + y


add_5 = add.partial(y=5)


@m.memento_function(cluster="c10")
def parent(x):
    return add_5(x)


def record(memento):
    inv = [
        (
            i.fn_reference.qualified_name,
            i.arg_hash,
            i.fn_reference.partial_args,
            tuple(sorted((i.fn_reference.partial_kwargs or {}).items())),
            i.args,
            tuple(sorted(i.kwargs.items())),
        )
        for i in memento.invocation_metadata.invocations
    ]
    deps = sorted(
        (
            d.qualified_name,
            d.partial_args,
            tuple(sorted((d.partial_kwargs or {}).items())),
        )
        for d in memento.function_dependencies
    )
    return inv, deps


def main():
    # Run 1: nothing memoized beforehand
    fresh_env()
    assert parent(1) == 6
    computed = record(parent.memento(1))
    called_ref = add_5.fn_reference()
    assert called_ref in parent.memento(1).function_dependencies

    # Run 2: the very same sub-call (same version, same argument hash) is in the store, but it
    # got there through the unbound spelling add(1, y=5)
    fresh_env()
    assert add(1, y=5) == 6
    assert (
        add.fn_reference().with_args(1, y=5).arg_hash
        == add_5.fn_reference().with_args(1).arg_hash
    )
    assert parent(1) == 6
    cached = record(parent.memento(1))

    print("sub-call computed :", computed)
    print("sub-call memoized :", cached)
    assert computed[0] == cached[0], "invocations differ"
    assert computed[1] == cached[1], "function_dependencies differ"
    assert called_ref in parent.memento(1).function_dependencies
    print("OK")


if __name__ == "__main__":
    try:
        main()
    finally:
        shutil.rmtree(BASE, ignore_errors=True)
