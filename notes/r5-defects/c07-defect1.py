"""
C07 defect candidate on the UNCHANGED tree: the de-duplication in Codec.BlobStrategy.store is a
check (exists_nonversioned) followed by an act (output) with nothing in between that makes the
pair atomic. Two threads that memoize results with identical bytes at the same time both find
the content key absent and both write it: two objects are stored under one content key, and the
two mementos carry different content keys for the same bytes.
"""
import os
import shutil
import sys
import tempfile
import threading

import twosigma.memento as m
from twosigma.memento import Environment, ConfigurationRepository, FunctionCluster
from twosigma.memento.storage_filesystem import (
    FilesystemStorageBackend,
    _FilesystemDataSource,
)


@m.memento_function(cluster="c07defect1")
def left(x):
    return {"payload": list(range(100))}


@m.memento_function(cluster="c07defect1")
def right(x):
    return {"payload": list(range(100))}


def main():
    base = tempfile.mkdtemp(prefix="c07defect1_")
    original_env = Environment.get()
    original_exists = _FilesystemDataSource.exists_nonversioned
    try:
        root = os.path.join(base, "data")
        backend = FilesystemStorageBackend(path=root)
        Environment.set(
            Environment(
                name="c07defect1",
                base_dir=base,
                repos=[
                    ConfigurationRepository(
                        name="repo1",
                        clusters={
                            "c07defect1": FunctionCluster(
                                name="c07defect1", storage=backend
                            )
                        },
                    )
                ],
            )
        )

        # Both writers look the content key up before either of them writes it
        barrier = threading.Barrier(2, timeout=30)
        seen = set()

        def exists_then_meet(self, key):
            result = original_exists(self, key)
            name = threading.current_thread().name
            if key.key.startswith("c/") and name in ("left", "right") and name not in seen:
                seen.add(name)
                barrier.wait()
            return result

        _FilesystemDataSource.exists_nonversioned = exists_then_meet
        threads = [
            threading.Thread(target=left, args=(1,), name="left"),
            threading.Thread(target=right, args=(1,), name="right"),
        ]
        for t in threads:
            t.start()
        for t in threads:
            t.join(60)
        _FilesystemDataSource.exists_nonversioned = original_exists
        assert seen == {"left", "right"}

        mem_left, mem_right = left.memento(1), right.memento(1)
        assert mem_left.content_key.key == mem_right.content_key.key
        name = mem_left.content_key.key[2:]
        versions_dir = os.path.join(root, "c", ".versions")
        objects = [
            v for v in os.listdir(versions_dir)
            if os.path.isfile(os.path.join(versions_dir, v, name))
        ]
        assert len(objects) == 1, (
            "identical bytes are stored {} times under c/{}".format(len(objects), name)
        )
        assert mem_left.content_key == mem_right.content_key
        print("OK")
    finally:
        _FilesystemDataSource.exists_nonversioned = original_exists
        Environment.set(original_env)
        shutil.rmtree(base, ignore_errors=True)


if __name__ == "__main__":
    main()
    sys.exit(0)
