"""
C14 defect on the UNCHANGED tree: a memento function with an explicit version has no outgoing
edges in any dependency graph, and reports no dependencies of its own.

`_update_dependencies` returns early for an explicit version, so `hash_rules()` of such a
function is always empty. `DependencyGraph.generate_graph` builds the edges of every node
from that node's own `hash_rules()`. For

    top() [automatic] -> pinned() [version="1"] -> leaf() [automatic]

`top.dependencies().transitive_memento_fn_dependencies()` is {pinned, leaf} (the collection
from `top` does descend through `pinned`), but `top.dependencies().df()` only has the edge
top -> pinned: `leaf` is in the closure and unreachable in the graph. `pinned.dependencies()`
itself reports an empty closure although its body names `leaf`.

Exits 0 if graph and closure agree, non-zero otherwise.
"""
import importlib
import os
import shutil
import sys
import tempfile
import textwrap

from twosigma.memento import Environment

SOURCE = '''
from twosigma.memento import memento_function


@memento_function
def leaf():
    return 1


@memento_function(version="1")
def pinned():
    return leaf() + 1


@memento_function
def top():
    return pinned() + 1
'''


def main():
    tmp = tempfile.mkdtemp(prefix="c14defect2")
    env_before = Environment.get()
    try:
        pkg = os.path.join(tmp, "c14defect2pkg")
        os.makedirs(pkg)
        with open(os.path.join(pkg, "__init__.py"), "w") as f:
            f.write("")
        with open(os.path.join(pkg, "m.py"), "w") as f:
            f.write(textwrap.dedent(SOURCE))
        env_file = os.path.join(tmp, "env.json")
        with open(env_file, "w") as f:
            f.write('{"name": "c14defect2"}')
        Environment.set(env_file)
        sys.path.insert(0, tmp)
        m = importlib.import_module("c14defect2pkg.m")

        top, pinned, leaf = (
            fn.qualified_name_without_version for fn in (m.top, m.pinned, m.leaf)
        )
        failures = []

        def check(what, actual, expected):
            if actual != expected:
                failures.append("{}: expected {}, got {}".format(what, expected, actual))

        deps = m.top.dependencies()
        check(
            "top transitive",
            sorted(
                fn.qualified_name_without_version
                for fn in deps.transitive_memento_fn_dependencies()
            ),
            sorted([pinned, leaf]),
        )
        df = deps.df()
        check(
            "top graph edges",
            sorted(zip(df.src.values, df.target.values)),
            sorted([(top, pinned), (pinned, leaf)]),
        )
        deps = m.pinned.dependencies()
        check(
            "pinned transitive",
            sorted(
                fn.qualified_name_without_version
                for fn in deps.transitive_memento_fn_dependencies()
            ),
            [leaf],
        )
        check(
            "pinned direct",
            sorted(
                fn.qualified_name_without_version
                for fn in deps.direct_memento_fn_dependencies()
            ),
            [leaf],
        )

        for failure in failures:
            print("FAIL", failure)
        return 1 if failures else 0
    finally:
        Environment.set(env_before)
        shutil.rmtree(tmp, ignore_errors=True)


if __name__ == "__main__":
    sys.exit(main())
