"""C05 defect 4 (unchanged tree, needs two threads): a look-up that overlaps a forget_call puts the
forgotten memento back into the memory cache, so the forgotten call is memoized again."""
import datetime
import shutil
import sys
import tempfile
import threading

import twosigma.memento as m
from twosigma.memento.metadata import InvocationMetadata, Memento, ResultType
from twosigma.memento.storage_filesystem import FilesystemStorageBackend


@m.memento_function
def fn_a(a):
    return a


def make_memento(fn_ref_with_args, result):
    return Memento(
        time=datetime.datetime.now(datetime.timezone.utc),
        invocation_metadata=InvocationMetadata(
            runtime=datetime.timedelta(seconds=1.0),
            fn_reference_with_args=fn_ref_with_args,
            result_type=ResultType.from_object(result),
            invocations=[],
            resources=[],
        ),
        function_dependencies={fn_ref_with_args.fn_reference},
        runner={},
        correlation_id="defect4",
        content_key=None,
    )


def main():
    base = tempfile.mkdtemp(prefix="c05_defect4_")
    try:
        backend = FilesystemStorageBackend(path=base + "/data", memory_cache_mb=1)
        a1 = fn_a.fn_reference().with_args(1)
        h1 = a1.fn_reference_with_arg_hash()
        backend.memoize(None, make_memento(a1, "r"), "r")
        # another process / an eviction: the entry is on disk only
        backend._memory_cache.forget_everything()

        have_read = threading.Event()
        forgotten = threading.Event()
        source = backend._metadata_source
        original = source.get_mementos

        def paused_get_mementos(fns):
            result = original(fns)
            if threading.current_thread().name == "reader":
                have_read.set()
                assert forgotten.wait(30)
            return result

        source.get_mementos = paused_get_mementos
        reader = threading.Thread(
            name="reader", target=lambda: backend.get_mementos([h1])
        )
        reader.start()
        assert have_read.wait(30)
        backend.forget_call(h1)  # completes while the reader is between disk and cache
        forgotten.set()
        reader.join(30)
        source.get_mementos = original

        failures = []
        if backend.is_memoized(a1.fn_reference, a1.arg_hash):
            failures.append("is_memoized is True after forget_call returned")
        if backend.get_memento(h1) is not None:
            failures.append("get_memento returns the forgotten memento")
        if backend.list_mementos(fn_a.fn_reference()):
            failures.append("list_mementos is not empty")
    finally:
        shutil.rmtree(base, ignore_errors=True)
    for f in failures:
        print("FAIL:", f)
    return 1 if failures else 0


if __name__ == "__main__":
    sys.exit(main())
