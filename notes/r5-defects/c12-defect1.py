"""
C12 defect on the UNCHANGED tree: with the in-memory write-through cache enabled
(`memory_cache_mb`) on a filesystem store, `memento()` keeps serving the Memento object that
was created when the result was memoized. After the callee has been edited, the references
inside it to the callee version that no longer exists are still reported as local
(external=False), while list_mementos() / list_memoized_functions() on the very same store
(and memento() on a store without the cache) report them as external.

Exits 0 if the property holds, non-zero otherwise (fails at clean HEAD).
"""
import importlib
import os
import shutil
import sys
import tempfile
import textwrap

sys.dont_write_bytecode = True

import twosigma.memento as m  # noqa: E402
from twosigma.memento import Environment  # noqa: E402

work = tempfile.mkdtemp(prefix="c12defect1")
sys.path.insert(0, work)
failures = []


def check(cond, msg):
    if not cond:
        failures.append(msg)
        print("FAIL:", msg)


def load(mod_name, src):
    with open(os.path.join(work, mod_name + ".py"), "w") as f:
        f.write(textwrap.dedent(src))
    importlib.invalidate_caches()
    sys.modules.pop(mod_name, None)
    return importlib.import_module(mod_name)


SRC = """
from twosigma.memento import memento_function

@memento_function(cluster={cl!r})
def callee(a):
    return a * 100 + {k}

@memento_function(cluster={cl!r}, version="1")
def caller(x):
    return callee(x) + 1
"""

try:
    env_dir = os.path.join(work, "env")
    os.makedirs(env_dir)
    clusters = {
        "plain": {"type": "filesystem", "path": os.path.join(work, "plain")},
        "cached": {
            "type": "filesystem",
            "path": os.path.join(work, "cached"),
            "memory_cache_mb": 16,
        },
    }
    Environment.set(
        {
            "name": "c12defect1",
            "base_dir": env_dir,
            "repos": [
                {
                    "name": "r",
                    "clusters": {
                        k: {"name": k, "storage": v} for k, v in clusters.items()
                    },
                }
            ],
        }
    )
    for cl in clusters:
        mod = load("c12defect1_" + cl, SRC.format(cl=cl, k=0))
        assert mod.caller(4) == 401
        old_callee = mod.callee.fn_reference().qualified_name
        # callee edited: its old version does not exist in the code base any more
        mod = load("c12defect1_" + cl, SRC.format(cl=cl, k=9))
        assert mod.callee.fn_reference().qualified_name != old_callee

        memento = mod.caller.memento(4)
        deps = {r.qualified_name: r.external for r in memento.function_dependencies}
        invs = {
            i.fn_reference.qualified_name: i.fn_reference.external
            for i in memento.invocation_metadata.invocations
        }
        check(deps.get(old_callee) is True, "{}: memento() dependency {}".format(cl, deps))
        check(invs.get(old_callee) is True, "{}: memento() invocation {}".format(cl, invs))
        for lm in mod.caller.list_mementos():
            deps = {r.qualified_name: r.external for r in lm.function_dependencies}
            check(
                deps.get(old_callee) is True,
                "{}: list_mementos() dependency {}".format(cl, deps),
            )
        fns = {r.qualified_name: r.external for r in m.list_memoized_functions(cl)}
        check(fns.get(old_callee) is True, "{}: list_memoized_functions {}".format(cl, fns))
finally:
    shutil.rmtree(work, ignore_errors=True)

if failures:
    print("{} failure(s)".format(len(failures)))
    sys.exit(1)
print("OK")
