"""
Unchanged-tree finding for C16: the context args enter the argument hash as a pseudo keyword
argument named `_memento_context_args`, in the same namespace as the real parameters. A
function that has a parameter of that name therefore loses the separation the property
promises: the context args overwrite the parameter in the hashed kwargs (calls with different
values for it under the same context args share one stored result), and a context-free call
f(d) shares its stored result with f() under context args d.
"""
import os
import shutil
import sys
import tempfile

import twosigma.memento as m
from twosigma.memento import Environment, ConfigurationRepository, FunctionCluster
from twosigma.memento.runner_local import LocalRunnerBackend
from twosigma.memento.storage_filesystem import FilesystemStorageBackend

base = tempfile.mkdtemp(prefix="c16_defect1_")


@m.memento_function(cluster="c16", version="1")
def f(_memento_context_args=None):
    return "body saw {!r}".format(_memento_context_args)


def main():
    original = Environment.get()
    Environment.set(
        Environment(
            name="c16defect1",
            base_dir=base,
            repos=[
                ConfigurationRepository(
                    name="repo",
                    clusters={
                        "c16": FunctionCluster(
                            name="c16",
                            storage=FilesystemStorageBackend(
                                path=os.path.join(base, "data")
                            ),
                            runner=LocalRunnerBackend(),
                        )
                    },
                )
            ],
        )
    )
    try:
        ctx = {"b": 2}
        under_ctx = f.with_context_args(ctx)

        # Two different calls under the same context args ...
        assert under_ctx({"a": 1}) == "body saw {'a': 1}"
        r = under_ctx({"z": 9})
        assert r == "body saw {'z': 9}", "f({'z': 9}) under ctx was served: " + r

        # ... and a context-free call whose argument equals the context args of another call
        r = f({"b": 2})
        assert r == "body saw {'b': 2}", "f({'b': 2}) without ctx was served: " + r
        r = under_ctx()
        assert r == "body saw None", "f() under ctx was served: " + r
    finally:
        Environment.set(original)
        shutil.rmtree(base, ignore_errors=True)


if __name__ == "__main__":
    main()
    print("defect1: ok")
    sys.exit(0)
