"""C05 defect 3 (unchanged tree): list_mementos(fn, limit=0) returns nothing on the memory backend and everything on the filesystem backend."""
import datetime
import shutil
import sys
import tempfile

import twosigma.memento as m
from twosigma.memento.metadata import InvocationMetadata, Memento, ResultType
from twosigma.memento.storage_filesystem import FilesystemStorageBackend
from twosigma.memento.storage_memory import MemoryStorageBackend


@m.memento_function
def fn_a(a):
    return a


def make_memento(fn_ref_with_args, result):
    return Memento(
        time=datetime.datetime.now(datetime.timezone.utc),
        invocation_metadata=InvocationMetadata(
            runtime=datetime.timedelta(seconds=1.0),
            fn_reference_with_args=fn_ref_with_args,
            result_type=ResultType.from_object(result),
            invocations=[],
            resources=[],
        ),
        function_dependencies={fn_ref_with_args.fn_reference},
        runner={},
        correlation_id="defect",
        content_key=None,
    )


def backends(base):
    yield "memory", MemoryStorageBackend()
    yield "filesystem", FilesystemStorageBackend(path=base + "/one")
    yield "filesystem with cache", FilesystemStorageBackend(
        path=base + "/two", memory_cache_mb=1
    )


def run(scenario):
    base = tempfile.mkdtemp(prefix="c05_defect_")
    failures = []
    try:
        for label, backend in backends(base):
            try:
                scenario(label, backend, failures)
            except Exception as e:  # noqa
                failures.append("{}: raised {}: {}".format(label, type(e).__name__, e))
    finally:
        shutil.rmtree(base, ignore_errors=True)
    for f in failures:
        print("FAIL:", f)
    sys.exit(1 if failures else 0)


def scenario(label, backend, failures):
    for i in range(3):
        call = fn_a.fn_reference().with_args(i)
        backend.memoize(None, make_memento(call, "r"), "r")
    for limit, expected in ((None, 3), (2, 2), (1, 1), (0, 0)):
        got = len(backend.list_mementos(fn_a.fn_reference(), limit=limit))
        if got != expected:
            failures.append(
                "{}: limit={} lists {} mementos, expected {}".format(label, limit, got, expected)
            )


if __name__ == "__main__":
    run(scenario)
