"""
Defect on the UNCHANGED tree: modifier clones (force_local / partial / ignore_result / ...) of an
automatically versioned memento function are built with the version frozen as an *explicit*
version. Two consequences, both violating the never-stale property:

 (A) a clone that is kept across an edit keeps returning the result of the old edition;
 (B) when a call is made through a clone, the clone is the "caller" on the call stack, it has
     an explicit version, and so `_validate_dependency` skips the undeclared-dependency check
     for every call its body makes. A hidden dynamic call therefore goes through silently and
     later edits to the hidden callee are never seen.

Exits 0 if the property holds, non-zero (assertion) otherwise.
"""
import importlib
import os
import shutil
import sys
import tempfile
import textwrap

ROOT = os.path.dirname(os.path.abspath(__file__))
sys.path.insert(0, ROOT)

import twosigma.memento as m  # noqa: E402
from twosigma.memento.exception import UndeclaredDependencyError  # noqa: E402

PROG_V1 = textwrap.dedent(
    '''
    import twosigma.memento as m

    SCALE = 2


    @m.memento_function
    def scaled(x):
        return x * SCALE


    @m.memento_function
    def leaf(x):
        return x + 1


    @m.memento_function
    def hidden(x):
        # dynamic call: `leaf` is not in the static closure of `hidden`
        return globals()["le" + "af"](x)
    '''
)
PROG_V2 = PROG_V1.replace("return x + 1", "return x + 100")


def is_undeclared(e: BaseException) -> bool:
    return isinstance(e, UndeclaredDependencyError) or "UndeclaredDependency" in repr(e)


def main():
    tmp = tempfile.mkdtemp(prefix="c01_defect1_")
    env_before = m.Environment.get()
    try:
        env_file = os.path.join(tmp, "env.json")
        with open(env_file, "w") as f:
            f.write('{"name": "c01_defect1"}')
        m.Environment.set(env_file)
        code_dir = os.path.join(tmp, "code")
        os.mkdir(code_dir)
        sys.path.insert(0, code_dir)
        path = os.path.join(code_dir, "c01_defect1_prog.py")
        with open(path, "w") as f:
            f.write(PROG_V1)
        prog = importlib.import_module("c01_defect1_prog")

        failures = []

        # (A) a clone held across an edit of a global variable
        local_scaled = prog.scaled.force_local()
        assert local_scaled(3) == 6
        prog.SCALE = 5
        assert prog.scaled(3) == 15, "the function itself notices the edit"
        got = local_scaled(3)
        if got != 15:
            failures.append(
                "(A) clone made before the edit returned {} instead of 15".format(got)
            )
        prog.SCALE = 2

        # (B) hidden dynamic call made through a clone is not refused ...
        try:
            first = prog.hidden.force_local()(1)
        except Exception as e:  # noqa
            assert is_undeclared(e), repr(e)
            first = "undeclared"
        # ... so after `leaf` is edited, the memoized result of `hidden` is stale
        with open(path, "w") as f:
            f.write(PROG_V2)
        importlib.invalidate_caches()
        prog = importlib.reload(prog)
        try:
            second = prog.hidden.force_local()(1)
        except Exception as e:  # noqa
            assert is_undeclared(e), repr(e)
            second = "undeclared"
        if second not in (101, "undeclared"):
            failures.append(
                "(B) hidden(1) through a clone: first {!r}, after editing leaf {!r}; "
                "expected 101 or UndeclaredDependencyError".format(first, second)
            )

        assert not failures, "\n".join(failures)
        print("OK")
    finally:
        m.Environment.set(env_before)
        shutil.rmtree(tmp, ignore_errors=True)


if __name__ == "__main__":
    main()
