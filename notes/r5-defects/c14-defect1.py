"""
C14 defect on the UNCHANGED tree: the undeclared-dependency check is skipped when the calling
function was invoked through any modifier (`partial`, `ignore_result`, `force_local`, ...).

`clone_with` builds the modified function with `version=self.version()`, so the clone has an
*explicit* version; the stack frame of the running caller refers to that clone, and
`_validate_dependency` returns early for a caller with an explicit version. `f` below has an
automatic version and calls `hidden` (not in its static closure, not passed as an argument):
`f(1)` is refused, but `f.partial(x=2)()`, `f.ignore_result(False).call(3)` and
`f.force_local().call(4)` all return a result.

Exits 0 if every form is refused with UndeclaredDependencyError, non-zero otherwise.
"""
import importlib
import os
import shutil
import sys
import tempfile
import textwrap

from twosigma.memento import Environment
from twosigma.memento.exception import UndeclaredDependencyError

SOURCE = '''
from twosigma.memento import memento_function


@memento_function
def hidden():
    return 1


@memento_function
def f(x):
    return globals()["hid" + "den"]() + x
'''


def main():
    tmp = tempfile.mkdtemp(prefix="c14defect1")
    env_before = Environment.get()
    try:
        pkg = os.path.join(tmp, "c14defect1pkg")
        os.makedirs(pkg)
        with open(os.path.join(pkg, "__init__.py"), "w") as f:
            f.write("")
        with open(os.path.join(pkg, "m.py"), "w") as f:
            f.write(textwrap.dedent(SOURCE))
        env_file = os.path.join(tmp, "env.json")
        with open(env_file, "w") as f:
            f.write('{"name": "c14defect1"}')
        Environment.set(env_file)
        sys.path.insert(0, tmp)
        m = importlib.import_module("c14defect1pkg.m")

        assert m.f.explicit_version is None
        assert set() == m.f.dependencies().transitive_memento_fn_dependencies()

        failures = []
        for what, call in (
            ("f(1)", lambda: m.f(1)),
            ("f.partial(x=2)()", lambda: m.f.partial(x=2)()),
            ("f.ignore_result(False).call(3)", lambda: m.f.ignore_result(False).call(3)),
            ("f.force_local().call(4)", lambda: m.f.force_local().call(4)),
        ):
            try:
                result = call()
                failures.append("{} returned {} instead of being refused".format(what, result))
            except UndeclaredDependencyError:
                pass

        for failure in failures:
            print("FAIL", failure)
        return 1 if failures else 0
    finally:
        Environment.set(env_before)
        shutil.rmtree(tmp, ignore_errors=True)


if __name__ == "__main__":
    sys.exit(main())
