"""
Defect on the UNCHANGED tree (C15): map_over_range keys its result by the raw parameter values.
Values that compare equal in Python but are different Memento arguments (1 / True / 1.0, ...)
collapse onto one key, which keeps the FIRST value as key and the LAST value's result, so the
entry for 1 holds what f(1.0) returned.
"""
import os
import shutil
import sys
import tempfile

import twosigma.memento as m

work = tempfile.mkdtemp(prefix="c15defect1")
env_file = os.path.join(work, "env.json")
with open(env_file, "w") as fh:
    fh.write('{"name": "defect1", "base_dir": "%s"}' % work.replace("\\", "/"))
m.Environment.set(env_file)


@m.memento_function
def describe(x):
    return "%s:%r" % (type(x).__name__, x)


failures = []
try:
    values = [1, True, 1.0]
    individually = [describe(v) for v in values]  # ['int:1', 'bool:True', 'float:1.0']
    assert len(set(individually)) == 3
    mapped = describe.map_over_range(x=values)
    for value, expected in zip(values, individually):
        # look the element up the way a caller would, by the value it passed in
        got = mapped.get(value)
        if got != expected:
            failures.append(
                "map_over_range(x=%r)[%r] is %r, describe(%r) is %r (result: %r)"
                % (values, value, got, value, expected, mapped)
            )
finally:
    shutil.rmtree(work, ignore_errors=True)

if failures:
    print("FAIL")
    for f in failures:
        print(" -", f)
    sys.exit(1)
print("OK")
