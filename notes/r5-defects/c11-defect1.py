"""
C11 defect on the UNCHANGED tree: a memento with a NaN or infinite float argument is written as a
document that is not plain JSON (bare NaN / Infinity tokens, which RFC 8259 does not allow and
strict readers in other languages reject), although NaN and infinity are in the supported
argument domain.

Exit 0 if the document is plain JSON, non-zero otherwise.
"""
import json
import os
import shutil
import tempfile

import twosigma.memento as m
from twosigma.memento import (
    Environment,
    ConfigurationRepository,
    FunctionCluster,
    memento_function,
)
from twosigma.memento.storage_filesystem import FilesystemStorageBackend


@memento_function(cluster="c1")
def clip(value, limit):
    return 0


def reject(token):
    raise ValueError("not plain JSON: bare token {}".format(token))


def main():
    base = tempfile.mkdtemp(prefix="c11_defect1_")
    original_env = m.Environment.get()
    try:
        m.Environment.set(
            Environment(
                name="defect1",
                base_dir=base,
                repos=[
                    ConfigurationRepository(
                        name="repo1",
                        clusters={
                            "c1": FunctionCluster(
                                name="c1",
                                storage=FilesystemStorageBackend(path=base + "/data"),
                            )
                        },
                    )
                ],
            )
        )
        clip(float("nan"), float("inf"))
        # the round trip itself is fine ...
        memento = clip.memento(float("nan"), float("inf"))
        assert memento is not None
        expected = clip.fn_reference().with_args(float("nan"), float("inf"))
        assert (
            memento.invocation_metadata.fn_reference_with_args.arg_hash
            == expected.arg_hash
        )
        # ... but the document on disk is not JSON
        files = [
            os.path.join(root, name)
            for root, _, names in os.walk(base + "/data")
            for name in names
            if name.endswith(".memento.json")
        ]
        assert len(files) == 1, files
        with open(files[0], encoding="utf-8") as f:
            text = f.read()
        json.loads(text, parse_constant=reject)
    finally:
        m.Environment.set(original_env)
        shutil.rmtree(base, ignore_errors=True)
    print("defect1: document is plain JSON")


if __name__ == "__main__":
    main()
