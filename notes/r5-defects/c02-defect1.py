"""
C02 defect on the unchanged tree: forgetting a call while another thread reads it leaves the
call memoized in the memory cache, so the forgotten call never runs again.

StorageBackendBase.forget_call clears the memory cache FIRST and the metadata store SECOND.
A reader that looks the call up between the two steps misses the cache, finds the memento
(and the result) still in the store and writes both back into the cache. When forget_call
then removes the metadata, the cache keeps answering for the call.

Exit 0 if the forgotten call runs again (property holds), non-zero otherwise.
"""
import logging
import os
import shutil
import sys
import tempfile
import threading

import twosigma.memento as m
from twosigma.memento import Environment, ConfigurationRepository, FunctionCluster
from twosigma.memento.runner_local import LocalRunnerBackend
from twosigma.memento.storage_filesystem import FilesystemStorageBackend

logging.disable(logging.CRITICAL)

CLUSTER = "defect1"


def _bump(name):
    with open(os.path.join(os.environ["C02_DEMO_DIR"], name), "a") as f:
        f.write("x")


def _count(name):
    path = os.path.join(os.environ["C02_DEMO_DIR"], name)
    return os.path.getsize(path) if os.path.exists(path) else 0


@m.memento_function(cluster=CLUSTER, auto_dependencies=False)
def quote(x):
    _bump("quote_%s" % x)
    return {"x": x, "n": _count("quote_%s" % x)}


def main():
    base = tempfile.mkdtemp(prefix="c02_defect1_")
    os.environ["C02_DEMO_DIR"] = base
    original = Environment.get()
    try:
        storage = FilesystemStorageBackend(
            path=os.path.join(base, "data"), memory_cache_mb=8
        )
        Environment.set(
            Environment(
                name="defect1",
                base_dir=base,
                repos=[
                    ConfigurationRepository(
                        name="repo1",
                        clusters={
                            CLUSTER: FunctionCluster(
                                name=CLUSTER,
                                storage=storage,
                                runner=LocalRunnerBackend(),
                            )
                        },
                    )
                ],
            )
        )

        assert quote(1) == {"x": 1, "n": 1}
        assert quote(1) == {"x": 1, "n": 1}
        assert _count("quote_1") == 1

        # Force the interleaving: the reader thread runs its call exactly between the two
        # steps of forget_call (cache cleared, metadata not yet removed).
        # noinspection PyProtectedMember
        metadata_source = storage._metadata_source
        real_forget_call = metadata_source.forget_call
        seen = {}

        def forget_call_after_reader(fn_with_arg_hash):
            def reader():
                seen["reader"] = quote(1)

            t = threading.Thread(target=reader, name="reader")
            t.start()
            t.join(30)
            real_forget_call(fn_with_arg_hash)

        metadata_source.forget_call = forget_call_after_reader
        quote.forget(1)
        metadata_source.forget_call = real_forget_call

        # The concurrent reader may legitimately see the old value (it ran before forget
        # completed) ...
        assert seen["reader"] == {"x": 1, "n": 1}, seen
        # ... but once forget() has returned, the call must run again.
        after = quote(1)
        runs = _count("quote_1")
        if runs != 2 or after != {"x": 1, "n": 2}:
            print(
                "FAIL forget(1) returned, yet quote(1) is served from the cache: "
                "value %r, body ran %d time(s) in total (expected 2); memento() -> %r"
                % (after, runs, quote.memento(1) is not None)
            )
            sys.exit(1)
        print("ok")
    finally:
        Environment.set(original)
        shutil.rmtree(base, ignore_errors=True)


if __name__ == "__main__":
    main()
