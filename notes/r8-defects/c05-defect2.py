"""
Custom metadata written for a call that has no memento makes the filesystem backend list the
function in list_functions() (its directory exists), although list_mementos() is empty and the
memory backend lists nothing.
Fails on the UNCHANGED tree.
"""
import datetime
import shutil
import sys
import tempfile

import twosigma.memento as m
from twosigma.memento import Memento, InvocationMetadata
from twosigma.memento.metadata import ResultType
from twosigma.memento.reference import FunctionReferenceWithArgHash
from twosigma.memento.storage_filesystem import FilesystemStorageBackend
from twosigma.memento.storage_memory import MemoryStorageBackend


@m.memento_function
def fn_a(a):
    return a


def make_memento(fn_ref_with_args, value) -> Memento:
    return Memento(
        time=datetime.datetime.now(datetime.timezone.utc),
        invocation_metadata=InvocationMetadata(
            runtime=datetime.timedelta(seconds=1.0),
            fn_reference_with_args=fn_ref_with_args,
            result_type=ResultType.from_object(value),
            invocations=[],
            resources=[],
        ),
        function_dependencies={fn_ref_with_args.fn_reference},
        runner={},
        correlation_id="defect",
        content_key=None,
    )


def backends(base):
    return {
        "memory": MemoryStorageBackend(),
        "filesystem": FilesystemStorageBackend(path=base + "/fs"),
        "filesystem+cache": FilesystemStorageBackend(path=base + "/fsc", memory_cache_mb=1),
    }


def observe(backend):
    call = fn_a.fn_reference().with_args(1)
    h = call.fn_reference_with_arg_hash()
    backend.write_metadata(h, "k", b"v")
    return [f.qualified_name for f in backend.list_functions()]


EXPECTED = []


def main():
    base = tempfile.mkdtemp(prefix="memento_defect_")
    ok = True
    try:
        for name, backend in backends(base).items():
            try:
                got = observe(backend)
            except Exception as e:  # noqa
                got = "raised {}".format(type(e).__name__)
            if got != EXPECTED:
                ok = False
                print("FAIL [{}]: got {!r}, expected {!r}".format(name, got, EXPECTED))
    finally:
        shutil.rmtree(base, ignore_errors=True)
    if not ok:
        sys.exit(1)
    print("ok")


if __name__ == "__main__":
    main()
