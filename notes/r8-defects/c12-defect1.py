"""
C12 defect 1 (unchanged tree): a dependency that the callee *declares* as a memento function
(`dependencies=[dep]`) is removed. The caller's version is pinned, so its entry is current: by C12
it is served and its metadata reads, with the callee reported as an external reference. Instead
reading the caller's memento raises TypeError ('NoneType' object is not iterable).

The same removal is handled when the dependency is declared by its bare name
(`dependencies=["dep"]`, DependencyNotFoundError -> external, commit 90893d2): that half is checked
first and passes.
"""
import importlib
import os
import shutil
import sys
import tempfile
import textwrap

sys.dont_write_bytecode = True

import twosigma.memento as m  # noqa: E402
from twosigma.memento import Environment  # noqa: E402
from twosigma.memento.configuration import (  # noqa: E402
    ConfigurationRepository,
    FunctionCluster,
)

tmp = tempfile.mkdtemp(prefix="c12defect1_")
sys.path.insert(0, tmp)

SOURCE = """
import twosigma.memento as m

@m.memento_function({cluster_arg})
def dep():
    return 1

@m.memento_function({cluster_arg}dependencies=[{declared}])
def callee(x):
    return x + 1

@m.memento_function({cluster_arg}version="1")
def caller(x):
    with open({marker!r}, "a") as f:
        f.write("x")
    return callee(x) * 2
"""


def set_env():
    env = Environment({"name": "demo", "base_dir": os.path.join(tmp, "env"), "repos": []})
    cluster = FunctionCluster(
        {"name": "ca", "storage": {"type": "filesystem", "path": os.path.join(tmp, "ca")}}
    )
    env.append_repo(ConfigurationRepository({"name": "r"}, clusters={"ca": cluster}))
    Environment.set(env)


def run(n, cluster, declared):
    where = "cluster={!r} dependencies=[{}]".format(cluster, declared)
    cluster_arg = "" if cluster is None else 'cluster="{}", '.format(cluster)
    mod_name = "c12defect1_mod{}".format(n)
    marker = os.path.join(tmp, mod_name + ".calls")
    with open(os.path.join(tmp, mod_name + ".py"), "w") as f:
        f.write(
            textwrap.dedent(SOURCE).format(
                cluster_arg=cluster_arg, declared=declared, marker=marker
            )
        )
    importlib.invalidate_caches()
    mod = importlib.import_module(mod_name)

    assert mod.caller(1) == 4
    old_callee = mod.callee.fn_reference().qualified_name

    # The dependency is removed from the code base
    del mod.dep

    try:
        assert mod.caller(1) == 4
        memento = mod.caller.memento(1)
        mementos = mod.caller.list_mementos()
        listed = {f.qualified_name: f.external for f in m.list_memoized_functions(cluster)}
    except Exception as e:
        raise AssertionError(
            "{}: reading the caller's stored metadata raised {}: {}".format(
                where, type(e).__name__, e
            )
        ) from e
    with open(marker) as f:
        assert f.read() == "x", where + ": the caller was run again"
    assert memento is not None and len(mementos) == 1, where
    (invocation,) = memento.invocation_metadata.invocations
    assert invocation.fn_reference.qualified_name == old_callee, where
    assert invocation.fn_reference.external, where
    assert listed[old_callee] is True, where
    print("ok:", where)


def main():
    set_env()
    n = 0
    for declared in ('"dep"', "dep"):
        for cluster in (None, "ca"):
            n += 1
            run(n, cluster, declared)
    print("defect1: ok")


if __name__ == "__main__":
    try:
        main()
    finally:
        shutil.rmtree(tmp, ignore_errors=True)
