"""
UNCHANGED tree: every modifier (`force_local()`, `partial()`, `ignore_result()`,
`with_context_args()`, ...) goes through `clone_with`, which passes `version=self.version()`,
so the clone carries the computed version as an *explicit* version. `_validate_dependency`
skips the check when the calling function has an explicit version. A hidden dynamic call made
by a function that was invoked through a modifier is therefore accepted, and the result is
stored under the automatically computed version of the caller, which does not cover the
callee. After the callee's input is edited, both the modified and the plain function return
the result of the previous edition.

Exits non-zero on the unchanged tree (it should exit 0 by the property).
"""
import importlib
import os
import shutil
import sys
import tempfile

ROOT = os.path.dirname(os.path.abspath(__file__))
sys.path.insert(0, ROOT)

from twosigma.memento import Environment  # noqa: E402
from twosigma.memento.exception import UndeclaredDependencyError  # noqa: E402

PROGRAM = """
from twosigma.memento import memento_function

X = 1


@memento_function
def h():
    return X


@memento_function
def caller(a):
    return globals()["h"]() + a
"""


def main():
    work = tempfile.mkdtemp(prefix="defect2")
    try:
        with open(os.path.join(work, "env.json"), "w") as fh:
            fh.write('{"name": "defect2"}')
        with open(os.path.join(work, "defect2_prog.py"), "w") as fh:
            fh.write(PROGRAM)
        sys.path.insert(0, work)
        Environment.set(os.path.join(work, "env.json"))
        prog = importlib.import_module("defect2_prog")

        def observe(fn):
            try:
                return fn(0)
            except UndeclaredDependencyError:
                return "undeclared"

        first = observe(prog.caller.force_local())
        assert first in (1, "undeclared"), first
        prog.X = 3
        for name, fn in (("force_local", prog.caller.force_local()), ("plain", prog.caller)):
            got = observe(fn)
            assert got in (3, "undeclared"), (
                "{}: stale result {!r}; the current program computes 3".format(name, got)
            )
    finally:
        shutil.rmtree(work, ignore_errors=True)
    print("ok")


if __name__ == "__main__":
    main()
