"""
Unchanged tree: a tracked plain function mutated in place (its __defaults__ replaced, no
re-binding of the name) is not noticed by NonMementoFunctionHashRule.did_change, which only
compares object identity, although the defaults are part of the hash of the rule.
Fails (exit 1) at clean HEAD.
"""
import importlib
import json
import os
import sys
import tempfile

tmp = tempfile.mkdtemp(prefix="c13defect2")
env_file = os.path.join(tmp, "env.json")
with open(env_file, "w") as fh:
    json.dump({"name": "defect2", "base_dir": tmp}, fh)
os.environ["MEMENTO_ENV"] = env_file

with open(os.path.join(tmp, "c13defect2_prog.py"), "w") as fh:
    fh.write(
        "from twosigma.memento import memento_function\n\n"
        "def helper(a=1):\n"
        "    return a\n\n"
        "@memento_function\n"
        "def f():\n"
        "    return helper()\n"
    )
sys.path.insert(0, tmp)
prog = importlib.import_module("c13defect2_prog")
from twosigma.memento import MementoFunction  # noqa: E402

v1 = prog.f.version()
assert prog.f() == 1
prog.helper.__defaults__ = (5,)
assert prog.helper() == 5
# What a from-scratch computation yields for the program as it is now
scratch = MementoFunction(prog.f.fn, register_fn=False).version()
assert scratch != v1
v2 = prog.f.version()
assert v2 == scratch, "f still reports {} (from scratch: {})".format(v2, scratch)
print("defect2 not reproduced")
