"""
Defect on the unchanged tree: (a) a dict argument with non-string keys does not keep its
argument hash through the JSON codec; (b) NaN / infinity arguments are emitted as the bare
tokens NaN / Infinity, which are not JSON.
"""
import json
import sys

from twosigma.memento import memento_function
from twosigma.memento.serialization import MementoCodec


@memento_function
def f(x):
    return 1


def main():
    failures = []

    fra = f.fn_reference().with_args({1: "a", 2: "b"})
    text = json.dumps(MementoCodec.encode_fn_reference_with_args(fra))
    back = MementoCodec.decode_fn_reference_with_args(json.loads(text))
    if back.arg_hash != fra.arg_hash or back.args != fra.args:
        failures.append(
            "int-keyed dict: args {!r} -> {!r}, hash {} -> {}".format(
                fra.args, back.args, fra.arg_hash[:12], back.arg_hash[:12]
            )
        )

    for value in (float("nan"), float("inf"), float("-inf")):
        doc = MementoCodec.encode_fn_reference_with_args(f.fn_reference().with_args(value))
        try:
            json.dumps(doc, allow_nan=False)
        except ValueError as e:
            failures.append("{!r}: the document is not plain JSON ({})".format(value, e))

    if failures:
        print("FAIL")
        for x in failures:
            print("  " + x)
        sys.exit(1)
    print("OK")


if __name__ == "__main__":
    main()
