"""
Defect on the UNCHANGED tree (C07, "results that serialize to the same bytes share one stored
object instead of creating another"), under a forced thread interleaving.

Codec.BlobStrategy.store() looks whether the content key exists and, if it does not, writes the
object. Nothing makes the two steps atomic, so two calls that store the same bytes at the same
time both find the key absent and both write: c/.versions/ then holds two objects for one hash,
and the two mementos designate different objects.
"""
import os
import shutil
import sys
import tempfile
import threading

import twosigma.memento as m
from twosigma.memento import ConfigurationRepository, Environment, FunctionCluster
from twosigma.memento.storage_filesystem import (
    FilesystemStorageBackend,
    _FilesystemDataSource,
)

base = tempfile.mkdtemp(prefix="c07_defect2_")
data_path = os.path.join(base, "data")
VALUE = "the same value from two functions"


@m.memento_function(cluster="c1")
def one():
    return VALUE


@m.memento_function(cluster="c1")
def other():
    return VALUE


def main():
    original_env = m.Environment.get()
    real_exists = _FilesystemDataSource.exists_nonversioned
    held = threading.Event()
    release = threading.Event()
    state = {"used": False}
    lock = threading.Lock()

    def exists_nonversioned(self, key):
        result = real_exists(self, key)
        hold = False
        if key.key.startswith("c/"):
            with lock:
                if not state["used"]:
                    state["used"] = True
                    hold = True
        if hold:
            # the first writer has just been told that the content is not stored yet
            assert result is False
            held.set()
            assert release.wait(30)
        return result

    _FilesystemDataSource.exists_nonversioned = exists_nonversioned
    try:
        m.Environment.set(
            Environment(
                name="defect2",
                base_dir=base,
                repos=[
                    ConfigurationRepository(
                        name="repo",
                        clusters={
                            "c1": FunctionCluster(
                                name="c1",
                                storage=FilesystemStorageBackend(path=data_path),
                            )
                        },
                    )
                ],
            )
        )
        env = m.Environment.get()
        errors = []

        def run(fn):
            try:
                m.Environment.set(env)
                assert fn() == VALUE
            except BaseException as e:  # noqa
                errors.append(e)

        t1 = threading.Thread(target=run, args=(one,))
        t1.start()
        assert held.wait(30)
        t2 = threading.Thread(target=run, args=(other,))
        t2.start()
        t2.join(30)
        release.set()
        t1.join(30)
        assert not errors, errors

        k1 = one.memento().content_key
        k2 = other.memento().content_key
        assert k1.key == k2.key
        versions = os.listdir(os.path.join(data_path, "c", ".versions"))
        assert len(versions) == 1, "{} objects stored for one content hash".format(
            len(versions)
        )
        assert k1 == k2
    finally:
        _FilesystemDataSource.exists_nonversioned = real_exists
        release.set()
        m.Environment.set(original_env)
        shutil.rmtree(base, ignore_errors=True)


if __name__ == "__main__":
    main()
    print("defect2: OK")
    sys.exit(0)
