"""
Defect on the UNCHANGED tree (C04): the body of a partially applied function receives the very
container objects stored on the partial's FunctionReference, not a private normalized copy. A
body that modifies a list/dict argument in place therefore changes what the partial binds, and
the same partial called twice gets two different keys; the direct call f(xs=[5, 6]) is
protected (each call normalizes a fresh copy), so partial application is not equivalent to it.
A second symptom: the memento written under key K records the modified arguments, which do
not hash to K.
"""
import json
import os
import shutil
import sys
import tempfile

import twosigma.memento as m


@m.memento_function(auto_dependencies=False)
def total(xs, tag=None):
    open(os.path.join(os.environ["DEFECT1_DIR"], "calls"), "a").write("x")
    xs.append(99)  # works on what it takes to be its own copy of the argument
    return sum(xs)


def calls() -> int:
    path = os.path.join(os.environ["DEFECT1_DIR"], "calls")
    return os.path.getsize(path) if os.path.exists(path) else 0


def main():
    tmp = tempfile.mkdtemp(prefix="c04defect1")
    os.environ["DEFECT1_DIR"] = tmp
    env_before = m.Environment.get()
    try:
        env_file = os.path.join(tmp, "env.json")
        with open(env_file, "w") as f:
            f.write(json.dumps({"name": "defect1"}))
        m.Environment.set(env_file)

        # Direct calls: the caller's list is untouched, second call is a hit
        mine = [1, 2]
        assert total(mine) == 102 and total(mine) == 102
        assert mine == [1, 2] and calls() == 1

        # The same through a partial
        p = total.partial(xs=[5, 6])
        key_before = p.fn_reference().with_args().arg_hash
        assert key_before == total.fn_reference().with_args(xs=[5, 6]).arg_hash
        assert p() == 110 and calls() == 2
        key_after = p.fn_reference().with_args().arg_hash
        assert key_after == key_before, (
            "the key of p() changed after p() ran: the partial now binds "
            "{!r}".format(p.fn_reference().partial_kwargs)
        )
        assert p() == 110 and calls() == 2, "second p() was not a hit"

        # The memento stored under a key records arguments that hash to that key
        memento = total.memento([1, 2])
        recorded = memento.invocation_metadata.fn_reference_with_args
        assert recorded.arg_hash == total.fn_reference().with_args([1, 2]).arg_hash, (
            "memento of total([1, 2]) records args {!r}".format(recorded.args)
        )
    finally:
        m.Environment.set(env_before)
        shutil.rmtree(tmp, ignore_errors=True)
    print("defect1: ok")


if __name__ == "__main__":
    try:
        main()
    except AssertionError as e:
        print("defect1: PROPERTY VIOLATED:", e)
        sys.exit(1)
