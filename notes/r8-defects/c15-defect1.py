"""
Unchanged-tree finding for C15: map_over_range keys its result by the Python value of the range
element. Values that are equal in Python but are distinct Memento arguments (1 / True / 1.0,
0.0 / -0.0: they have different argument hashes and are evaluated and memoized separately)
collapse into one key, and that key is paired with the result of the LAST of them. So
result[1] is not what the individual call with 1 returns.

Exits non-zero on the unchanged tree.
"""
import os
import shutil
import sys
import tempfile

sys.path.insert(0, os.path.dirname(os.path.abspath(__file__)))

import twosigma.memento as m  # noqa: E402
from twosigma.memento import (  # noqa: E402
    Environment,
    ConfigurationRepository,
    FunctionCluster,
)
from twosigma.memento.runner_local import LocalRunnerBackend  # noqa: E402
from twosigma.memento.storage_filesystem import FilesystemStorageBackend  # noqa: E402


@m.memento_function(cluster="c15", auto_dependencies=False)
def describe(x):
    return "{}:{!r}".format(type(x).__name__, x)


def main():
    original_env = m.Environment.get()
    base = tempfile.mkdtemp(prefix="c15_defect1_")
    m.Environment.set(
        Environment(
            name="c15",
            base_dir=base,
            repos=[
                ConfigurationRepository(
                    name="repo",
                    clusters={
                        "c15": FunctionCluster(
                            name="c15",
                            storage=FilesystemStorageBackend(path=base + "/data"),
                            runner=LocalRunnerBackend(),
                        )
                    },
                )
            ],
        )
    )
    try:
        values = [1, True, 2]
        batch = describe.call_batch([{"x": v} for v in values])
        assert batch == ["int:1", "bool:True", "int:2"], batch  # call_batch is right
        result = describe.map_over_range(x=values)
        print("map_over_range ->", result)
        # Position by position: the value at position 0 is 1, and describe(1) is "int:1"
        assert result[values[0]] == describe(values[0]), (
            "map_over_range(x=[1, True, 2])[1] is {!r} but describe(1) is {!r}".format(
                result[values[0]], describe(values[0])
            )
        )
        print("OK")
    finally:
        shutil.rmtree(base)
        m.Environment.set(original_env)


if __name__ == "__main__":
    main()
