"""
C12 defect 2 (unchanged tree): a function with an explicit (pinned) version is edited so that it
takes fewer positional parameters, without its version string being changed. Its version is
current, so by C12 what was stored stays readable. Instead every read of metadata that mentions an
earlier call of it raises ValueError ("More arguments provided ... than the remaining arguments
for the function"): the stored positional arguments are laid over the *current* signature when
the reference is bound to the current function (the stored parameterNames are only used for
external stubs).

 a) callee pinned at "7", `def callee(x)` -> `def callee()`: `caller(1)` / `caller.memento(1)` /
    `caller.list_mementos()` raise (the caller, pinned at "1", recorded the invocation callee(1));
 b) the function's own entries: `callee.list_mementos()` raises.
"""
import importlib
import linecache
import os
import shutil
import sys
import tempfile
import textwrap

sys.dont_write_bytecode = True

import twosigma.memento as m  # noqa: E402
from twosigma.memento import Environment  # noqa: E402
from twosigma.memento.configuration import (  # noqa: E402
    ConfigurationRepository,
    FunctionCluster,
)

tmp = tempfile.mkdtemp(prefix="c12defect2_")
sys.path.insert(0, tmp)

SOURCE = """
import twosigma.memento as m

@m.memento_function({cluster_arg}version="7")
def callee(x):
    return x + 1

@m.memento_function({cluster_arg}version="1")
def caller(x):
    with open({marker!r}, "a") as f:
        f.write("x")
    return callee(x) * 2
"""


def set_env():
    env = Environment({"name": "demo", "base_dir": os.path.join(tmp, "env"), "repos": []})
    cluster = FunctionCluster(
        {"name": "ca", "storage": {"type": "filesystem", "path": os.path.join(tmp, "ca")}}
    )
    env.append_repo(ConfigurationRepository({"name": "r"}, clusters={"ca": cluster}))
    Environment.set(env)


def write_module(name, source):
    with open(os.path.join(tmp, name + ".py"), "w") as f:
        f.write(textwrap.dedent(source))
    importlib.invalidate_caches()
    linecache.checkcache()
    if name in sys.modules:
        module = sys.modules[name]
        for key in [k for k in module.__dict__ if not k.startswith("__")]:
            del module.__dict__[key]
        return importlib.reload(module)
    return importlib.import_module(name)


def run(n, cluster):
    where = "cluster={!r}".format(cluster)
    cluster_arg = "" if cluster is None else 'cluster="{}", '.format(cluster)
    mod_name = "c12defect2_mod{}".format(n)
    marker = os.path.join(tmp, mod_name + ".calls")
    source = SOURCE.format(cluster_arg=cluster_arg, marker=marker)
    mod = write_module(mod_name, source)
    assert mod.caller(1) == 4
    callee_name = mod.callee.fn_reference().qualified_name

    # The callee is edited; its pinned version stays
    mod = write_module(
        mod_name, source.replace("def callee(x):\n    return x + 1", "def callee():\n    return 2")
    )
    assert mod.callee.fn_reference().qualified_name == callee_name

    failures = []
    for label, read in (
        ("caller(1)", lambda: mod.caller(1)),
        ("caller.memento(1)", lambda: mod.caller.memento(1)),
        ("caller.list_mementos()", lambda: mod.caller.list_mementos()),
        ("callee.list_mementos()", lambda: mod.callee.list_mementos()),
    ):
        try:
            read()
        except Exception as e:
            failures.append("{} raised {}: {}".format(label, type(e).__name__, e))
    assert not failures, where + ": " + "; ".join(failures)
    with open(marker) as f:
        assert f.read() == "x", where + ": the caller was run again"


def main():
    set_env()
    for n, cluster in enumerate((None, "ca")):
        run(n, cluster)
    print("defect2: ok")


if __name__ == "__main__":
    try:
        main()
    finally:
        shutil.rmtree(tmp, ignore_errors=True)
