"""
Unchanged tree: a modifier clone that is kept (fast = f.force_local()) never follows a later
change of a tracked global: clone_with() passes version=self.version(), which becomes the
clone's *explicit* version and is frozen for good. Fails (exit 1) at clean HEAD.
"""
import importlib
import json
import os
import sys
import tempfile

tmp = tempfile.mkdtemp(prefix="c13defect1")
env_file = os.path.join(tmp, "env.json")
with open(env_file, "w") as fh:
    json.dump({"name": "defect1", "base_dir": tmp}, fh)
os.environ["MEMENTO_ENV"] = env_file

with open(os.path.join(tmp, "c13defect1_prog.py"), "w") as fh:
    fh.write(
        "from twosigma.memento import memento_function\n"
        "X = 1\n\n"
        "@memento_function\n"
        "def f():\n"
        "    return X\n\n"
        "fast = f.force_local()\n"
    )
sys.path.insert(0, tmp)
prog = importlib.import_module("c13defect1_prog")

assert prog.fast.version() == prog.f.version()
assert prog.fast() == 1
prog.X = 2
new_version = prog.f.version()
assert prog.f.force_local().version() == new_version  # a clone made now is right
assert prog.f() == 2
# In a fresh process (X = 2) `fast` would have the same version as `f`
assert prog.fast.version() == new_version, "kept clone is stuck at {} (f is at {})".format(
    prog.fast.version(), new_version
)
assert prog.fast() == 2
print("defect1 not reproduced")
