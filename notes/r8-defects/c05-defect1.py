"""
Custom metadata written beside the data object (store_with_content_key) can no longer be read
once the call is memoized again with a different result: read_metadata raises FileNotFoundError
on the filesystem backend, while the memory backend returns the last value written.
Fails on the UNCHANGED tree.
"""
import datetime
import shutil
import sys
import tempfile

import twosigma.memento as m
from twosigma.memento import Memento, InvocationMetadata
from twosigma.memento.metadata import ResultType
from twosigma.memento.reference import FunctionReferenceWithArgHash
from twosigma.memento.storage_filesystem import FilesystemStorageBackend
from twosigma.memento.storage_memory import MemoryStorageBackend


@m.memento_function
def fn_a(a):
    return a


def make_memento(fn_ref_with_args, value) -> Memento:
    return Memento(
        time=datetime.datetime.now(datetime.timezone.utc),
        invocation_metadata=InvocationMetadata(
            runtime=datetime.timedelta(seconds=1.0),
            fn_reference_with_args=fn_ref_with_args,
            result_type=ResultType.from_object(value),
            invocations=[],
            resources=[],
        ),
        function_dependencies={fn_ref_with_args.fn_reference},
        runner={},
        correlation_id="defect",
        content_key=None,
    )


def backends(base):
    return {
        "memory": MemoryStorageBackend(),
        "filesystem": FilesystemStorageBackend(path=base + "/fs"),
        "filesystem+cache": FilesystemStorageBackend(path=base + "/fsc", memory_cache_mb=1),
    }


def observe(backend):
    call = fn_a.fn_reference().with_args(1)
    h = call.fn_reference_with_arg_hash()
    backend.memoize(None, make_memento(call, "x"), "x")
    ck = backend.get_mementos([h])[0].content_key
    backend.write_metadata(h, "k", b"v", store_with_content_key=ck)
    assert backend.read_metadata(h, "k") == b"v"
    backend.memoize(None, make_memento(call, "y"), "y")
    return backend.read_metadata(h, "k")


EXPECTED = b"v"


def main():
    base = tempfile.mkdtemp(prefix="memento_defect_")
    ok = True
    try:
        for name, backend in backends(base).items():
            try:
                got = observe(backend)
            except Exception as e:  # noqa
                got = "raised {}".format(type(e).__name__)
            if got != EXPECTED:
                ok = False
                print("FAIL [{}]: got {!r}, expected {!r}".format(name, got, EXPECTED))
    finally:
        shutil.rmtree(base, ignore_errors=True)
    if not ok:
        sys.exit(1)
    print("ok")


if __name__ == "__main__":
    main()
