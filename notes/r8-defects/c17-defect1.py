"""
Unchanged tree: a partition that was read back from the store (a PicklePartition) and is then
given a merge parent is not the overlay of that parent, neither in memory nor once stored.
"""
import logging
import shutil
import sys
import tempfile

import twosigma.memento as m
from twosigma.memento.partition import InMemoryPartition

logging.disable(logging.CRITICAL)
base_dir = tempfile.mkdtemp(prefix="c17_defect1_")
m.Environment.set(
    {
        "name": "defect1",
        "base_dir": base_dir,
        "repos": [
            {
                "name": "r",
                "clusters": {
                    "c": {
                        "name": "c",
                        "storage": {"type": "filesystem", "path": base_dir + "/store"},
                    }
                },
            }
        ],
    }
)


@m.memento_function(cluster="c")
def a():
    return InMemoryPartition({"a": 1, "b": 2})


@m.memento_function(cluster="c")
def b():
    p = InMemoryPartition({"b": 3, "c": 4})
    p._merge_parent = a()
    return p


@m.memento_function(cluster="c")
def z():
    return InMemoryPartition({"c": -1, "z": 26})


@m.memento_function(cluster="c")
def b_on_z():
    p = b()  # read back from disk: {a: 1 (inherited), b: 3, c: 4}
    p._merge_parent = z()
    return p


def as_dict(p):
    return {k: p.get(k) for k in p.list_keys()}


failures = []
try:
    b(), z()  # memoize, so that b_on_z gets them from disk (no memory cache is configured)
    assert as_dict(b()) == {"a": 1, "b": 3, "c": 4}
    assert type(b()).__name__ == "PicklePartition"
    expected = {"a": 1, "b": 3, "c": 4, "z": 26}  # z() overlaid by b()
    returned = as_dict(b_on_z())
    stored = as_dict(b_on_z())
    if returned != expected:
        failures.append("returned {} != {}".format(returned, expected))
    if stored != expected:
        failures.append("stored   {} != {}".format(stored, expected))
    if returned != stored:
        failures.append("the value returned and the value read back differ")
finally:
    shutil.rmtree(base_dir, ignore_errors=True)

if failures:
    print("FAIL")
    for f in failures:
        print("  " + f)
    sys.exit(1)
print("OK")
