"""
Unchanged tree: a partition whose merge parent was built in memory (never returned by a memoized
call, so never serialized) cannot be stored: the store raises IOError, the runner logs it and the
call is never memoized - the function body runs again on every call.
"""
import logging
import os
import shutil
import sys
import tempfile

import twosigma.memento as m
from twosigma.memento.partition import InMemoryPartition

logging.disable(logging.CRITICAL)
base_dir = tempfile.mkdtemp(prefix="c17_defect2_")
m.Environment.set(
    {
        "name": "defect2",
        "base_dir": base_dir,
        "repos": [
            {
                "name": "r",
                "clusters": {
                    "c": {
                        "name": "c",
                        "storage": {"type": "filesystem", "path": base_dir + "/store"},
                    }
                },
            }
        ],
    }
)
os.makedirs(base_dir + "/calls")


@m.memento_function(cluster="c")
def overlay(calls_dir: str):
    open(os.path.join(calls_dir, str(len(os.listdir(calls_dir)))), "w").close()
    parent = InMemoryPartition({"a": 1, "b": 2})
    p = InMemoryPartition({"b": 3, "c": 4})
    p._merge_parent = parent
    return p


def as_dict(p):
    return {k: p.get(k) for k in p.list_keys()}


failures = []
try:
    calls_dir = base_dir + "/calls"
    expected = {"a": 1, "b": 3, "c": 4}
    first = as_dict(overlay(calls_dir))
    second = as_dict(overlay(calls_dir))
    if first != expected or second != expected:
        failures.append("{} / {} != {}".format(first, second, expected))
    if overlay.memento(calls_dir) is None:
        failures.append("the call was not memoized")
    if len(os.listdir(calls_dir)) != 1:
        failures.append("the body ran {} times".format(len(os.listdir(calls_dir))))
finally:
    shutil.rmtree(base_dir, ignore_errors=True)

if failures:
    print("FAIL")
    for f in failures:
        print("  " + f)
    sys.exit(1)
print("OK")
