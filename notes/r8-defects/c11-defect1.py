"""
Defect on the unchanged tree: a function that modifies a list/dict argument in place changes
the arguments recorded in its memento, but not the argument hash the memento is stored under.
The memento that is read back from JSON therefore has an argument hash (recomputed from the
decoded arguments) that differs from the original one.
"""
import os
import shutil
import sys
import tempfile

import twosigma.memento as m
from twosigma.memento import (
    ConfigurationRepository,
    Environment,
    FunctionCluster,
    memento_function,
)
from twosigma.memento.storage_filesystem import FilesystemStorageBackend


@memento_function
def grow(xs):
    xs.append(99)
    return len(xs)


def main():
    failures = []
    original_env = m.Environment.get()
    base = tempfile.mkdtemp(prefix="c11_defect1_")
    try:
        m.Environment.set(
            Environment(
                name="defect1",
                base_dir=base,
                repos=[
                    ConfigurationRepository(
                        name="repo",
                        clusters={
                            "default": FunctionCluster(
                                name="default",
                                storage=FilesystemStorageBackend(
                                    path=os.path.join(base, "store")
                                ),
                            )
                        },
                    )
                ],
            )
        )
        original = grow.fn_reference().with_args([1, 2])
        assert grow([1, 2]) == 3
        stored = grow.memento([1, 2])
        fra = stored.invocation_metadata.fn_reference_with_args
        if fra.args != ([1, 2],):
            failures.append("recorded arguments are {!r}, the call was made with ([1, 2],)".format(fra.args))
        if fra.arg_hash != original.arg_hash:
            failures.append(
                "arg hash of the decoded memento is {}, it is stored under {}".format(
                    fra.arg_hash, original.arg_hash
                )
            )
        # consequence: forgetting through the memento does not forget the call
        stored.forget()
        if grow.memento([1, 2]) is not None:
            failures.append("memento.forget() left the memento in place")
    finally:
        m.Environment.set(original_env)
        shutil.rmtree(base, ignore_errors=True)
    if failures:
        print("FAIL")
        for f in failures:
            print("  " + f)
        sys.exit(1)
    print("OK")


if __name__ == "__main__":
    main()
