"""
Defect on the UNCHANGED tree (C07, "a memento keeps reading exactly the bytes that were stored
when it was created, whatever is memoized afterwards").

MemoryCache.read_result() checks that the entry it holds for the call belongs to the memento
that is being read (content keys are compared) - but only when the call has an entry in the
strong cache. When it has none (the result was too large for the cache, or the entry has been
evicted), the result is taken from `refs`, the weak references to results that are still alive
in the process, and that lookup goes by call only. If the call has been forgotten and memoized
again with another result, a memento obtained before that reads the NEW result although its
content key designates the old bytes, which are still in the store.
"""
import os
import shutil
import sys
import tempfile

import numpy as np

import twosigma.memento as m
from twosigma.memento import ConfigurationRepository, Environment, FunctionCluster
from twosigma.memento.storage_filesystem import FilesystemStorageBackend

base = tempfile.mkdtemp(prefix="c07_defect1_")
data_path = os.path.join(base, "data")
source_file = os.path.join(base, "source.txt")


@m.memento_function(cluster="c1")
def big_table():
    # depends on the outside world: what it returns changes between two evaluations
    with open(source_file) as f:
        fill = int(f.read())
    return np.full(400000, fill, dtype=np.int64)  # 3.2 MB: does not fit a cache of 1 MB


def main():
    original_env = m.Environment.get()
    try:
        m.Environment.set(
            Environment(
                name="defect1",
                base_dir=base,
                repos=[
                    ConfigurationRepository(
                        name="repo",
                        clusters={
                            "c1": FunctionCluster(
                                name="c1",
                                storage=FilesystemStorageBackend(
                                    path=data_path, memory_cache_mb=1
                                ),
                            )
                        },
                    )
                ],
            )
        )
        backend = m.Environment.get().get_cluster("c1").storage

        with open(source_file, "w") as f:
            f.write("1")
        first = big_table()
        assert first[0] == 1
        old_memento = big_table.memento()
        assert backend.read_result(old_memento)[0] == 1

        with open(source_file, "w") as f:
            f.write("2")
        big_table.forget()
        second = big_table()  # the caller keeps the new result alive
        assert second[0] == 2

        # The bytes that the old memento designates are untouched ...
        assert backend.codec.load(
            old_memento.invocation_metadata.result_type,
            backend._data_source,
            old_memento.content_key,
        )[0] == 1
        # ... but this is not what reading the memento returns
        got = backend.read_result(old_memento)
        assert got[0] == 1, "the old memento reads the result of the later evaluation: {}".format(
            got[0]
        )
    finally:
        m.Environment.set(original_env)
        shutil.rmtree(base, ignore_errors=True)


if __name__ == "__main__":
    main()
    print("defect1: OK")
    sys.exit(0)
