"""
UNCHANGED tree: the version of an automatically-versioned function is a digest over the
concatenation of its rule hashes with no separator between them. Code hashes and variable
hashes are 16 hex digits, but the hash of a dependency that has an explicit version is the
version string itself, of any length. Two adjacent explicitly-versioned dependencies whose
versions are edited from ("1", "23") to ("12", "3") leave the caller's version unchanged, and
the caller returns what the previous edition computed.

Exits non-zero on the unchanged tree (it should exit 0 by the property).
"""
import os
import shutil
import subprocess
import sys
import tempfile

ROOT = os.path.dirname(os.path.abspath(__file__))

PROGRAM = """
from twosigma.memento import memento_function


@memento_function(version="{va}")
def ga():
    return {ra}


@memento_function(version="{vb}")
def gb():
    return {rb}


@memento_function
def f():
    return ga() + gb()
"""

DRIVER = """
import sys
sys.path.insert(0, {root!r})
sys.path.insert(0, {work!r})
from twosigma.memento import Environment
Environment.set({env!r})
import prog
print(prog.f())
"""


def run(work, **kw):
    with open(os.path.join(work, "prog.py"), "w") as fh:
        fh.write(PROGRAM.format(**kw))
    driver = os.path.join(work, "driver.py")
    with open(driver, "w") as fh:
        fh.write(
            DRIVER.format(root=ROOT, work=work, env=os.path.join(work, "env.json"))
        )
    out = subprocess.run(
        [sys.executable, "-B", driver], check=True, capture_output=True, text=True
    )
    return out.stdout.strip().splitlines()[-1]


def main():
    work = tempfile.mkdtemp(prefix="defect1")
    try:
        with open(os.path.join(work, "env.json"), "w") as fh:
            fh.write('{"name": "defect1"}')
        assert run(work, va="1", ra=1, vb="23", rb=2) == "3"
        got = run(work, va="12", ra=100, vb="3", rb=200)
        assert got == "300", "stale: expected 300, got {}".format(got)
    finally:
        shutil.rmtree(work, ignore_errors=True)
    print("ok")


if __name__ == "__main__":
    main()
