"""
Observation on the UNCHANGED tree (C07 anchor "forget_* never delete data objects").

With the default layout (no separate metadata_path), forget_everything() asks the metadata
source to delete the key "" recursively; the metadata source writes through the very data
source that holds the results, so the whole store directory is removed: c/ and every object
stored under a key override go with it, although StorageBackendBase.forget_everything() says
"we do not remove the storage associated with the call". A memento obtained earlier (or an
index of a partition kept elsewhere) then designates an object that no longer exists.
With a separate metadata_path the data objects survive, as documented.
"""
import os
import shutil
import sys
import tempfile

import twosigma.memento as m
from twosigma.memento import ConfigurationRepository, Environment, FunctionCluster
from twosigma.memento.storage_filesystem import FilesystemStorageBackend

base = tempfile.mkdtemp(prefix="c07_defect3_")
data_path = os.path.join(base, "data")


@m.memento_function(cluster="c1")
def value():
    return "some value"


def main():
    original_env = m.Environment.get()
    try:
        m.Environment.set(
            Environment(
                name="defect3",
                base_dir=base,
                repos=[
                    ConfigurationRepository(
                        name="repo",
                        clusters={
                            "c1": FunctionCluster(
                                name="c1",
                                storage=FilesystemStorageBackend(path=data_path),
                            )
                        },
                    )
                ],
            )
        )
        backend = m.Environment.get().get_cluster("c1").storage
        assert value() == "some value"
        memento = value.memento()
        assert backend._data_source.exists_versioned(memento.content_key)
        backend.forget_everything()
        assert value.memento() is None
        assert backend._data_source.exists_versioned(
            memento.content_key
        ), "forget_everything() deleted the data objects"
        assert backend.read_result(memento) == "some value"
    finally:
        m.Environment.set(original_env)
        shutil.rmtree(base, ignore_errors=True)


if __name__ == "__main__":
    main()
    print("defect3: OK")
    sys.exit(0)
