"""
Unchanged tree: a memento function with an automatic version that is invoked through any
function modifier (`force_local()`, `partial(...)`, `ignore_result(...)`, `with_context_args`
...) can call a memento function outside its closure and gets a result instead of
UndeclaredDependencyError.
"""
import os
import tempfile

from twosigma.memento import Environment, memento_function
from twosigma.memento.exception import UndeclaredDependencyError

work = tempfile.mkdtemp(prefix="c14defect1")
with open(os.path.join(work, "env.json"), "w") as f:
    f.write('{"name": "c14defect1"}')
Environment.set(os.path.join(work, "env.json"))


@memento_function
def hidden():
    return 1


@memento_function
def caller(x):
    # not in the static closure of caller, not passed as an argument
    return globals()["hidden"]()


assert caller.explicit_version is None
assert caller.dependencies().transitive_memento_fn_dependencies() == set()


def outcome(fn, *args):
    try:
        return fn(*args)
    except UndeclaredDependencyError:
        return "refused"


assert outcome(caller, 1) == "refused"  # plain invocation: enforced
failures = []
for label, fn, args in [
    ("force_local", caller.force_local(), (2,)),
    ("partial", caller.partial(3), ()),
    ("ignore_result(False)", caller.ignore_result(False), (4,)),
]:
    got = outcome(fn, *args)
    if got != "refused":
        failures.append("{}: got {!r}".format(label, got))
assert not failures, failures
print("defect1 OK")
