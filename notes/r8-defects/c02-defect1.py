"""
Defect 1 (unchanged tree): a memoized value is aliased with the objects handed to callers on
the memory backend and on the filesystem backend with a memory cache. A caller that modifies
the value it received (its own result, as far as it can tell) changes what every later call
with the same arguments returns, without the body running again. The plain filesystem
backend hands out a fresh copy each time, so the outcome depends on the backend.
"""
import os
import shutil
import sys
import tempfile

import pandas as pd

import twosigma.memento as m
from twosigma.memento import Environment, ConfigurationRepository, FunctionCluster
from twosigma.memento.storage_filesystem import FilesystemStorageBackend
from twosigma.memento.storage_memory import MemoryStorageBackend

base = tempfile.mkdtemp(prefix="defect1_")


@m.memento_function(cluster="defect1", version="1")
def numbers(x):
    return [1, 2, 3]


@m.memento_function(cluster="defect1", version="1")
def frame(x):
    return pd.DataFrame({"a": [1, 2, 3]})


def run_on(name, storage, failures):
    Environment.set(
        Environment(
            name="defect1",
            base_dir=base,
            repos=[
                ConfigurationRepository(
                    name="r",
                    clusters={"defect1": FunctionCluster(name="defect1", storage=storage)},
                )
            ],
        )
    )
    first = numbers(1)
    first.append(4)  # the caller works on the value it was given
    if numbers(1) != [1, 2, 3]:
        failures.append("{}: numbers(1) now returns {}".format(name, numbers(1)))

    frame(1)
    second = frame(1)  # served from the memoized result
    second.loc[0, "a"] = 99
    if frame(1).loc[0, "a"] != 1:
        failures.append("{}: frame(1) now has a[0] == {}".format(name, frame(1).loc[0, "a"]))


def main():
    original_env = Environment.get()
    failures = []
    try:
        run_on("filesystem", FilesystemStorageBackend(path=os.path.join(base, "fs")), failures)
        run_on(
            "filesystem+cache",
            FilesystemStorageBackend(path=os.path.join(base, "fsc"), memory_cache_mb=1),
            failures,
        )
        run_on("memory", MemoryStorageBackend(), failures)
    finally:
        Environment.set(original_env)
        shutil.rmtree(base, ignore_errors=True)
    assert not failures, "\n".join(failures)


if __name__ == "__main__":
    main()
    print("defect1: OK")
    sys.exit(0)
