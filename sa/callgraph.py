"""Type table, resolved call graph and effect summaries (all from syntax)."""
import ast
import re
from typing import Dict, List, Optional, Set, Tuple

from .astutil import (
    walk_body,
    walk_local,
    dotted,
    call_attr,
    norm,
    const_str,
    FUNC_TYPES,
)
from .loader import Repo, FuncInfo, ClassInfo, type_head

BUILTIN_TYPES = {
    "dict", "Dict", "list", "List", "set", "Set", "tuple", "Tuple", "str", "bytes", "int",
    "float", "bool", "deque", "defaultdict", "WeakValueDictionary", "WeakKeyDictionary",
    "Path", "BytesIO", "IO", "TextIOWrapper", "RLock", "Iterable", "MutableSet", "Any",
    "object", "Callable", "OrderedDict", "timedelta", "datetime", "date", "CodeType",
}

# Methods of builtin containers / strings / files: with an unknown receiver these are not
# resolved by name against repository classes (the receiver is almost always a builtin).
BUILTINISH_METHODS = {
    "get", "append", "add", "update", "pop", "keys", "values", "items", "clear", "remove",
    "format", "join", "encode", "decode", "startswith", "endswith", "split", "replace", "find",
    "rfind", "copy", "read", "write", "close", "sort", "extend", "insert", "popleft", "hexdigest",
    "digest", "isoformat", "setdefault", "discard", "difference_update", "strip", "rstrip",
    "lower", "upper", "index", "count", "total_seconds", "group", "groupdict", "match", "exists",
    "is_dir", "is_file", "iterdir", "glob", "unlink", "rmdir", "open", "joinpath", "expanduser",
    "as_uri", "absolute", "with_name", "sum", "memory_usage", "sample", "date", "render",
    "debug", "info", "warning", "error", "node", "edge", "acquire", "release", "fileno",
}

FS_WRITE_FUNCS = {
    "os.makedirs", "os.mkdir", "os.unlink", "os.remove", "os.rmdir", "os.rename", "os.replace",
    "os.removedirs", "os.symlink", "os.link", "os.truncate", "shutil.rmtree", "shutil.move",
    "shutil.copy", "shutil.copyfile", "shutil.copytree", "shutil.copyfileobj",
    "tempfile.mkdtemp", "tempfile.mkstemp", "tempfile.NamedTemporaryFile",
    "tempfile.TemporaryDirectory", "tempfile.TemporaryFile", "tempfile.SpooledTemporaryFile",
    "os.write", "os.pwrite", "os.writev", "os.ftruncate", "os.chmod", "os.chown", "os.utime", "os.mkfifo",
    "os.renames", "shutil.copy2", "shutil.copymode", "shutil.copystat", "shutil.chown", "shutil.make_archive",
}
FS_WRITE_METHODS = {
    "unlink", "rmdir", "mkdir", "touch", "write_text", "write_bytes", "rename", "replace",
    "symlink_to", "chmod",
}
MUTATING_METHODS = {
    "append", "add", "clear", "pop", "update", "remove", "popleft", "insert", "extend",
    "appendleft", "discard", "setdefault", "popitem", "sort", "reverse", "difference_update",
}


def _open_mode_writes(call: ast.Call) -> Optional[bool]:
    """open(...)/Path.open(...) -> True if the mode may write, False if read-only,
    None if this is not an open call."""
    name = call_attr(call)
    if name in ("fdopen", "FileIO"):
        # os.fdopen(fd, mode) / io.FileIO(path, mode): the mode is the second positional argument
        mode = None
        for k in call.keywords:
            if k.arg == "mode":
                mode = k.value
        if mode is None and len(call.args) > 1:
            mode = call.args[1]
        if mode is None:
            return False
        m = const_str(mode)
        return True if m is None else any(ch in m for ch in "wax+")
    if name != "open":
        return None
    is_builtin = isinstance(call.func, ast.Name)
    mode = None
    for k in call.keywords:
        if k.arg == "mode":
            mode = k.value
    if mode is None:
        idx = 1 if is_builtin else 0
        if len(call.args) > idx:
            mode = call.args[idx]
    if mode is None:
        return False
    m = const_str(mode)
    if m is None:
        return True  # unknown mode: assume it may write
    return any(ch in m for ch in "wax+")


class CallGraph:
    def __init__(self, repo: Repo):
        self.repo = repo
        self.funcs: Dict[str, FuncInfo] = {f.qual: f for f in repo.all_funcs()}
        self._methods_by_name: Dict[str, List[FuncInfo]] = {}
        for f in self.funcs.values():
            if f.cls is not None and f.parent is None:
                self._methods_by_name.setdefault(f.name, []).append(f)
        self.init_field_types: Dict[str, Dict[str, str]] = {}
        self._scan_init_fields()
        self.edges: Dict[str, List[Tuple[ast.Call, List[FuncInfo], str]]] = {}
        self.stats = {"total": 0, "resolved": 0, "external": 0, "builtinish": 0, "unresolved": 0}
        self.unresolved: List[str] = []
        for f in self.funcs.values():
            self._scan(f)
        self._effects()

    # ---- types -------------------------------------------------------------------
    def _scan_init_fields(self):
        """self.x = <expr> in any method: record constructor-inferred field types."""
        for ci in self.repo.all_classes():
            table: Dict[str, str] = {}
            for m in ci.methods.values():
                for n in walk_body(m.node):
                    if isinstance(n, ast.Assign) and len(n.targets) == 1:
                        t = n.targets[0]
                        if isinstance(t, ast.Attribute) and isinstance(t.value, ast.Name) and t.value.id == "self":
                            ty = self._expr_type_text(n.value, m)
                            if ty and t.attr not in table:
                                table[t.attr] = ty
            self.init_field_types[ci.qual] = table

    def _expr_type_text(self, e, fi: FuncInfo) -> Optional[str]:
        if isinstance(e, ast.Call):
            d = dotted(e.func)
            if d:
                last = d.split(".")[-1]
                if last in BUILTIN_TYPES or self.repo.classes_named(last):
                    return last
        if isinstance(e, ast.Name):
            ann = fi.param_annotation(e.id)
            if ann:
                return ann
        return None

    def class_of_typename(self, t: Optional[str], ctx_cls: Optional[ClassInfo] = None):
        """Type text -> ClassInfo | 'builtin' | None."""
        h = type_head(t)
        if h is None:
            return None
        last = h.split(".")[-1]
        if last in BUILTIN_TYPES:
            return "builtin"
        parts = h.split(".")
        if ctx_cls is not None:
            r = self.repo.resolve_base(ctx_cls, h)
            if r is not None:
                return r
        lst = self.repo.classes_named(last)
        if len(parts) > 1:
            for c in lst:
                if c.qual.endswith(h):
                    return c
        if len(lst) >= 1:
            return lst[0]
        return None

    def _subscript_type_text(self, t: Optional[str]) -> Optional[str]:
        """Dict[K, V] -> V ; List[X] -> X ; defaultdict -> None."""
        if not t:
            return None
        t = t.strip()
        m = re.match(r"^(Optional)\[(.*)\]$", t)
        if m:
            t = m.group(2).strip()
        m = re.match(r"^(Dict|dict|defaultdict|MutableMapping|Mapping)\[(.*)\]$", t)
        if m:
            inner = m.group(2)
            depth = 0
            for i, ch in enumerate(inner):
                if ch == "[":
                    depth += 1
                elif ch == "]":
                    depth -= 1
                elif ch == "," and depth == 0:
                    return inner[i + 1 :].strip()
            return None
        m = re.match(r"^(List|list|Iterable|Set|set|Tuple)\[(.*)\]$", t)
        if m:
            return m.group(2).strip()
        return None

    def type_text(self, e, fi: FuncInfo) -> Optional[str]:
        """Static type text of an expression inside function fi (flow-insensitive).  Mutually dependent local
        definitions (`a = b.f()` ... `b = a.g()`) have no type: the question is cut where it comes back to itself."""
        busy = self.__dict__.setdefault("_type_text_busy", set())
        key = (id(e), id(fi))
        if key in busy or len(busy) > 120:
            return None
        busy.add(key)
        try:
            return self._type_text(e, fi)
        finally:
            busy.discard(key)

    def _type_text(self, e, fi: FuncInfo) -> Optional[str]:
        if isinstance(e, ast.Name):
            if e.id == "self" and fi.cls is not None and not fi.is_static:
                return fi.cls.qual
            if e.id == "cls" and fi.cls is not None:
                return fi.cls.qual
            f = fi
            while f is not None:
                ann = f.param_annotation(e.id)
                if ann:
                    return ann
                # local assignments
                tys = set()
                for n in walk_body(f.node):
                    if isinstance(n, ast.Assign):
                        for t in n.targets:
                            if isinstance(t, ast.Name) and t.id == e.id:
                                if n.type_comment:
                                    tys.add(n.type_comment)
                                else:
                                    tt = self.type_text(n.value, f) if not _mentions(n.value, e.id) else None
                                    tys.add(tt)
                    elif isinstance(n, ast.AnnAssign) and isinstance(n.target, ast.Name) and n.target.id == e.id:
                        tys.add(ast.unparse(n.annotation))
                    elif isinstance(n, (ast.For, ast.comprehension)):
                        if isinstance(n.target, ast.Name) and n.target.id == e.id:
                            it = self.type_text(n.iter, f) if not _mentions(n.iter, e.id) else None
                            tys.add(self._subscript_type_text(it))
                    elif isinstance(n, ast.withitem):
                        if isinstance(n.optional_vars, ast.Name) and n.optional_vars.id == e.id:
                            tys.add(None)
                tys.discard(None)
                if len(tys) == 1:
                    return tys.pop()
                if len(tys) > 1:
                    return None
                f = f.parent
            # module-level class name
            if self.repo.classes_named(e.id):
                return "type:" + e.id
            return None
        if isinstance(e, ast.Attribute):
            bt = self.type_text(e.value, fi)
            if bt and bt.startswith("type:"):
                # Class.attr : nested class or class field
                c = self.class_of_typename(bt[5:], fi.cls)
                if isinstance(c, ClassInfo):
                    if e.attr in c.nested:
                        return "type:" + c.nested[e.attr].qual.split(".", 1)[1]
                    ft = self.repo.field_type(c, e.attr)
                    if ft:
                        return ft
                return None
            c = self.class_of_typename(bt, fi.cls) if bt else None
            if isinstance(c, ClassInfo):
                ft = self.repo.field_type(c, e.attr)
                if ft:
                    return ft
                for k in self.repo.mro(c):
                    t = self.init_field_types.get(k.qual, {}).get(e.attr)
                    if t:
                        return t
                    m = k.methods.get(e.attr)
                    if m is not None and "property" in m.decorators and m.node.returns is not None:
                        return ast.unparse(m.node.returns)
            return None
        if isinstance(e, ast.Subscript):
            bt = self.type_text(e.value, fi)
            return self._subscript_type_text(bt)
        if isinstance(e, ast.Call):
            d = dotted(e.func)
            if d:
                last = d.split(".")[-1]
                if last == "cast" and len(e.args) == 2:
                    return norm(e.args[0])
                if last in BUILTIN_TYPES:
                    return last
                if self.repo.classes_named(last) and (d == last or d.split(".")[0][0].isupper()):
                    return d if "." in d else last
            cands, _ = self.resolve(e, fi)
            rets = set()
            for c in cands:
                if c.node.returns is not None:
                    rets.add(ast.unparse(c.node.returns))
            if len(rets) == 1:
                return rets.pop().strip("'\"")
            return None
        if isinstance(e, ast.IfExp):
            a = self.type_text(e.body, fi)
            b = self.type_text(e.orelse, fi)
            return a or b
        if isinstance(e, (ast.Dict, ast.DictComp)):
            return "dict"
        if isinstance(e, (ast.List, ast.ListComp)):
            return "list"
        if isinstance(e, (ast.Set, ast.SetComp)):
            return "set"
        if isinstance(e, ast.JoinedStr) or (isinstance(e, ast.Constant) and isinstance(e.value, str)):
            return "str"
        return None

    # ---- resolution --------------------------------------------------------------
    def _with_overrides(self, c: ClassInfo, name: str) -> List[FuncInfo]:
        out = []
        m = self.repo.find_method(c, name)
        if m is not None:
            out.append(m)
        for s in self.repo.subclasses(c):
            if name in s.methods and s.methods[name] not in out:
                out.append(s.methods[name])
        return out

    def resolve(self, call: ast.Call, fi: FuncInfo) -> Tuple[List[FuncInfo], str]:
        """-> (candidate callees, how) ; how in typed/name/module/nested/external/builtinish/
        unresolved/ctor"""
        f = call.func
        if isinstance(f, ast.Name):
            # nested function in an enclosing function
            p = fi
            while p is not None:
                if f.id in p.nested:
                    return [p.nested[f.id]], "nested"
                p = p.parent
            m = fi.module
            if f.id in m.functions:
                return [m.functions[f.id]], "module"
            if f.id in m.classes:
                init = self.repo.find_method(m.classes[f.id], "__init__")
                return ([init] if init else []), "ctor"
            if f.id in m.imports:
                origin = m.imports[f.id]
                if ":" in origin:
                    modname, attr = origin.split(":")
                    short = modname.lstrip(".").split(".")[-1]
                    mm = self.repo.modules.get(short)
                    if mm is not None and (modname.startswith(".") or "memento" in modname):
                        if attr in mm.functions:
                            return [mm.functions[attr]], "module"
                        if attr in mm.classes:
                            init = self.repo.find_method(mm.classes[attr], "__init__")
                            return ([init] if init else []), "ctor"
                return [], "external"
            # a local variable / parameter holding a callable
            return [], "external" if f.id in __builtins__ or f.id in dir(__import__("builtins")) else "unresolved"
        if isinstance(f, ast.Attribute):
            name = f.attr
            recv = f.value
            # super().m()
            if isinstance(recv, ast.Call) and isinstance(recv.func, ast.Name) and recv.func.id == "super":
                if fi.cls is not None:
                    start = fi.cls
                    if recv.args:
                        d0 = dotted(recv.args[0])
                        c0 = self.class_of_typename(d0, fi.cls) if d0 else None
                        if isinstance(c0, ClassInfo):
                            start = c0
                    for b in self.repo.mro(start)[1:]:
                        if name in b.methods:
                            return [b.methods[name]], "typed"
                return [], "external"
            d = dotted(recv)
            # module.function()
            if isinstance(recv, ast.Name) and recv.id in fi.module.imports and ":" not in fi.module.imports[recv.id]:
                return [], "external"
            tt = self.type_text(recv, fi)
            if tt:
                if tt.startswith("type:"):
                    c = self.class_of_typename(tt[5:], fi.cls)
                    if isinstance(c, ClassInfo):
                        if name in c.nested:
                            init = self.repo.find_method(c.nested[name], "__init__")
                            return ([init] if init else []), "ctor"
                        m = self.repo.find_method(c, name)
                        if m is not None:
                            # static call through the class: subclasses may override only
                            # for classmethods; keep the exact target
                            return [m], "typed"
                        return [], "external"
                c = self.class_of_typename(tt, fi.cls)
                if c == "builtin":
                    return [], "external"
                if isinstance(c, ClassInfo):
                    cands = self._with_overrides(c, name)
                    if cands:
                        return cands, "typed"
                    return [], "external"
            # imported names used as receivers (e.g. os.path.join, hashlib.sha256)
            if d is not None:
                root = d.split(".")[0]
                if root in fi.module.imports and not self.repo.classes_named(root):
                    origin = fi.module.imports[root]
                    if ":" not in origin or not (origin.startswith(".") or "memento" in origin):
                        return [], "external"
            if name in BUILTINISH_METHODS:
                return [], "builtinish"
            cands = self._methods_by_name.get(name, [])
            if cands:
                return list(cands), "name"
            return [], "unresolved"
        return [], "unresolved"

    def _scan(self, fi: FuncInfo):
        lst = []
        for n in walk_body(fi.node):
            if isinstance(n, ast.Call):
                cands, how = self.resolve(n, fi)
                lst.append((n, cands, how))
                self.stats["total"] += 1
                if how in ("typed", "name", "module", "nested", "ctor"):
                    self.stats["resolved"] += 1
                elif how == "external":
                    self.stats["external"] += 1
                elif how == "builtinish":
                    self.stats["builtinish"] += 1
                else:
                    self.stats["unresolved"] += 1
                    self.unresolved.append("%s: %s" % (fi.qual, norm(n.func)))
        self.edges[fi.qual] = lst

    def callees(self, fi: FuncInfo) -> List[FuncInfo]:
        out = []
        for (_, cands, _) in self.edges.get(fi.qual, []):
            for c in cands:
                if c not in out:
                    out.append(c)
        return out

    def call_sites_of(self, pred) -> List[Tuple[FuncInfo, ast.Call, List[FuncInfo]]]:
        out = []
        for q, lst in self.edges.items():
            for (call, cands, how) in lst:
                if pred(call, cands):
                    out.append((self.funcs[q], call, cands))
        return out

    def reachable(self, roots: List[FuncInfo], stop=None) -> Dict[str, Optional[str]]:
        """qual -> predecessor qual (for witness chains)."""
        prev: Dict[str, Optional[str]] = {}
        stack = []
        for r in roots:
            prev[r.qual] = None
            stack.append(r)
        while stack:
            f = stack.pop()
            if stop is not None and stop(f):
                continue
            for c in self.callees(f):
                if c.qual not in prev:
                    prev[c.qual] = f.qual
                    stack.append(c)
        return prev

    def chain(self, prev: Dict[str, Optional[str]], q: str) -> str:
        out = []
        while q is not None:
            out.append(q)
            q = prev.get(q)
        return " <- ".join(out)

    # ---- effects -----------------------------------------------------------------
    def _effects(self):
        self.fs_write_sites: Dict[str, List[ast.AST]] = {}
        self.field_mut_sites: Dict[str, List[Tuple[str, str, ast.AST]]] = {}
        for q, fi in self.funcs.items():
            fs = []
            muts = []
            for n in walk_body(fi.node):
                if isinstance(n, ast.Call):
                    d = dotted(n.func)
                    if d:
                        # `from tempfile import mkstemp` / `import shutil as sh`: spell the callee by its origin
                        head, _, rest = d.partition(".")
                        origin = fi.module.imports.get(head)
                        if origin and not origin.startswith("."):
                            if ":" not in origin and origin.split(".")[0] == head:
                                origin = head  # plain `import a.b` binds `a`
                            origin = origin.replace(":", ".")
                            d = origin + ("." + rest if rest else "")
                    ow = _open_mode_writes(n)
                    if ow:
                        fs.append(n)
                    elif d in FS_WRITE_FUNCS:
                        fs.append(n)
                    elif isinstance(n.func, ast.Attribute) and n.func.attr in FS_WRITE_METHODS:
                        # only when the receiver is not a repository class with such a method
                        cands, how = self.resolve(n, fi)
                        if not cands:
                            tt = self.type_text(n.func.value, fi)
                            if n.func.attr in ("replace", "rename") and (tt in ("str",) or tt is None and not _pathish(n.func.value)):
                                pass
                            else:
                                fs.append(n)
                    # mutating container method on a field
                    if isinstance(n.func, ast.Attribute) and n.func.attr in MUTATING_METHODS:
                        owner = self._field_owner(n.func.value, fi)
                        if owner:
                            muts.append((owner[0], owner[1], n))
                elif isinstance(n, (ast.Assign, ast.AugAssign, ast.Delete, ast.AnnAssign)):
                    targets = (
                        n.targets if isinstance(n, (ast.Assign, ast.Delete)) else [n.target]
                    )
                    for t in targets:
                        if isinstance(t, ast.Name):
                            continue  # binding a local name is not a mutation
                        base = t
                        kind = "assign"
                        if isinstance(t, ast.Subscript):
                            base = t.value
                            kind = "setitem" if not isinstance(n, ast.Delete) else "delitem"
                        owner = self._field_owner(base, fi)
                        if owner:
                            muts.append((owner[0], owner[1] + ":" + kind, n))
                elif isinstance(n, ast.Subscript) and isinstance(n.ctx, ast.Load):
                    # subscript-load on a defaultdict-typed field autovivifies
                    owner = self._field_owner(n.value, fi)
                    if owner and self._field_is_defaultdict(owner[0], owner[1]):
                        muts.append((owner[0], owner[1] + ":autoviv", n))
            self.fs_write_sites[q] = fs
            self.field_mut_sites[q] = muts

    def _field_owner(self, e, fi: FuncInfo, _depth=0) -> Optional[Tuple[str, str]]:
        """expr `X.f` where X has a repository class type -> (class qual, field)."""
        if isinstance(e, ast.Name) and _depth < 3:
            # local alias of (an element of) a field: x = self.f[k] / self.f.get(k) / self.f
            found = None
            for n in walk_body(fi.node):
                if isinstance(n, ast.Assign) and any(isinstance(t, ast.Name) and t.id == e.id for t in n.targets):
                    v = n.value
                    while isinstance(v, (ast.Subscript, ast.Call)):
                        if isinstance(v, ast.Call):
                            if isinstance(v.func, ast.Attribute) and v.func.attr in ("get", "setdefault"):
                                v = v.func.value
                            else:
                                v = None
                                break
                        else:
                            v = v.value
                    if v is not None and not (isinstance(v, ast.Name) and v.id == e.id):
                        o = self._field_owner(v, fi, _depth + 1)
                        if o:
                            found = (o[0], o[1] + "[]" if not o[1].endswith("[]") else o[1])
            return found
        if isinstance(e, ast.Subscript):
            o = self._field_owner(e.value, fi, _depth + 1)
            if o:
                return (o[0], o[1] + "[]" if not o[1].endswith("[]") else o[1])
            return None
        if not isinstance(e, ast.Attribute):
            return None
        tt = self.type_text(e.value, fi)
        c = self.class_of_typename(tt, fi.cls) if tt and not tt.startswith("type:") else None
        if isinstance(c, ClassInfo):
            return (c.qual, e.attr)
        return None

    def _field_is_defaultdict(self, cls_qual: str, field: str) -> bool:
        c = self.repo.try_cls(cls_qual)
        if c is None:
            return False
        for k in self.repo.mro(c):
            if self.init_field_types.get(k.qual, {}).get(field) == "defaultdict":
                return True
        return False

    def transitive(self, root: FuncInfo, stop=None):
        """All functions reachable from root (including root) with witness chains."""
        return self.reachable([root], stop=stop)


def _mentions(e, name) -> bool:
    return any(isinstance(n, ast.Name) and n.id == name for n in ast.walk(e))


def _pathish(e) -> bool:
    s = norm(e).lower()
    return "path" in s or "dir" in s or "match" in s or "file" in s
