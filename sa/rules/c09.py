"""C09 — concurrent callers: single flight per call, consistent shared state (structural part).

A static lockset / guarded-by / lock-order argument; no schedule is executed or enumerated.
Decides: mutex table accessed only under its lock (R1); the per-call critical section covers
re-check, body, is_memoized and memoize, is keyed by the call and re-entrant (R2); every access
to mutable MemoryCache state is guarded by the cache lock (R3); table lock and cache lock are
leaf locks (R4); call stacks live only in thread-local storage (R5).
"""
import ast

from .. import astutil as A
from ..fa import FA
from ..loader import AnalysisError
from .cache_model import CacheModel, self_attr, assign_pairs, CACHE_CLASS, safe_expand

RL = "runner_local"
FORBIDDEN_UNDER_LEAF_LOCK = ("_mutex_for_invocation", "memento_run_local", "memento_run_batch", "_filter_call", "batch_run")


def _xs(fa: FA, e, at) -> str:
    """name-independent text of `e` evaluated at `at` (plain text where the code is unreachable on the explicit-edge CFG)"""
    ids = fa.nodes(at)
    try:
        return fa.xnorm(e, ids[0]) if ids else A.norm(e)
    except AnalysisError:
        return A.norm(e)


def _with_blocks(fa: FA, pred):
    return [w for w in fa.stmts((ast.With,)) if any(pred(i.context_expr) for i in w.items)]


def _calls_under_lock(ck, fi, method_name, me_name, _depth=0):
    """In function `fi`: is every call `<method_name>(<me_name>, ...)` made while `<me_name>.<lock>` is held -- inside a
    with-block of it (named directly or through a local), between `acquire()` and a `release()` that every way out passes,
    or by handing method and instance on to a module-level helper that does the same with its own parameters?
    -> (set of lock fields, does `fi` hand the method's result on?) or None when some call is not under a lock / there is none."""
    w = FA(ck, fi)
    me = me_name
    calls = [c for c in w.calls() if isinstance(c.func, ast.Name) and c.func.id == method_name and c.args and A.norm(c.args[0]) == me]
    delegs = []
    if _depth < 2:
        for c in w.calls():
            if isinstance(c.func, ast.Name) and c.func.id in fi.module.functions and c.func.id != fi.name and c not in calls:
                pm_ = [i for i, a in enumerate(c.args) if isinstance(a, ast.Name) and a.id == method_name]
                ps_ = [i for i, a in enumerate(c.args) if isinstance(a, ast.Name) and a.id == me]
                g = fi.module.functions[c.func.id]
                if len(pm_) == 1 and len(ps_) == 1 and not c.keywords and len(g.params) > max(pm_[0], ps_[0]):
                    delegs.append((c, g, pm_[0], ps_[0]))
    if not calls and not delegs:
        return None
    locks = set()
    for c in calls:
        held = None
        x = c
        while x is not None:
            x = w.pm.get(x)
            if isinstance(x, ast.With):
                for it in x.items:
                    e = safe_expand(w, it.context_expr, x)
                    if isinstance(e, ast.Attribute) and isinstance(e.value, ast.Name) and e.value.id == me:
                        held = e.attr
            if held:
                break
        if held is None:
            # no with-block: the lock may be taken by hand (`me.<lock>.acquire()` ... `finally: me.<lock>.release()`)
            for x in w.calls("acquire"):
                r = A.call_recv(x)
                if isinstance(r, ast.Name):
                    r = safe_expand(w, r)
                if isinstance(r, ast.Attribute) and isinstance(r.value, ast.Name) and r.value.id == me:
                    lr = LockRegions(ck, fi, r.attr, me=me)
                    if lr.held(c) and not lr.leaks():
                        held = r.attr
        if held is None:
            return None
        locks.add(held)
    hands_on_calls = list(calls)
    for (c, g, im, is_) in delegs:
        sub = _calls_under_lock(ck, g, g.params[im], g.params[is_], _depth + 1)
        if sub is None:
            return None
        locks |= sub[0]
        if sub[1]:
            hands_on_calls.append(c)
    # the method's result is handed on (returned from inside the block, or kept in a variable and returned after it)
    hands_on = any(r.value is not None and any(v_ in hands_on_calls for (v_, _at) in _sources(w, r)) for r in w.returns())
    return locks, hands_on


def _lock_decorators(ck, module):
    """Module-level decorators whose wrapper calls the decorated method only while holding `self.<lock>` (see
    _calls_under_lock), whatever else the wrapper does with the result.  -> {decorator name: lock field}"""
    out = {}
    for name, fi in module.functions.items():
        if len(fi.params) != 1:
            continue
        top = A.sig_stmts(fi.node.body)
        inner = [n for n in top if isinstance(n, (ast.FunctionDef,))]
        rets = [n for n in top if isinstance(n, ast.Return)]
        if len(inner) != 1 or len(rets) != 1 or A.norm(rets[0].value) != inner[0].name:
            continue
        wfi = fi.nested.get(inner[0].name)
        if wfi is None or not wfi.params:
            continue
        res = _calls_under_lock(ck, wfi, fi.params[0], wfi.params[0])
        if res is not None and len(res[0]) == 1 and res[1]:
            out[name] = next(iter(res[0]))
    return out


def _fa_reaching(ck, fa: FA, st):
    """`fa`, or -- when statement `st` sits in an exception handler that no edge of the CFG leads to (the try body is a plain
    attribute read, which the CFG treats as non-raising) -- an analysis of that handler's body on its own, as if the handler
    had just been entered.  The statements are the same objects, so facts recorded about them carry over."""
    if st is None or fa.nodes(st):
        return fa
    h = fa.enclosing(st, (ast.ExceptHandler,))
    if h is None:
        return fa
    from ..loader import FuncInfo
    synth = ast.FunctionDef(name=fa.fi.name, args=fa.fi.node.args, body=list(h.body), decorator_list=[], returns=None, type_comment=None)
    try:
        synth.type_params = []
    except Exception:
        pass
    ast.copy_location(synth, h)
    sub = FA(ck, FuncInfo(fa.fi.module, synth, fa.fi.qual, cls=fa.fi.cls, parent=fa.fi.parent))
    return sub if sub.nodes(st) else fa


def _sources(fa, r):
    from .cache_model import value_sources
    return value_sources(fa, r)


def _mutex_holding_context_managers(ck, module):
    """Module-level @contextmanager functions that acquire the per-call mutex of their first
    parameter and yield while holding it (released in a finally / by a with-block)."""
    out = set()
    for name, fi in module.functions.items():
        if not any("contextmanager" in d for d in fi.decorators) or not fi.params:
            continue
        body = fi.node
        takes = [c for c in A.body_calls(body) if A.call_attr(c) == "_mutex_for_invocation" and [A.norm(a) for a in c.args] == [fi.params[0]]]
        direct = [c for c in A.body_calls(body) if A.call_attr(c) == "acquire" and A.norm(A.call_recv(c)) == fi.params[0]]
        if not takes and not direct:
            continue
        if direct and not takes:
            name = "mutex:" + name
        ok = False
        for n in A.walk_body(body):
            if isinstance(n, ast.Try) and n.finalbody and any(isinstance(y, (ast.Yield,)) for b in n.body for y in ast.walk(b)) \
                    and any(isinstance(c, ast.Call) and A.call_attr(c) == "release" for f in n.finalbody for c in ast.walk(f)) \
                    and any(A.call_attr(c) == "acquire" for c in A.body_calls(body)):
                ok = True
            if isinstance(n, ast.With) and any(isinstance(y, ast.Yield) for b in n.body for y in ast.walk(b)):
                ok = True
        if ok:
            out.add(name)
    return out


class LockRegions:
    """Where, inside one method, the cache lock is held -- decided on the CFG (all statements may raise), not on the
    spelling of the critical section.  The lock is held at a CFG node when the node sits inside `with self.<lock>:` (or
    inside a with-block of a lock-holding context-manager method of the class), or when on EVERY path from the entry the
    last lock event before the node is a successful `self.<lock>.acquire()` (no arguments: blocking) that no
    `self.<lock>.release()` has undone.  `acquire(); try: ... finally: release()`, a with-block and the lock-holding
    decorator are thereby the same thing to the rules."""

    def __init__(self, ck, m, lock, lock_cms=(), me="self", is_lock=None):
        """`lock`: the lock is the field `<me>.<lock>`; or `is_lock`: a predicate on expressions saying "this designates the
        lock" (a module-level lock, the per-call mutex of an invocation, ...), asked for the expression as written and,
        for a local, for what it was assigned."""
        self.m, self.lock, self.lock_cms, self.me = m, lock, set(lock_cms), me
        self.lock_pred = is_lock
        self.fa = fa = FA(ck, m, exc_mode="all")
        cfg = fa.cfg
        lock = lock or is_lock
        self.stack_acquires = set()
        self.withs = [w for w in fa.stmts((ast.With,)) if lock and (any(self.is_lock_item(i.context_expr) for i in w.items) or self._exit_stack_holds(w))]
        self.acquires, self.releases = [], []
        for n in cfg.nodes:
            if n.ast is None or n.kind not in ("stmt", "test", "for", "with"):
                continue
            for c in self._own_calls(n):
                if lock and isinstance(c.func, ast.Attribute) and c.func.attr in ("acquire", "release") and self._is_lock(c.func.value):
                    if c.func.attr == "release":
                        self.releases.append(n.id)
                    elif c.func.attr == "acquire" and n.kind == "stmt" and isinstance(n.ast, ast.Expr) and n.ast.value is c and not c.args \
                            and all(k.arg == "blocking" and isinstance(k.value, ast.Constant) and k.value.value is True for k in c.keywords):
                        self.acquires.append(n.id)
        self._lex = {}
        self.held_in = self._solve()

    def _is_lock(self, e) -> bool:
        if self.lock_pred is not None:
            if self.lock_pred(e):
                return True
            if isinstance(e, ast.Name):
                x = safe_expand(self.fa, e)
                return x is not e and bool(self.lock_pred(x))
            return False
        if isinstance(e, ast.Name):
            e = safe_expand(self.fa, e)  # `lk = self._lock` ... `lk.acquire()`
        return isinstance(e, ast.Attribute) and e.attr == self.lock and isinstance(e.value, ast.Name) and e.value.id == self.me

    def _exit_stack_holds(self, w) -> bool:
        """`with ExitStack() as s:` whose body starts by handing the lock to the stack -- `s.enter_context(<lock>)`, or
        `<lock>.acquire()` followed by `s.callback(<lock>.release)` -- holds the lock from there to the end of the block,
        exactly like `with <lock>:`."""
        stacks = [i.optional_vars.id for i in w.items if isinstance(i.context_expr, ast.Call) and A.call_attr(i.context_expr) == "ExitStack"
                  and isinstance(i.optional_vars, ast.Name)]
        body = A.sig_stmts(w.body)
        if not stacks or not body:
            return False

        def stack_call(st, name):
            if isinstance(st, ast.Expr) and isinstance(st.value, ast.Call) and A.call_attr(st.value) == name \
                    and isinstance(A.call_recv(st.value), ast.Name) and A.call_recv(st.value).id in stacks and len(st.value.args) == 1:
                return st.value.args[0]
            return None

        a0 = stack_call(body[0], "enter_context")
        if a0 is not None and self._is_lock(a0):
            return True
        if len(body) >= 2 and isinstance(body[0], ast.Expr) and isinstance(body[0].value, ast.Call) and A.call_attr(body[0].value) == "acquire" \
                and not body[0].value.args and not body[0].value.keywords and self._is_lock(A.call_recv(body[0].value)):
            cb = stack_call(body[1], "callback")
            if isinstance(cb, ast.Attribute) and cb.attr == "release" and self._is_lock(cb.value):
                self.stack_acquires.add(id(body[0]))
                return True
        return False

    def _own_calls(self, n):
        if n.kind == "for":
            roots = [n.ast.iter]
        elif n.kind == "with":
            roots = [i.context_expr for i in n.ast.items]
        else:
            roots = [n.ast]
        return [c for r in roots for c in A.calls_in(r)]

    def is_lock_item(self, e) -> bool:
        if self._is_lock(e):
            return True
        return isinstance(e, ast.Call) and isinstance(e.func, ast.Attribute) and isinstance(e.func.value, ast.Name) and e.func.value.id == self.me \
            and e.func.attr in self.lock_cms and not e.args and not e.keywords

    def lexical_with(self, astnode):
        """the outermost lock with-block whose BODY contains `astnode` (None when there is none)"""
        k = id(astnode)
        if k not in self._lex:
            found = None
            child, w = astnode, self.fa.pm.get(astnode)
            while w is not None:
                if isinstance(w, ast.With) and w in self.withs and child in w.body:
                    found = w
                child, w = w, self.fa.pm.get(w)
            self._lex[k] = found
        return self._lex[k]

    def _solve(self):
        cfg = self.fa.cfg
        acq, rel = set(self.acquires), set(self.releases)
        lex = {n.id: (self.lexical_with(n.ast) if n.ast is not None else None) for n in cfg.nodes}
        held = {n.id: True for n in cfg.nodes}
        held[cfg.entry] = False

        def out(p, d, label):
            wp = lex[p]
            if wp is not None and lex[d] is not wp:
                # leaving a with-block of the lock: back to what held before the block was entered
                return all(held[i] for i in cfg.nodes_of(wp)) if cfg.nodes_of(wp) else False
            if wp is not None:
                return True
            if p in rel:
                return False
            if p in acq:
                return True if label != "exc" else held[p]
            pn = cfg.node(p)
            if pn.kind == "with" and pn.ast in self.withs and label != "exc":
                return True
            return held[p]

        live = cfg.reachable_nodes()
        changed = True
        while changed:
            changed = False
            for n in cfg.nodes:
                if n.id == cfg.entry or n.id not in live or not held[n.id]:
                    continue
                if lex[n.id] is not None:
                    continue
                if not all(out(p, n.id, l) for (p, l) in cfg.pred[n.id] if p in live):
                    held[n.id] = False
                    changed = True
        return held

    def held(self, astnode) -> bool:
        """Is the lock held whenever `astnode` (an expression or statement of the method) is evaluated?"""
        if self.lexical_with(astnode) is not None:
            return True
        ids = self.fa.nodes(astnode)
        return bool(ids) and all(self.held_in[i] or self.lexical_with(self.fa.cfg.node(i).ast) is not None for i in ids)

    def sections(self):
        """The critical sections of the method: [(anchor ast node, [ast roots evaluated while it holds the lock])], one per
        point at which the lock goes from not held to held (a with-block entered / an acquire executed without the lock)."""
        cfg = self.fa.cfg
        out = []
        for w in self.withs:
            ids = self.fa.nodes(w)
            if self.lexical_with(w) is None and ids and not all(self.held_in[i] for i in ids):
                out.append((w, list(w.body)))
        for a in self.acquires:
            if a not in cfg.reachable_nodes() or self.held_in[a] or self.lexical_with(cfg.node(a).ast) is not None:
                continue
            starts = [d for (d, l) in cfg.succ[a] if l != "exc"]
            inside = cfg.reach(starts, removed=set(self.releases))
            roots = []
            for i in sorted(inside):
                n = cfg.node(i)
                if n.ast is None or n.kind not in ("stmt", "test", "for", "with"):
                    continue
                if n.kind == "for":
                    roots.append(n.ast.iter)
                elif n.kind == "with":
                    roots += [it.context_expr for it in n.ast.items]
                else:
                    roots.append(n.ast)
            out.append((cfg.node(a).ast, roots))
        return out

    def leaks(self):
        """acquire statements after which some path leaves the method (normally or by an exception) without a release"""
        cfg = self.fa.cfg
        bad = []
        for a in self.acquires:
            if a not in cfg.reachable_nodes() or id(cfg.node(a).ast) in self.stack_acquires:
                continue
            starts = [d for (d, l) in cfg.succ[a] if l != "exc"]
            r = cfg.reach(starts, removed=set(self.releases))
            if cfg.exit in r or cfg.raise_exit in r:
                bad.append(cfg.node(a).ast)
        return bad


def _lock_holding_cm_methods(ck, cm, lock):
    """@contextmanager methods of the cache class that yield only while holding the cache lock."""
    out = set()
    for name, m in cm.cls.methods.items():
        if not any("contextmanager" in d for d in m.decorators) or len(m.params) != 1:
            continue
        ys = [n for n in A.walk_body(m.node) if isinstance(n, (ast.Yield, ast.YieldFrom))]
        if not ys:
            continue
        lr = LockRegions(ck, m, lock)
        if all(lr.held(y) for y in ys) and not lr.leaks():
            out.add(name)
    return out


def check_cache_guarded(ck, cm: CacheModel, rule="C09.R3"):
    ck.rule(rule, "cache guarded-by: every read or write of the mutable MemoryCache slots happens while the cache lock "
                  "is held (with-block, acquire ... finally release, or lock-holding decorator on a public method; private "
                  "helpers only called from guarded code); the lock is created in __init__ and is re-entrant", 8)
    mod = ck.repo.module("storage_base")
    decos = _lock_decorators(ck, mod)
    lock_fields = [f for (f, kind) in cm.locks]
    rlock = [f for (f, kind) in cm.locks if kind == "RLock"]
    ck.ob(rule, CACHE_CLASS + "::lock-field", bool(rlock),
          "re-entrant lock %s created in __init__" % rlock if rlock else
          "MemoryCache has no (re-entrant) lock field: its dict / deque / counter are updated by concurrent callers without mutual exclusion",
          A.loc(cm.init, cm.init.node))
    lock = rlock[0] if rlock else (lock_fields[0] if lock_fields else None)
    lock_cms = _lock_holding_cm_methods(ck, cm, lock) if lock else set()
    # classify methods
    guarded_whole = set()
    for name, m in cm.cls.methods.items():
        for d in m.decorators:
            if d in decos and decos[d] == lock:
                guarded_whole.add(name)
    # per-method: accesses to mutable slots and calls of sibling methods, and whether the lock is held there
    unguarded_access = {}
    calls_to = {}
    regions_of = {}
    for name, m in cm.cls.methods.items():
        if name == "__init__":
            continue
        lr = regions_of[name] = LockRegions(ck, m, lock, lock_cms)
        fa = lr.fa
        unguarded_access[name] = [n for n in A.walk_body(m.node) if self_attr(n) in cm.mutable_slots and not lr.held(n)]
        calls_to[name] = [(c.func.attr, lr.held(c)) for c in fa.calls()
                          if isinstance(c.func, ast.Attribute) and isinstance(c.func.value, ast.Name) and c.func.value.id == "self" and c.func.attr in cm.cls.methods]
        # a lock taken by hand is given back on every way out (an exception included): otherwise every other thread blocks for good
        for a in lr.leaks():
            ck.ob(rule, fa.key(a, "lock-released"), False,
                  "%s acquires the cache lock and can leave (return or exception) without releasing it: every other thread that uses the cache "
                  "then blocks forever" % name, fa.where(a))
    # fixpoint: a private method is "called only under the lock" if every call site is guarded
    safe = set(guarded_whole)
    changed = True
    while changed:
        changed = False
        for name in cm.cls.methods:
            if name in safe or not name.startswith("_") or name.startswith("__"):
                continue
            sites = [(caller, ins) for caller, lst in calls_to.items() for (callee, ins) in lst if callee == name]
            if sites and all(ins or caller in safe for (caller, ins) in sites):
                safe.add(name)
                changed = True
    # one critical section per mutating operation: a method that writes cache state inside
    # critical sections of its own must do all its state accesses in ONE such section
    # (decisions taken in an earlier section are stale when the next one starts)
    for name, m in sorted(cm.cls.methods.items()):
        if name == "__init__" or name in guarded_whole:
            continue
        lr = regions_of[name]
        fa = lr.fa
        regions = lr.sections()
        # calls (outside any lock region) to helpers that take the lock themselves are critical
        # sections of their own
        helper_sections = [c for c in fa.calls() if isinstance(c.func, ast.Attribute) and isinstance(c.func.value, ast.Name) and c.func.value.id == "self"
                           and c.func.attr in guarded_whole and not lr.held(c)
                           and c.func.attr in (cm.evict.name, cm.insert.name, cm.mark_used_name, "_put_ref", "forget_call", "forget_function", "forget_everything")]
        if len(regions) + len(helper_sections) < 2:
            continue
        def writes_in(roots):
            out = []
            for w in roots:
                for n in A.walk_local(w):
                    if isinstance(n, (ast.Assign, ast.AugAssign, ast.Delete)):
                        ts = n.targets if isinstance(n, (ast.Assign, ast.Delete)) else [n.target]
                        for t in ts:
                            b = t.value if isinstance(t, ast.Subscript) else t
                            if self_attr(b) in cm.mutable_slots:
                                out.append(n)
                    if isinstance(n, ast.Call) and isinstance(n.func, ast.Attribute):
                        if self_attr(n.func.value) in cm.mutable_slots and n.func.attr in ("append", "remove", "popleft", "pop", "clear", "appendleft"):
                            out.append(n)
                        if isinstance(n.func.value, ast.Name) and n.func.value.id == "self" and n.func.attr in (cm.evict.name, cm.insert.name, cm.mark_used_name, "_put_ref"):
                            out.append(n)
            return out
        wr = [anchor for (anchor, roots) in regions if writes_in(roots)] + helper_sections
        ok1 = len(wr) <= 1
        ck.ob(rule, m.qual + "::one-critical-section", ok1,
              "state is updated in a single critical section" if ok1 else
              "%s updates cache state in %d separate critical sections: the eviction / room decisions of the first are stale when the second "
              "inserts (another thread can put the same key in between: the size is counted twice and the key is queued twice)" % (name, len(wr)),
              A.loc(m, wr[1] if len(wr) > 1 else m.node))
    for name, acc in sorted(unguarded_access.items()):
        m = cm.cls.methods[name]
        if not acc and not any(callee for (callee, ins) in calls_to[name]):
            continue
        direct_ok = (name in safe) or not acc
        # calls to helpers that touch state must be guarded too
        helper_bad = [callee for (callee, ins) in calls_to[name]
                      if not ins and name not in safe and (unguarded_access.get(callee) or callee in safe and callee.startswith("_") and callee not in guarded_whole)
                      and callee not in guarded_whole]
        ok = direct_ok and not helper_bad
        ck.ob(rule, m.qual + "::guarded", ok,
              "all accesses to %s happen under self.%s" % (cm.mutable_slots, lock) if ok else
              "%s reads/writes cache state (%s) without holding the cache lock" % (name, A.short(acc[0], 40) if acc else "via self.%s()" % helper_bad[0]),
              A.loc(m, acc[0] if acc else m.node))
    return lock, decos


_CONSUMERS = {"next", "list", "tuple", "set", "frozenset", "sorted", "sum", "any", "all", "max", "min", "dict", "deque", "enumerate", "zip", "chain"}
_DRAINERS = _CONSUMERS - {"enumerate", "zip", "chain"}


class SectionFlow:
    """What runs on behalf of ONE call of a host function (memento_run_local): the host's own statements plus the helpers
    that are new with respect to the reference inventory and that the host mentions, directly or through other such
    helpers -- nested functions and closures handed on as thunks, module-level helpers, the methods of a method object
    (a new class), generators, functions listed in a module-level dispatch table.  (The front end inlines most new
    helpers into the host; this covers what it leaves as calls.)

    A helper's code is taken to run where the helper is MENTIONED (called, or handed on by name); a generator's code where
    the generator object is consumed.  The questions the C09.R2 obligations ask are then asked of the whole flow:
    which store / body calls belong to the call, whether each of them runs while the per-call mutex is held, and whether
    a store re-check precedes every run of the body."""

    def __init__(self, ck, host_fa: FA, held):
        from ..inline import load_inventory
        self.ck, self.host, self.held = ck, host_fa, held
        repo = ck.repo
        known = load_inventory().get("functions")
        mod = host_fa.fi.module
        self.mod = mod
        self.new = {}
        if known is not None:
            known = set(known)
            for fi in mod.all_funcs():
                if fi.qual not in known and fi is not host_fa.fi:
                    self.new[fi.qual] = fi
        self.new_methods = {}
        self.new_classes = {}
        for fi in self.new.values():
            if fi.cls is not None and fi.parent is None:
                self.new_methods.setdefault(fi.name, []).append(fi)
                self.new_classes.setdefault(fi.cls.name, []).append(fi)
        self.fas = {host_fa.fi.qual: host_fa}
        self._refs = {}
        # the flow: closure of the host under "mentions a new helper"
        self.flow = [host_fa.fi]
        todo = [host_fa.fi]
        while todo:
            f = todo.pop()
            for (g, _x) in self.refs(f):
                if g not in self.flow:
                    self.flow.append(g)
                    todo.append(g)
        # mentions of the flow's helpers from code that is not part of the flow (another reference function, module level)
        self.outside = {}
        helpers = [g for g in self.flow if g is not host_fa.fi]
        if helpers:
            for fi in mod.all_funcs():
                if fi in self.flow or any(self._inside(fi, g) for g in self.flow):
                    continue
                for (g, x) in self.refs(fi):
                    if g in helpers:
                        self.outside.setdefault(g.qual, (fi, x))

    @staticmethod
    def _inside(fi, g) -> bool:
        p = fi.parent
        while p is not None:
            if p is g:
                return True
            p = p.parent
        return False

    def fa(self, fi) -> FA:
        if fi.qual not in self.fas:
            self.fas[fi.qual] = FA(self.ck, fi)
        return self.fas[fi.qual]

    def _table_members(self, name, _seen=()):
        v = self.mod.assigns.get(name)
        out = []
        if v is None or name in _seen or not isinstance(v, (ast.Dict, ast.List, ast.Tuple, ast.Set, ast.Call)):
            return out
        for x in ast.walk(v):
            if isinstance(x, ast.Name) and isinstance(x.ctx, ast.Load):
                g = self.mod.functions.get(x.id)
                if g is not None and g.qual in self.new:
                    out.append(g)
        return out

    def refs(self, f):
        """[(new helper, the AST node that mentions it)] for the own statements of `f`"""
        if f.qual in self._refs:
            return self._refs[f.qual]
        out = []
        for x in A.walk_body(f.node):
            if isinstance(x, ast.Name) and isinstance(x.ctx, ast.Load):
                g, p = None, f
                while p is not None and g is None:
                    g = p.nested.get(x.id)
                    p = p.parent
                if g is None:
                    g = self.mod.functions.get(x.id)
                if g is not None and g.qual in self.new:
                    out.append((g, x))
                    continue
                if g is None and x.id in self.new_classes:
                    # building the method object runs its constructor
                    for m in self.new_classes[x.id]:
                        if m.name in ("__init__", "__post_init__", "__new__"):
                            out.append((m, x))
                    continue
                if g is None:
                    for m in self._table_members(x.id):
                        out.append((m, x))
            elif isinstance(x, ast.Attribute) and isinstance(x.ctx, ast.Load) and x.attr in self.new_methods:
                for m in self.new_methods[x.attr]:
                    out.append((m, x))
        self._refs[f.qual] = out
        return out

    @staticmethod
    def is_generator(fi) -> bool:
        if any("contextmanager" in d for d in fi.decorators):
            return False  # entered and left by the with-statement that mentions it
        return any(isinstance(n, (ast.Yield, ast.YieldFrom)) for n in A.walk_body(fi.node))

    def exec_sites(self, f, g):
        """AST nodes of `f` at which code of helper `g` may run: its mentions; for a generator function, the places where the
        generator object is consumed (None: a mention whose consumption cannot be seen) -- as pairs (node where it runs, mention)."""
        fa = self.fa(f)
        out = []
        for (h, x) in self.refs(f):
            if h is not g:
                continue
            if not self.is_generator(g):
                out.append((x, x))
                continue
            out += [(site, x) for site in self._consumptions(fa, x)]
        return out

    def _consumptions(self, fa: FA, x, _depth=0):
        # upwards from the mention to its statement: a draining call / a loop / `yield from` consumes right there
        p, child = fa.pm.get(x), x
        combinator = False
        while p is not None and not isinstance(p, ast.stmt):
            if isinstance(p, ast.Call) and isinstance(p.func, ast.Name) and p.func.id in _DRAINERS and child is not p.func:
                return [p]
            if isinstance(p, ast.YieldFrom):
                return [p]
            if isinstance(p, ast.comprehension) and child is p.iter:
                return [p.iter]
            child, p = p, fa.pm.get(p)
        if isinstance(p, ast.For) and fa.inside(x, p.iter):
            return [p.iter]
        if isinstance(p, ast.Assign) and len(p.targets) == 1 and isinstance(p.targets[0], ast.Name) and _depth < 3:
            # kept in a local: consumed where that local is consumed; handing the local out of the function is not a consumption
            nm = p.targets[0].id
            out = []
            for u in A.walk_body(fa.node):
                if isinstance(u, ast.Name) and u.id == nm and isinstance(u.ctx, ast.Load):
                    out += self._consumptions(fa, u, _depth + 1)
            return out or [None]
        return [None]

    # -- events ------------------------------------------------------------------------------------------------
    def calls_named(self, names, recv=None):
        """[(function of the flow, call)] for the calls of a method / function named in `names`; in the host the receiver must be
        `recv` (when given), in a helper any receiver counts (the helper was handed the host's objects)"""
        out = []
        for f in self.flow:
            fa = self.fa(f)
            for c in fa.calls():
                if A.call_attr(c) not in names:
                    continue
                if f is self.host.fi and recv is not None:
                    r = A.call_recv(c)
                    if r is None or _xs(fa, _through_new_instance(self, fa, r, c), c) != recv:
                        continue
                out.append((f, c))
        return out

    def in_section(self):
        """{qual: bool} -- does the code of each function of the flow run only while the per-call mutex is held?  (greatest
        fixpoint: a helper does when every place where its code may run is held in the host or lies in a helper that does)"""
        ok = {f.qual: True for f in self.flow}
        ok[self.host.fi.qual] = False  # the host is judged statement by statement
        for q in self.outside:
            ok[q] = False
        changed = True
        while changed:
            changed = False
            for g in self.flow:
                if g is self.host.fi or not ok[g.qual]:
                    continue
                good = True
                for f in self.flow:
                    for (x, _m) in self.exec_sites(f, g):
                        if x is None:
                            good = False
                        elif f is self.host.fi:
                            good = good and self.held(x)
                        elif f is not g:
                            good = good and ok[f.qual]
                if not good:
                    ok[g.qual] = False
                    changed = True
        return ok

    # -- order: a store re-check precedes every run of the body -------------------------------------------------
    def recheck_order(self, recheck_calls, body_calls):
        """-> [(function, AST node)] places where the body may run without a re-check of the store before it, anywhere in the flow"""
        flow = self.flow
        direct_r = {f.qual: [c for (g, c) in recheck_calls if g is f and self.fa(f).unconditional(c)] for f in flow}
        direct_b = {f.qual: [c for (g, c) in body_calls if g is f] for f in flow}
        # may the body run inside f?
        may_b = {f.qual: bool(direct_b[f.qual]) for f in flow}
        changed = True
        while changed:
            changed = False
            for f in flow:
                if not may_b[f.qual] and any(may_b[g.qual] for (g, _x) in self.refs(f) if g in flow):
                    may_b[f.qual] = changed = True
        # does every run of f re-check the store (before it returns / yields anything)?  least fixpoint
        sure_r = {f.qual: False for f in flow}

        def rnodes(f):
            fa = self.fa(f)
            out = {}
            for c in direct_r[f.qual]:
                for i in fa.nodes(c):
                    out.setdefault(i, []).append(c)
            for g in flow:
                if g is f or not sure_r[g.qual]:
                    continue
                for (x, m) in self.exec_sites(f, g):
                    if x is None:
                        continue
                    # the helper is really called (not just handed on), unconditionally within its statement
                    call = fa.pm.get(m)
                    if isinstance(call, ast.Call) and call.func is m and fa.unconditional(x) and fa.unconditional(m):
                        for i in fa.nodes(x):
                            out.setdefault(i, []).append(m)
            return out

        changed = True
        while changed:
            changed = False
            for f in flow:
                if sure_r[f.qual] or f is self.host.fi:
                    continue
                fa = self.fa(f)
                rn = set(rnodes(f))
                if not rn:
                    continue
                stops = [fa.cfg.exit] + [i for y in A.walk_body(f.node) if isinstance(y, (ast.Yield, ast.YieldFrom)) for i in fa.nodes(y)]
                if all(fa.cfg.must_pass(rn, t) for t in stops):
                    sure_r[f.qual] = changed = True

        def before(a, b) -> bool:
            return (getattr(a, "lineno", 0), getattr(a, "col_offset", 0)) < (getattr(b, "lineno", 0), getattr(b, "col_offset", 0))

        def covered_at(f, x, m=None) -> bool:
            """a re-check has surely happened when the code at AST node `x` of `f` (mentioned at `m`) runs"""
            fa = self.fa(f)
            rn = rnodes(f)
            ids = fa.nodes(x)
            if not ids:
                return True  # unreachable code
            for i in ids:
                if fa.cfg.must_pass(set(rn) - {i}, i):
                    continue
                if i in rn and any(before(r, m if m is not None else x) for r in rn[i]):
                    continue  # same statement, evaluated left to right: the re-check comes first
                return False
            return True

        guarded = {f.qual: f is not self.host.fi and f.qual not in self.outside for f in flow}  # entered only after a re-check
        changed = True
        while changed:
            changed = False
            for g in flow:
                if not guarded[g.qual]:
                    continue
                for f in flow:
                    if f is g:
                        continue
                    for (x, m) in self.exec_sites(f, g):
                        if guarded[g.qual] and (x is None or not (covered_at(f, x, m) or guarded[f.qual])):
                            guarded[g.qual] = False
                            changed = True
        bad = []
        for f in flow:
            if guarded[f.qual]:
                continue
            sites = [(c, c) for c in direct_b[f.qual]]
            for g in flow:
                if g is not f and may_b[g.qual]:
                    sites += [(x, m) for (x, m) in self.exec_sites(f, g) if x is not None]
            for (x, m) in sites:
                if not covered_at(f, x, m):
                    bad.append((f, x))
        return bad


def _through_new_instance(flow, fa: FA, e, at):
    """`obj.field` where `obj` is a local bound once to `C(...)`, C being a class that is new w.r.t. the reference inventory
    (a method object / parameter object) whose constructor stores a parameter unchanged in that field and nothing else ever
    assigns the field: the argument the object was built with.  Anything else: `e` itself."""
    if not (isinstance(e, ast.Attribute) and isinstance(e.value, ast.Name)):
        return e
    ctor = safe_expand(fa, e.value, at)
    if not (isinstance(ctor, ast.Call) and isinstance(ctor.func, ast.Name) and ctor.func.id in flow.mod.classes):
        return e
    ci = flow.mod.classes[ctor.func.id]
    from ..inline import load_inventory
    if ci.qual in set(load_inventory().get("classes") or [ci.qual]):
        return e
    # the field is bound by the constructor only
    for n in ast.walk(flow.mod.tree):
        if isinstance(n, ast.Attribute) and n.attr == e.attr and isinstance(n.ctx, (ast.Store, ast.Del)):
            init = ci.methods.get("__init__")
            if init is None or not any(n is y for y in ast.walk(init.node)):
                return e
    init = ci.methods.get("__init__")
    if init is not None:
        params = list(init.params[1:])
        src = None
        for st in A.all_stmts(init.node):
            for (t, v) in assign_pairs(st):
                if isinstance(t, ast.Attribute) and t.attr == e.attr and isinstance(t.value, ast.Name) and t.value.id == init.params[0]:
                    if src is not None or not (isinstance(v, ast.Name) and v.id in params):
                        return e
                    src = v.id
        if src is None:
            return e
    else:
        # generated constructor (dataclass / NamedTuple): the declared fields, in order, are the parameters
        params = [st.target.id for st in ci.node.body if isinstance(st, ast.AnnAssign) and isinstance(st.target, ast.Name)]
        decos = [A.norm(d.func if isinstance(d, ast.Call) else d).split(".")[-1] for d in ci.node.decorator_list]
        if "dataclass" not in decos and not any(b.split(".")[-1] == "NamedTuple" for b in ci.base_exprs):
            return e
        if "__post_init__" in ci.methods and any(isinstance(n, ast.Attribute) and n.attr == e.attr and isinstance(n.ctx, ast.Store)
                                                 for n in ast.walk(ci.methods["__post_init__"].node)):
            return e
        src = e.attr
        if src not in params:
            return e
    if any(isinstance(a, ast.Starred) for a in ctor.args) or any(k.arg is None for k in ctor.keywords):
        return e
    v = A.arg_or_kw(ctor, params.index(src), src)
    return v if v is not None else e


def _held_by_decorator(ck, mod, fi, holders, mutex_wrappers) -> bool:
    """Is `fi` (whose second parameter is the invocation) decorated by a module-level decorator whose wrapper calls the
    decorated function only while holding the per-call mutex of the invocation it passes on -- `with
    _mutex_for_invocation(inv): return fn(ctx, inv, ...)`, the mutex taken by with-block / acquire-finally-release / ExitStack /
    a mutex-holding context manager, the arguments named or passed on as `*args`?"""
    if len(fi.params) < 2:
        return False
    for d in fi.node.decorator_list:
        dfi = mod.functions.get(d.id) if isinstance(d, ast.Name) else None
        if dfi is None or len(dfi.params) != 1:
            continue
        top = A.sig_stmts(dfi.node.body)
        inner = [n for n in top if isinstance(n, ast.FunctionDef)]
        rets = [n for n in top if isinstance(n, ast.Return)]
        if len(inner) != 1 or len(rets) != 1 or len(top) != 2 or A.norm(rets[0].value) != inner[0].name:
            continue
        wfi = dfi.nested.get(inner[0].name)
        if wfi is None:
            continue
        w = FA(ck, wfi)
        calls = [c for c in w.calls() if isinstance(c.func, ast.Name) and c.func.id == dfi.params[0]]
        # the decorated function is not handed on in any other way
        mentions = [n for n in A.walk_body(wfi.node) if isinstance(n, ast.Name) and n.id == dfi.params[0]]
        if not calls or len(mentions) != len(calls):
            continue
        va = wfi.node.args.vararg.arg if wfi.node.args.vararg else None
        inv_texts = set()
        for c in calls:
            kw = A.kwarg(c, fi.params[1])
            if kw is not None and isinstance(kw, ast.Name) and kw.id in wfi.params:
                inv_texts.add(kw.id)
            elif len(c.args) >= 2 and not any(isinstance(a, ast.Starred) for a in c.args[:2]) and isinstance(c.args[1], ast.Name) and c.args[1].id in wfi.params:
                inv_texts.add(c.args[1].id)
            elif va and c.args and isinstance(c.args[0], ast.Starred) and isinstance(c.args[0].value, ast.Name) and c.args[0].value.id == va:
                inv_texts.add("%s[1]" % va)
            else:
                inv_texts.add(None)
        if len(inv_texts) != 1 or None in inv_texts:
            continue
        inv = next(iter(inv_texts))

        def holds(e, w=w, inv=inv):
            if isinstance(e, ast.Name) and w.nodes(e):
                x0 = safe_expand(w, e)
                if not isinstance(x0, ast.Name):
                    return holds(x0)
            if isinstance(e, ast.Call) and A.call_attr(e) in holders and len(e.args) == 1 and not e.keywords and _xs(w, e.args[0], e) == inv:
                return True
            if isinstance(e, ast.Call) and A.call_attr(e) in mutex_wrappers and len(e.args) == 1:
                return holds(e.args[0])
            return False

        lr = LockRegions(ck, wfi, None, is_lock=holds)
        # nothing rebinds the wrapper's parameters between taking the mutex and the call
        rebinds = [n for n in A.walk_body(wfi.node) if isinstance(n, ast.Name) and isinstance(n.ctx, (ast.Store, ast.Del)) and n.id in wfi.params]
        if len(lr.sections()) == 1 and not lr.leaks() and all(lr.held(c) for c in calls) and not rebinds:
            return True
    return False


def mutex_table_names(ck, mod):
    """(table, lock) by role when _mutex_for_invocation itself no longer exists: the module-level dict whose
    values are locks (a defaultdict of RLock, or a dict that some function stores RLock() into) and the
    module-level lock."""
    table = lock = None
    for name, v in mod.assigns.items():
        if isinstance(v, ast.Call) and A.call_attr(v) in ("RLock", "Lock"):
            lock = name
        elif isinstance(v, (ast.Call, ast.Dict)):
            head = A.call_attr(v) if isinstance(v, ast.Call) else "dict"
            if head in ("defaultdict", "dict", "OrderedDict", "WeakValueDictionary"):
                locky = any(isinstance(c, ast.Call) and A.call_attr(c) in ("RLock", "Lock") for c in ast.walk(v))
                if not locky:
                    for fi in mod.all_funcs():
                        for st in A.all_stmts(fi.node):
                            if isinstance(st, ast.Assign) and any(isinstance(t, ast.Subscript) and isinstance(t.value, ast.Name) and t.value.id == name for t in st.targets) \
                                    and any(isinstance(c, ast.Call) and A.call_attr(c) in ("RLock", "Lock") for c in ast.walk(st.value)):
                                locky = True
                if locky:
                    table = name
    ck.need(table and lock, "runner_local: per-call mutex table / its lock not found")
    return table, lock


def mutex_table(ck, mod):
    """(table name, table lock name, kind of the per-call mutexes) of runner_local, by role: the table is
    the module-level container that _mutex_for_invocation looks the mutex up in, its lock the
    module-level lock that function holds meanwhile."""
    mi = ck.repo.try_func(RL + "._mutex_for_invocation")
    if mi is None:
        # the lookup was inlined into its caller and removed: find table and lock by role
        t_, l_ = mutex_table_names(ck, mod)
        kind_ = None
        for n_ in ast.walk(mod.tree):
            if isinstance(n_, ast.Call) and A.call_attr(n_) in ("RLock", "Lock") and not (isinstance(mod.assigns.get(l_), ast.Call) and n_ is mod.assigns.get(l_)):
                kind_ = A.call_attr(n_)
        ck.need(kind_, "runner_local: kind of the per-call mutexes not found")
        return t_, l_, kind_
    used = [n.id for n in A.walk_body(mi.node) if isinstance(n, ast.Name)]
    table = table_lock = kind = None
    for name, v in mod.assigns.items():
        if name not in used or not isinstance(v, (ast.Call, ast.Dict)):
            continue
        head = A.call_attr(v) if isinstance(v, ast.Call) else "dict"
        if head in ("RLock", "Lock"):
            table_lock = name
        elif head in ("defaultdict", "dict", "OrderedDict", "WeakValueDictionary"):
            table = name
            for c in ast.walk(v):
                if isinstance(c, ast.Call) and A.call_attr(c) in ("RLock", "Lock"):
                    kind = A.call_attr(c)
    if table_lock is None:
        # the function no longer mentions a lock: the table lock is the module's only lock object
        locks = [name for name, v in mod.assigns.items() if isinstance(v, ast.Call) and A.call_attr(v) in ("RLock", "Lock")]
        if len(locks) == 1:
            table_lock = locks[0]
    if kind is None:
        for c in A.body_calls(mi.node):
            if A.call_attr(c) in ("RLock", "Lock"):
                kind = A.call_attr(c)
    ck.need(table and table_lock and kind, "runner_local: per-call mutex table / its lock not found")
    return table, table_lock, kind


def check_mutex_table_stable(ck, R):
    """One mutex per invocation key for the life of the process: the table only ever grows.  If an
    entry can be dropped (bounded / LRU / weak table, clear) while a thread is still inside the
    body under that mutex, the next caller of the same invocation gets a fresh mutex, does not wait,
    and runs the body a second time."""
    mod = ck.repo.module(RL)
    table, table_lock, kind = mutex_table(ck, mod)
    drops = []
    for fi in mod.all_funcs():
        for n in A.walk_body(fi.node):
            if isinstance(n, ast.Call) and isinstance(n.func, ast.Attribute) and isinstance(n.func.value, ast.Name) and n.func.value.id == table \
                    and n.func.attr in ("pop", "popitem", "clear", "__delitem__"):
                drops.append((fi, n))
            if isinstance(n, ast.Delete) and any(isinstance(t, ast.Subscript) and isinstance(t.value, ast.Name) and t.value.id == table for t in n.targets):
                drops.append((fi, n))
            if isinstance(n, ast.Global) and table in n.names:
                drops.append((fi, n))
    v = mod.assigns.get(table)
    weak = isinstance(v, ast.Call) and "Weak" in (A.call_attr(v) or "")
    ok = not drops and not weak
    at = A.loc(drops[0][0], drops[0][1]) if drops else mod.relpath
    ck.ob(R, RL + "::mutex-table-insert-only", ok, "the per-call mutex table only grows (%s)" % table if ok else
          "a per-call mutex can leave the table (%s): while one thread is still inside the body under that mutex, the next caller of the same "
          "invocation is handed a fresh mutex, does not wait, and runs the body again" % ("weak table" if weak else A.short(drops[0][1], 50)), at)


def check(ck):
    from .memo import check_new_memo_tables
    ck.run(check_new_memo_tables, ck, "C09.M1", ('runner_local', 'storage_base', 'call_stack'))
    R1, R2, R3, R4, R5 = ("C09.R%d" % i for i in range(1, 6))
    ck.rule(R1, "the per-call mutex table is only touched while its table lock is held", 1)
    ck.rule(R2, "per-call critical section: store re-check, body call, is_memoized and memoize all happen inside the "
                "with-block of the per-call mutex; that mutex is looked up by (versioned name, arg hash) and is re-entrant", 6)
    ck.rule(R4, "lock order: nothing reachable while the table lock or the cache lock is held can take a per-call mutex "
                "or run user code", 2)
    ck.rule(R5, "call stacks are created and stored only in thread-local storage", 3)
    mod = ck.repo.module(RL)
    # ---- R1
    table, table_lock, table_kind = mutex_table(ck, mod)
    def is_table_lock(e):
        return isinstance(e, ast.Name) and e.id == table_lock

    table_regions = {}
    for fi in mod.all_funcs():
        fa = FA(ck, fi)
        uses = [n for n in A.walk_body(fi.node) if isinstance(n, ast.Name) and n.id == table]
        if not uses:
            continue
        # held on the CFG: `with LOCK:`, `LOCK.acquire()` ... `finally: LOCK.release()`, an ExitStack that entered it
        lr = table_regions[fi.qual] = LockRegions(ck, fi, None, is_lock=is_table_lock)
        for n in uses:
            inside = lr.held(n) and not lr.leaks()
            ck.ob(R1, fa.key(n, "table-access"), inside, "mutex table accessed under %s" % table_lock if inside else
                  "the mutex table (a defaultdict) is accessed without holding %s" % table_lock, fa.where(n))
    ck.run(check_mutex_table_stable, ck, R2)
    # ---- R2
    ck.ob(R2, RL + "::mutex-reentrant", table_kind == "RLock", "per-call mutexes are re-entrant (RLock)" if table_kind == "RLock" else
          "per-call mutexes are not re-entrant: a function calling itself with equal arguments deadlocks", mod.relpath)
    helper_exists = ck.repo.try_func(RL + "._mutex_for_invocation") is not None
    if helper_exists:
        mi = FA(ck, RL + "._mutex_for_invocation")
        ck.need(mi.fi.params, "_mutex_for_invocation takes no invocation argument")
        inv0 = mi.fi.params[0]
        want = [inv0 + ".fn_reference.qualified_name", inv0 + ".arg_hash"]
        rets = mi.some([r for r in mi.returns() if r.value is not None], "return with a value")

        def _key_elts(k, at):
            """texts of the elements of a looked-up key, locals expanded"""
            ids = mi.nodes(at)
            k = mi.expand(k, ids[0]) if ids else k
            return [A.norm(e) for e in k.elts] if isinstance(k, ast.Tuple) else [A.norm(k)]

        for r in rets:
            # what is returned, through any temporaries: TABLE[(qualified name, arg hash)]
            v = safe_expand(mi, r.value, r)
            if isinstance(v, ast.Subscript) and A.norm(v.value) == table:
                okk = [A.norm(e) for e in (v.slice.elts if isinstance(v.slice, ast.Tuple) else [v.slice])] == want
            else:
                # get-or-create spelled out: every key the table is looked up / filled with is the pair, and the returned mutex comes out of the table
                keys = [_key_elts(t.slice, st) for st in mi.stmts(ast.Assign) for t in st.targets if isinstance(t, ast.Subscript) and A.norm(t.value) == table]
                keys += [_key_elts(c.args[0], c) for c in mi.calls() if A.call_attr(c) in ("get", "setdefault") and A.norm(A.call_recv(c)) == table and c.args]
                keys += [_key_elts(x.slice, x) for x in A.walk_body(mi.node) if isinstance(x, ast.Subscript) and isinstance(x.ctx, ast.Load) and A.norm(x.value) == table]
                dv = mi.deps(r.value) if mi.nodes(r) else set()
                okk = bool(keys) and all(k == want for k in keys) and \
                    ("global:" + table in dv or "call:get" in dv or "call:setdefault" in dv)
            ck.ob(R2, mi.key(r, "mutex-key"), okk, "one mutex per (versioned function name, argument hash)" if okk else
                  "the per-call mutex is not keyed by (qualified_name, arg_hash) of the invocation: distinct calls serialise or equal calls do not", mi.where(r))
    else:
        from .keys import _mutex_key_in_host
        _mutex_key_in_host(ck, R2)
    rl = FA(ck, RL + ".memento_run_local")
    inv = rl.fi.params[1] if len(rl.fi.params) > 1 else "fn_reference_with_args"
    holders = {"_mutex_for_invocation"} | _mutex_holding_context_managers(ck, mod)
    mutex_wrappers = {h[6:] for h in holders if h.startswith("mutex:")}
    def holds_own_mutex(e):
        if isinstance(e, ast.Name) and rl.nodes(e):
            # `m = _mutex_for_invocation(x)` ... `with m:`
            x0 = safe_expand(rl, e)
            if not isinstance(x0, ast.Name):
                return holds_own_mutex(x0)
        if isinstance(e, ast.Call) and A.call_attr(e) in holders and [_xs(rl, a, e) for a in e.args] == [inv]:
            return True
        if not helper_exists:
            # `m = TABLE[(qualified name, arg hash)]` under the table lock, then `with m:`
            x = safe_expand(rl, e)
            if isinstance(x, ast.Subscript) and isinstance(x.value, ast.Name) and x.value.id == table:
                return True
            if isinstance(x, ast.Call) and A.call_attr(x) in ("get", "setdefault") and isinstance(A.call_recv(x), ast.Name) and A.call_recv(x).id == table:
                return True
        if isinstance(e, ast.Call) and A.call_attr(e) in mutex_wrappers and len(e.args) == 1:
            return holds_own_mutex(e.args[0])
        return False
    # where the per-call mutex is held, on the CFG: a with-block, `m.acquire()` ... `finally: m.release()`, an ExitStack that
    # entered it, or a lock-holding context manager -- one critical section, given back on every way out
    section = LockRegions(ck, rl.fi, None, is_lock=holds_own_mutex)
    held = section.held
    whole = not section.sections() and not section.acquires and _held_by_decorator(ck, mod, rl.fi, holders, mutex_wrappers)
    if whole:
        # a decorator of the function takes the per-call mutex of the invocation it is called with and calls the function
        # while holding it: every statement of the function runs inside the critical section
        held = lambda node: True
    if not whole and (len(section.sections()) != 1 or section.leaks()):
        ck.ob(R2, rl.key(None, "critical-section"), False, "memento_run_local does not hold the per-call mutex of its own invocation", rl.where())
    else:
        # the storage backend is the third parameter (named directly or through a local / a field of a new parameter object)
        backend = rl.fi.params[2] if len(rl.fi.params) > 2 else "storage_backend"
        flow = SectionFlow(ck, rl, held)
        inside = flow.in_section()

        def where_of(f, c):
            return rl.where(c) if f is rl.fi else A.loc(f, c)

        def single_lookup(c) -> bool:
            # `get_mementos([<one reference>])`: the bulk query asked about this one call -- what get_memento itself does
            if A.call_attr(c) != "get_mementos" or len(c.args) != 1 or c.keywords:
                return False
            f_ = [f for f in flow.flow if any(c is x for x in flow.fa(f).calls())]
            a0 = safe_expand(flow.fa(f_[0]), c.args[0], c) if f_ else c.args[0]
            return isinstance(a0, (ast.List, ast.Tuple)) and len(a0.elts) == 1 and not isinstance(a0.elts[0], ast.Starred)

        sites = {}
        for (name, recv) in (("get_memento", backend), ("_filter_call", None), ("is_memoized", backend), ("memoize", backend),
                             ("process_existing_memento", None)):
            cs = flow.calls_named((name,), recv)
            if name == "get_memento":
                cs += [(f, c) for (f, c) in flow.calls_named(("get_mementos",), recv) if single_lookup(c)]
            sites[name] = cs
            out = [(f, c) for (f, c) in cs if not (held(c) if f is rl.fi else inside[f.qual])]
            ok = bool(cs) and not out
            ck.ob(R2, rl.key(None, "in-section-" + name), ok, "%s happens inside the per-call critical section" % name if ok else
                  ("%s is not called at all" % name if not cs else
                   "%s happens outside the per-call critical section: two threads can both miss and both run the body" % name),
                  where_of(*out[0]) if out else rl.where(cs[0][1] if cs and cs[0][0] is rl.fi else None))
        # the re-check is unconditional and precedes the body inside the section
        for (f, c) in sites["get_memento"]:
            ffa = flow.fa(f)
            okc = ffa.unconditional(c)
            ck.ob(R2, ffa.key(c, "recheck-unconditional"), okc, "the re-check under the mutex is unconditional" if okc else
                  "the store re-check under the mutex is skipped under a condition (`%s`): a caller that arrives after the first one released "
                  "the mutex runs the body a second time" % A.short(ffa.pm.get(c), 60), where_of(f, c))
        gm = [(f, c) for (f, c) in sites["get_memento"] if flow.fa(f).unconditional(c)]
        unchecked = flow.recheck_order(gm, sites["_filter_call"]) if gm else []
        okp = bool(gm) and not unchecked
        ck.ob(R2, rl.key(None, "recheck-before-body"), okp, "the store is re-checked under the mutex before the body runs" if okp else
              "the body can run without re-checking the store under the mutex", where_of(*unchecked[0]) if unchecked else rl.where())
    # ---- R3
    cm = CacheModel(ck)
    lock, decos = check_cache_guarded(ck, cm, R3)
    # ---- R4
    bad = []
    for fi in mod.all_funcs():
        if not any(isinstance(n, ast.Name) and n.id == table_lock for n in A.walk_body(fi.node)):
            continue
        fa = FA(ck, fi)
        lr = table_regions.get(fi.qual) or LockRegions(ck, fi, None, is_lock=is_table_lock)
        for c in fa.calls():
            if A.call_attr(c) in ("RLock", "Lock", "get", "setdefault") or not lr.held(c):
                continue
            if A.call_attr(c) in ("acquire", "release", "__enter__", "__exit__") and lr._is_lock(A.call_recv(c)):
                continue
            if A.call_attr(c) in ("enter_context", "callback") and c.args and lr._is_lock(c.args[0].value if isinstance(c.args[0], ast.Attribute) and c.args[0].attr == "release" else c.args[0]):
                continue
            # what the call can reach: a resolved callee is followed through the call graph; an unresolved one is harmless only
            # when it is logging / string formatting / a length or identity builtin
            try:
                callees, _how = ck.cg.resolve(c, fi)
            except Exception:
                callees = []
            if callees:
                reach = set(ck.cg.reachable(callees)) | {f_.qual for f_ in callees}
                if not any(q.split(".")[-1] in FORBIDDEN_UNDER_LEAF_LOCK for q in reach):
                    continue
            else:
                from ..fa import log_call
                if log_call(c) or (isinstance(c.func, ast.Name) and c.func.id in ("len", "tuple", "isinstance", "id")):
                    continue
            bad.append((fi, c))
    ck.ob(R4, RL + "::table-lock-leaf", not bad, "no call is made while the table lock is held" if not bad else
          "call %s while holding the mutex table lock" % A.short(bad[0][1], 50), A.loc(bad[0][0], bad[0][1]) if bad else mod.relpath)
    roots = [m for n, m in cm.cls.methods.items() if n != "__init__"]
    prev = ck.cg.reachable(roots)
    hit = [q for q in prev if q.split(".")[-1] in FORBIDDEN_UNDER_LEAF_LOCK or q.startswith("storage_base.StorageBackendBase.") or q.startswith("storage_base.DataSourceMetadataSource.")]
    ck.ob(R4, CACHE_CLASS + "::cache-lock-leaf", not hit, "nothing reachable from the cache (%d functions) takes a per-call mutex, runs user code or calls back into the backend" % len(prev) if not hit else
          "while holding the cache lock %s is reachable via %s" % (hit[0], ck.cg.chain(prev, hit[0])), A.loc(cm.cls, cm.cls.node))
    # ---- R5
    cs = ck.repo.module("call_stack")
    tl = [n for n, v in cs.assigns.items() if isinstance(v, ast.Call) and A.call_dotted(v) == "threading.local"]
    ck.ob(R5, "call_stack::thread-local", len(tl) == 1, "one threading.local() holds the call stack" if len(tl) == 1 else
          "call_stack no longer keeps its state in a threading.local()", cs.relpath)
    ctor_sites = ck.cg.call_sites_of(lambda c, cands: A.call_attr(c) == "CallStack" and isinstance(c.func, ast.Name))
    stored_ctor = set()
    for (fi, c, _) in ctor_sites:
        fa = FA(ck, fi)
        st = fa.stmt_of(c)
        fa = _fa_reaching(ck, fa, st)

        def tl_store(s2, value_ok):
            """`<thread-local>.call_stack = <value>` (the thread-local object named directly or through a local alias)"""
            return isinstance(s2, ast.Assign) and value_ok(s2.value) and \
                any(isinstance(t, ast.Attribute) and t.attr == "call_stack" and tl and _xs(fa, t.value, s2) == tl[0] for t in s2.targets)

        ok = False
        if fi.qual == "call_stack.CallStack.get" and isinstance(st, ast.Expr) and isinstance(st.value, ast.Call) and isinstance(st.value.func, ast.Name) \
                and st.value.func.id == "setattr" and len(st.value.args) == 3 and st.value.args[2] is c and tl \
                and _xs(fa, st.value.args[0], st) == tl[0] and A.const_str(st.value.args[1]) == "call_stack":
            ok = True  # setattr(<thread-local>, "call_stack", CallStack())
        if fi.qual == "call_stack.CallStack.get" and isinstance(st, ast.Assign) and st.value is c:
            if tl_store(st, lambda v: v is c):
                # the new stack is bound straight to an attribute of the thread-local object
                ok = True
            else:
                # ... or to a local first: every way on from there stores that very local into the thread-local object
                names = [t.id for t in st.targets if isinstance(t, ast.Name)]
                for nm in names:
                    stores = [s2 for s2 in fa.stmts(ast.Assign) if tl_store(s2, lambda v: isinstance(v, ast.Name) and v.id == nm)
                              and all(len(fa.df.reaching(i, nm)) == 1 and fa.df.reaching(i, nm)[0].node in fa.nodes(st) for i in fa.nodes(s2))]
                    sn = fa.nodes_all(stores)
                    if stores and all(fa.cfg.exit not in fa.cfg.reach([i], removed=sn, include_start=False) for i in fa.nodes(st)):
                        ok = True
        if ok:
            stored_ctor.add(id(c))
        ck.ob(R5, fa.key(c, "created-into-thread-local"), bool(ok), "a new CallStack goes straight into thread-local storage" if ok else
              "a CallStack is created outside CallStack.get / not stored in thread-local storage", fa.where(c))
    shared = []
    for m in ck.repo.modules.values():
        for name, v in m.assigns.items():
            if isinstance(v, ast.Call) and A.call_attr(v) in ("CallStack", "StackFrame"):
                shared.append((m.relpath, name))
        for ci in m.all_classes():
            for st in ci.node.body:
                if isinstance(st, ast.Assign) and isinstance(st.value, ast.Call) and A.call_attr(st.value) in ("CallStack", "StackFrame", "list", "dict") \
                        and ci.name in ("CallStack", "StackFrame"):
                    shared.append((m.relpath, ci.name + "." + A.norm(st.targets[0])))
                if isinstance(st, ast.Assign) and isinstance(st.value, (ast.List, ast.Dict)) and ci.name in ("CallStack", "StackFrame"):
                    shared.append((m.relpath, ci.name + "." + A.norm(st.targets[0])))
    ck.ob(R5, "call_stack::no-shared-stack", not shared, "no module- or class-level variable holds a call stack or frame list" if not shared else
          "a call stack / frame container is shared across threads: %s" % (shared[0],), shared[0][0] if shared else cs.relpath)
    g = FA(ck, "call_stack.CallStack.get")
    rets = g.returns()

    def own_stack(v, at, g=g) -> bool:
        """the value is the calling thread's stack: read from the thread-local object, or the stack just created and stored there"""
        if not tl:
            return False
        try:
            x = g.expand(v, at)
        except AnalysisError:
            x = v
        if A.norm(x) == tl[0] + ".call_stack" or id(v) in stored_ctor:
            return True
        # getattr(<thread-local>, "call_stack" [, default]): the default only stands in until a new stack is stored
        return isinstance(x, ast.Call) and isinstance(x.func, ast.Name) and x.func.id == "getattr" and len(x.args) >= 2 \
            and A.norm(x.args[0]) == tl[0] and A.const_str(x.args[1]) == "call_stack"

    def ret_ok(r):
        if r.value is None:
            return False
        gr = g
        if not g.nodes(r):
            # code the CFG cannot reach (the handler around a plain attribute read, `try: return tl.call_stack / except
            # AttributeError: <create, store, return>`): judged on the handler's own statements
            gr = _fa_reaching(ck, g, r)
            if not gr.nodes(r):
                return bool(tl) and _xs(g, r.value, r) == tl[0] + ".call_stack"
        srcs = _sources(gr, r)
        return bool(srcs) and all(own_stack(v, at, gr) for (v, at) in srcs)

    okg = bool(rets) and tl and all(ret_ok(r) for r in rets)
    ck.ob(R5, g.key(None, "get-returns-thread-local"), bool(okg), "CallStack.get returns the calling thread's stack" if okg else
          "CallStack.get does not return the thread-local stack", g.where())
    ini = FA(ck, "call_stack.CallStack.__init__")
    okf = any(A.dotted(t) == "self._frames" and ((isinstance(v, ast.List) and not v.elts) or (isinstance(v, ast.Call) and A.norm(v) == "list()"))
              for s in ini.stmts((ast.Assign, ast.AnnAssign)) for (t, v) in assign_pairs(s))
    ck.ob(R5, ini.key(None, "own-frame-list"), okf, "each CallStack owns a fresh frame list" if okf else
          "CallStack instances do not start with their own fresh frame list", ini.where())
    # ---- R6: readers that run outside the per-call mutex (the batch pre-check) never observe a
    # published name whose object is still being written
    from .c08 import check_write_order
    ck.run(check_write_order, ck, "C09.R6", only_output=True)
