"""C08 — a crash or I/O fault at any point of a write never poisons the store (structural part).

Decides: data -> pointer -> metadata write order (R1); a pointer is never trusted half-written:
atomic publication or validated readers (R2); I/O errors are absorbed at the three recovery
sites (R3); readers validate the pointer target (R4).  The enumeration of concrete crash points
is a run-time activity and is not claimed.
"""
import ast

from .. import astutil as A
from ..fa import FA, log_call
from .effects import Assume, call_atom

FSDS = "storage_filesystem._FilesystemDataSource"
OSERROR_NAMES = {"IOError", "OSError", "EnvironmentError", "Exception", "BaseException"}


def _handler_covers_oserror(h: ast.ExceptHandler) -> bool:
    if h.type is None:
        return True
    ts = h.type.elts if isinstance(h.type, ast.Tuple) else [h.type]
    return any(A.norm(t).split(".")[-1] in OSERROR_NAMES for t in ts)


def _try_around(fa: FA, node):
    """Innermost try statements whose *body* contains node, inner to outer."""
    out = []
    n = node
    while n is not None:
        p = fa.pm.get(n)
        if isinstance(p, ast.Try) and any(n is b or fa.inside(node, b) for b in p.body):
            out.append(p)
        n = p
    return out


def check_write_order(ck, R="C08.R1", only_output=False):
    ck.rule(R, "write order: result data is stored before its key is recorded and before the memento is written; "
               "the object file is written and closed before the pointer is published; directories exist before the open", 3 if only_output else 6)
    if not only_output:
        _memoize_order(ck, R)
    _output_order(ck, R)


def recv_calls(fa, name, recv_text):
    """Calls `<recv>.name(...)` whose receiver is the given field, directly or through a local alias."""
    out = []
    for c in fa.calls(name):
        rv = A.call_recv(c)
        if rv is None:
            continue
        if A.dotted(rv) == recv_text or (fa.nodes(c) and fa.xnorm(rv, fa.nodes(c)[0]) == recv_text):
            out.append(c)
    return out


def _memoize_order(ck, R):
    mz = FA(ck, "storage_base.StorageBackendBase.memoize")
    st = recv_calls(mz, "store", "self.codec")
    pm = [c for c in mz.calls("put_memento")]
    mp = mz.fi.params[2] if len(mz.fi.params) > 3 else "memento"
    asg = [s for s in mz.stmts(ast.Assign) if any(A.dotted(t) == mp + ".content_key" for t in s.targets)]
    ok = bool(st) and bool(pm) and all(mz.cfg.must_pass(mz.nodes_all(st), i) for i in mz.nodes_all(pm))
    ck.ob(R, mz.key(None, "data-before-metadata"), ok, "codec.store precedes put_memento on every path" if ok else
          "the memento can be written before (or without) the result data: a crash in between leaves a memento that points at nothing", mz.where())
    ok2 = bool(asg) and bool(pm) and all(mz.cfg.must_pass(mz.nodes_all(asg), i) for i in mz.nodes_all(pm))
    ck.ob(R, mz.key(None, "key-before-metadata"), ok2, "content key recorded before put_memento" if ok2 else
          "put_memento can run before the content key is recorded", mz.where())
    # the memory cache is written through only once the store has accepted the result: a failed
    # write must not leave the cache (or its weak references) claiming the call is memoized
    cputs = recv_calls(mz, "put", "self._memory_cache")
    okc = bool(cputs) and bool(pm) and all(mz.cfg.must_pass(mz.nodes_all(pm), i) for i in mz.nodes_all(cputs))
    ck.ob(R, mz.key(None, "cache-after-store"), okc, "the cache is filled after the memento was written" if okc else
          "memoize fills the memory cache before the store write: when that write fails (disk full) is_memoized keeps answering True from the "
          "cache / its weak reference, so the result is never written again (recomputed forever with a small cache, never persisted with a large one)", mz.where())
    # put_memento is the last persistent step (nothing is written after the memento is visible)
    after = set()
    for i in mz.nodes_all(pm):
        after |= mz.cfg.reach([i], include_start=False)
    late = [c for c in st if set(mz.nodes(c)) & after]
    ck.ob(R, mz.key(None, "metadata-last"), not late, "nothing is stored after the memento is published" if not late else
          "result data is (re)written after the memento was published", mz.where())


LINK_PATH = "_get_non_versioned_link_path"
OBJ_PATH = "_get_path_versioned"


def _strip_path_wrappers(e):
    """str(p) / Path(p) / os.fspath(p) -> p"""
    while isinstance(e, ast.Call) and A.call_attr(e) in ("str", "Path", "fspath", "PurePath") and len(e.args) == 1 and not e.keywords:
        e = e.args[0]
    return e


def open_path(call):
    """The path expression of an `open(path, ...)` / `path.open(...)` call."""
    if isinstance(call.func, ast.Attribute) and not (A.dotted(call.func.value) or "") in ("io", "os", "builtins", "codecs"):
        return call.func.value
    return call.args[0] if call.args else A.kwarg(call, "file")


def path_role(fa, expr, node_id=None):
    """'pointer' when the expression IS the mutable link path of a key (the value of the link-path builder,
    through str()/Path() and temporaries), 'object' when it is the value of the versioned-path builder,
    otherwise None (e.g. a path merely derived from one of them: a parent directory, a staging name)."""
    if expr is None:
        return None
    ids = [node_id] if node_id is not None else fa.nodes(expr)
    if not ids:
        return None
    roles = set()
    for i in ids:
        stack = [(_strip_path_wrappers(expr), i, 8)]
        while stack:
            e, n, dep = stack.pop()
            e = _strip_path_wrappers(e)
            if isinstance(e, ast.Name) and dep > 0:
                ds = fa.df.reaching(n, e.id)
                if ds and all(d.kind in ("assign", "with") and d.value is not None for d in ds):
                    stack.extend((d.value, d.node, dep - 1) for d in ds)
                    continue
            if isinstance(e, ast.Call) and A.call_attr(e) == LINK_PATH:
                roles.add("pointer")
            elif isinstance(e, ast.Call) and A.call_attr(e) == OBJ_PATH:
                roles.add("object")
            else:
                roles.add(None)
    return roles.pop() if len(roles) == 1 else None


ONESHOT = ("write_text", "write_bytes")      # Path.write_*: open, write, close in one call


def write_opens(ck, fa):
    """Write sites of a function (write-mode opens and Path.write_text / write_bytes), by what they write:
    {'pointer': [...], 'object': [...]} ('object' = any write that is not the pointer: the versioned path itself
    or a staging name)."""
    out = {"pointer": [], "object": []}
    for c in fa.calls():
        if not fa.nodes(c):
            continue
        if (A.call_attr(c) in ("open",) + ONESHOT and c in ck.cg.fs_write_sites.get(fa.qual, [])) or _fileio_writes(c):
            out["pointer" if path_role(fa, open_path(c), fa.nodes(c)[0]) == "pointer" else "object"].append(c)
    return out


def _fileio_writes(c):
    """io.FileIO(path, <mode that may write>)"""
    if A.call_attr(c) != "FileIO":
        return False
    mode = A.arg_or_kw(c, 1, "mode")
    m = A.const_str(mode) if mode is not None else "r"
    return m is None or any(ch in m for ch in "wax+")


def pointer_writers(ck):
    """Methods of the filesystem data source that write (or atomically replace) the pointer of a key directly."""
    cls = ck.repo.cls(FSDS)
    out = set()
    for m in cls.methods.values():
        f = FA(ck, m)
        if write_opens(ck, f)["pointer"] or _atomic_publications(f):
            out.add(m.name)
    return out


def _atomic_publications(fa):
    return [c for c in fa.calls("replace") + fa.calls("rename") if (A.call_dotted(c) or "").startswith("os.") and len(c.args) == 2
            and fa.nodes(c) and path_role(fa, c.args[1], fa.nodes(c)[0]) == "pointer"]


def _with_ancestors(fa, node):
    out = []
    n = fa.pm.get(node)
    while n is not None:
        if isinstance(n, (ast.With, ast.AsyncWith)):
            out.append(n)
        n = fa.pm.get(n)
    return out


def _with_holds(fa, w, opencall):
    """Does leaving the `with` statement `w` close the stream created by `opencall`: the call is (part of) one of
    its context expressions, or the stream is entered into / registered with an exit stack that `w` binds
    (`with ExitStack() as s: f = s.enter_context(open(...))`, `s.callback(f.close)`, `s.push(f)`)."""
    for it in w.items:
        if any(x is opencall for x in ast.walk(it.context_expr)):
            return True
    stacks = {it.optional_vars.id for it in w.items if isinstance(it.optional_vars, ast.Name)}
    if not stacks:
        return False
    # names that hold the stream
    p = fa.pm.get(opencall)
    held = set()
    if isinstance(p, (ast.Assign, ast.AnnAssign)) and p.value is opencall:
        held = {t.id for t in (p.targets if isinstance(p, ast.Assign) else [p.target]) if isinstance(t, ast.Name)}
    for c in fa.calls():
        rv = A.call_recv(c)
        if not (isinstance(rv, ast.Name) and rv.id in stacks and fa.inside(c, w)):
            continue
        if A.call_attr(c) in ("enter_context", "push", "callback", "push_async_exit", "enter_async_context"):
            for a in c.args:
                if any(x is opencall for x in ast.walk(a)):
                    return True
                if isinstance(a, ast.Name) and a.id in held:
                    return True
                if isinstance(a, ast.Attribute) and a.attr in ("close", "__exit__") and isinstance(a.value, ast.Name) and a.value.id in held:
                    return True
    return False


def _output_order(ck, R):
    fo = FA(ck, FSDS + ".output")
    mk = [c for c in fo.calls("makedirs")] + [c for c in fo.calls("mkdir")]
    wo = write_opens(ck, fo)
    wopen = wo["object"]
    writers = pointer_writers(ck) - {fo.fi.name}
    # publication of the pointer: a call of a method that writes it, or the pointer write itself when it is inlined
    pub_calls = [c for c in fo.calls() if A.call_attr(c) in writers and A.dotted(A.call_recv(c)) in ("self", "cls")]
    pub = pub_calls + wo["pointer"] + _atomic_publications(fo)
    holds_object = lambda w: any(_with_holds(fo, w, c) for c in wopen)
    holds_pointer = lambda w: any(_with_holds(fo, w, c) for c in wo["pointer"])
    # the statements that put bytes into the object (not the write of the pointer's own content)
    copy = [c for c in fo.calls("copyfileobj") + fo.calls("write") if not any(holds_pointer(w) for w in _with_ancestors(fo, c))]
    copy += [c for c in wopen if A.call_attr(c) in ONESHOT]
    okm = bool(mk) and bool(wopen) and all(fo.cfg.must_pass(fo.nodes_all(mk), i) for i in fo.nodes_all(wopen))
    ck.ob(R, fo.key(None, "mkdir-before-open"), okm, "version directory created before the object is opened" if okm else
          "the object can be opened before its version directory exists", fo.where())
    # a loop that writes the object chunk by chunk is one write phase: passing its head counts (it may run zero times
    # for empty data)
    phase = list(fo.nodes_all(copy))
    for c in copy:
        lp = fo.enclosing(c, (ast.For, ast.While))
        while lp is not None:
            phase += [i for i in list(fo.cfg.nodes_of(lp)) + (list(fo.cfg.nodes_of(lp.test)) if isinstance(lp, ast.While) else [])
                      if i in fo.cfg.reachable_nodes()]
            lp = fo.enclosing(lp, (ast.For, ast.While))
    okp = bool(pub) and bool(copy) and all(fo.cfg.must_pass(phase, i) for i in fo.nodes_all(pub))
    # and the publication is outside every `with` that holds the object open
    for p in pub:
        if any(holds_object(w) for w in _with_ancestors(fo, p)):
            okp = False
    # an object opened without a `with` must be closed before the publication
    for c in wopen:
        if not any(holds_object(w) for w in _with_ancestors(fo, c)) and A.call_attr(c) not in ONESHOT:
            closes = fo.calls("close")
            if not (closes and all(fo.cfg.must_pass(fo.nodes_all(closes), i) for i in fo.nodes_all(pub))):
                okp = False
    ck.ob(R, fo.key(None, "object-before-pointer"), okp, "the object is written and closed before the pointer is published" if okp else
          "the pointer can be published before the object is completely written and closed: a crash leaves a pointer to partial data", fo.where())
    # pointer designates the object just written
    wp = [c for c in fo.calls(OBJ_PATH)]
    for p in pub_calls:
        # the same value that named the path the bytes were written to
        okv = len(p.args) == 1 and isinstance(p.args[0], ast.Name) and "call:uuid4" in fo.deps(p.args[0]) and \
            any(len(c.args) == 1 and isinstance(c.args[0], ast.Name) and c.args[0].id == p.args[0].id
                and all(fo.df.same_defs(p.args[0].id, a, b) for a in fo.nodes(c) for b in fo.nodes(p)) for c in wp)
        if not okv and len(p.args) == 1 and fo.nodes(p):
            # spelled differently: the argument and the versioned path's key are the same fresh value
            at = fo.nodes(p)[0]
            okv = "call:uuid4" in fo.deps(p.args[0]) and any(
                len(c.args) == 1 and fo.nodes(c) and _same_value(fo, c.args[0], fo.nodes(c)[0], p.args[0], at) for c in wp)
        ck.ob(R, fo.key(None, "pointer-target"), okv, "the pointer designates the version just written" if okv else
              "the published pointer does not designate the version just written", fo.where(p))
    for p in wo["pointer"]:
        # inlined pointer write: what is written into it is the very path the object was written to
        w = [x for x in _with_ancestors(fo, p) if holds_pointer(x)]
        wr = [c for c in fo.calls("write") if w and fo.inside(c, w[0]) and c.args]
        if A.call_attr(p) in ONESHOT and p.args:
            wr = [p]
        okv = bool(wr) and bool(wopen)
        for c in wr:
            for o in wopen:
                if not (fo.nodes(c) and fo.nodes(o) and "call:uuid4" in fo.deps(c.args[0]) and
                        _same_value(fo, _strip_path_wrappers(c.args[0]), fo.nodes(c)[0], _strip_path_wrappers(open_path(o)), fo.nodes(o)[0])):
                    okv = False
        ck.ob(R, fo.key(None, "pointer-target"), okv, "the pointer designates the version just written" if okv else
              "the published pointer does not designate the version just written", fo.where(p))
    wl = FA(ck, FSDS + "._write_non_versioned_link")
    wlo = write_opens(ck, wl)["pointer"]
    # what is written into the pointer (directly, or into a staging file that is then renamed onto it): the argument
    # of write / write_text, or what print(..., file=handle) prints
    wr = [c for c in wl.calls("write") if any(any(_with_holds(wl, w, o) for o in wlo) for w in _with_ancestors(wl, c))] or \
        [c for c in wl.calls("write") if (A.call_dotted(c) or "") != "os.write"]
    wr += [c for c in wl.calls() if A.call_attr(c) in ONESHOT and c in ck.cg.fs_write_sites.get(wl.qual, []) and c not in wr]
    contents = [(c.args[0], c, "") for c in wr if c.args]
    for c in wl.calls("print"):
        if A.kwarg(c, "file") is not None:
            end = A.kwarg(c, "end")
            tail = "\n" if end is None else (A.const_str(end) if A.const_str(end) is not None else "?")
            contents += [(a, c, tail) for a in c.args[:1]]
            if len(c.args) != 1:
                contents.append((None, c, tail))
    okw = bool(contents) and all(e is not None and "call:" + OBJ_PATH in wl.deps(e) for (e, c, _t) in contents)
    why = "the pointer file does not contain the versioned object path"
    if okw:
        # ... and nothing but that path, unless the reader strips what surrounds it: the reader turns the whole file
        # content into the path, so `path + "\n"` designates a file that does not exist
        rl_ = FA(ck, FSDS + "._read_non_versioned_link")
        strips = any(A.call_attr(c) in ("strip", "rstrip", "splitlines", "split") for c in rl_.calls())
        for (e, c, tail) in contents:
            try:
                parts = A.str_parts(wl.expand(e, wl.nodes(c)[0])) if wl.nodes(c) else None
            except Exception:  # noqa - an expression the expander cannot place
                parts = None
            extra = "".join(v for (k, v) in (parts or []) if k == "lit") + tail
            n_expr = len([1 for (k, v) in (parts or []) if k == "expr"]) if parts is not None else 1
            if n_expr != 1 or (extra and not (strips and not extra.strip())):
                okw = False
                why = "the pointer file holds more than the object path (%r around it) while the reader takes the whole content as the path: " \
                      "every key then designates a file that does not exist and nothing is ever served from the store" % extra
    ck.ob(R, wl.key(None, "pointer-content"), okw, "pointer content is the versioned object path" if okw else why, wl.where())


def _same_value(fa, e1, n1, e2, n2):
    """Do two local names / expressions denote the same value: the same reaching definitions (through plain
    aliases), or — for expressions — the same name-independent text built from single definitions that
    contains no call (a call evaluated twice need not return the same thing)."""
    from .c07 import _roots
    e1, e2 = _strip_path_wrappers(e1), _strip_path_wrappers(e2)
    if isinstance(e1, ast.Name) and isinstance(e2, ast.Name):
        r1, r2 = _roots(fa, e1, n1), _roots(fa, e2, n2)
        return bool(r1) and r1 == r2
    if not isinstance(e1, ast.Name) and not isinstance(e2, ast.Name):
        if any(isinstance(x, ast.Call) for x in list(ast.walk(e1)) + list(ast.walk(e2))):
            return False
        return fa.xnorm(e1, n1) == fa.xnorm(e2, n2)
    return False


def _validator_helpers(ck, ex):
    """{qual: FuncInfo} — helpers that are new w.r.t. the reference inventory, belong to the data source (or its module) and
    are reached from exists_nonversioned: together with it they form the reader's validity test when part of that
    test was extracted and the call sits where the front end cannot write the helper out (an operand of `and`, a
    branch of a conditional expression)."""
    from ..inline import new_functions
    new = {fi.qual: fi for fi in new_functions(ck.repo)}
    out = {}
    stack = [ex.fi]
    while stack:
        f = stack.pop()
        for (_call, cands, _how) in ck.cg.edges.get(f.qual, []):
            for c in cands:
                if c.qual in new and c.qual not in out and c.qual != ex.fi.qual and c.module is ex.fi.module and c.cls in (None, ex.fi.cls):
                    out[c.qual] = c
                    stack.append(c)
    return out


READER = "_read_non_versioned_link"
_DIRECT_READS = ("open", "read_text", "read_bytes", "FileIO")


def pointer_reader_names(ck):
    """Names of the data source's methods whose value is the CONTENT of a pointer file: the inventory's reader, and any method
    that reads a pointer file itself (by the role of the path it opens)."""
    got = getattr(ck, "_c08_reader_names", None)
    if got is None:
        got = {READER}
        cls = ck.repo.cls(FSDS)
        for m in cls.methods.values():
            src = {A.call_attr(c) for c in A.body_calls(m.node)}
            if src & set(_DIRECT_READS) and m.name != "exists_nonversioned" and _pointer_reads(ck, FA(ck, m)):
                got.add(m.name)
        ck._c08_reader_names = got
    return got


def _structural_pointer_read(x) -> bool:
    """An (expanded) call that opens / reads the link path itself: open(<link path>), <link path>.read_text(), io.FileIO(<link path>)."""
    if not (isinstance(x, ast.Call) and A.call_attr(x) in _DIRECT_READS):
        return False
    if A.call_attr(x) == "open":
        mode = A.arg_or_kw(x, 0 if _is_path_method(x) else 1, "mode")
        m = A.const_str(mode) if mode is not None else "r"
        if m is None or any(ch in m for ch in "wax+"):
            return False
    if A.call_attr(x) == "FileIO" and _fileio_writes(x):
        return False
    p_ = open_path(x) if A.call_attr(x) in ("open", "FileIO") else (x.func.value if isinstance(x.func, ast.Attribute) else None)
    p_ = _strip_path_wrappers(p_) if p_ is not None else None
    return isinstance(p_, ast.Call) and A.call_attr(p_) == LINK_PATH


def pointer_content_calls(ck, fa):
    """The calls of `fa` whose value is (a handle on) the content of a pointer file."""
    names = pointer_reader_names(ck)
    direct = {id(c) for (c, _k, _e, _n) in _pointer_reads(ck, fa)} if any(A.call_attr(c) in _DIRECT_READS for c in fa.calls()) else set()
    return [c for c in fa.calls() if fa.nodes(c) and ((A.call_attr(c) in names and not isinstance(c.func, ast.Name)) or id(c) in direct)]


def pointer_content_deps(ck, fa):
    """Dependency tokens that mean "derived from the content of a pointer file" in `fa`."""
    cc = pointer_content_calls(ck, fa)
    out = set()
    for c in cc:
        nm = A.call_attr(c)
        if nm in pointer_reader_names(ck) or all(any(k is c2 for c2 in cc) for k in fa.calls(nm)):
            out.add("call:" + nm)
    return out


def is_pointer_content_call(ck, fa, x) -> bool:
    """`x` (a node of fa, or an expanded copy) is a call whose value is the content of a pointer file."""
    if not isinstance(x, ast.Call):
        return False
    if A.call_attr(x) in pointer_reader_names(ck) and not isinstance(x.func, ast.Name):
        return True
    return any(x is c for c in pointer_content_calls(ck, fa)) or _structural_pointer_read(x)


def check_pointer_trust(ck):
    R = "C08.R2"
    ck.rule(R, "pointers are never trusted half-written: either the pointer name is only ever the destination of an "
               "atomic rename, or every consumer of a pointer's content opens the designated path or is dominated by "
               "a regular-file test of that path (an existence test is not enough: an empty pointer designates '.')", 3)
    wl = FA(ck, FSDS + "._write_non_versioned_link")
    # by role: a write-mode open of the link path itself / an os.replace whose destination is the link path
    direct = write_opens(ck, wl)["pointer"]
    renames = _atomic_publications(wl)
    atomic = not direct and bool(renames)
    ex = FA(ck, FSDS + ".exists_nonversioned")
    helpers = _validator_helpers(ck, ex)
    callers_of = lambda q: {fi.qual for (fi, _c, cands) in ck.cg.call_sites_of(lambda c, cands: any(x.qual == q for x in cands))}
    # a helper belongs to the validity test only if nothing else uses it
    unit_quals = {ex.fi.qual} | {q for q in helpers if callers_of(q) <= ({ex.fi.qual} | set(helpers))}
    unit = [ex] + [FA(ck, helpers[q]) for q in sorted(helpers) if q in unit_quals]
    rd = [c for u in unit for c in pointer_content_calls(ck, u)]
    validated = False
    why = "exists_nonversioned does not read the pointer"
    if rd:
        # the value derived from the pointer content must be tested with is_file()
        isf, weak = [], []
        for u in unit:
            toks = pointer_content_deps(ck, u) or {"call:" + READER}
            from_ptr = lambda e, u=u, toks=toks: bool(toks & set(u.deps(e)))
            isf += [c for c in u.calls("is_file") if from_ptr(A.call_recv(c))]
            isf += [c for c in u.calls("isfile") if c.args and from_ptr(c.args[0])]
            weak += [c for c in u.calls("exists") + u.calls("lexists") if A.call_recv(c) is not None and not (A.call_dotted(c) or "").startswith("os.path")
                     and from_ptr(A.call_recv(c))]
            weak += [c for c in u.calls("exists") + u.calls("lexists") if (A.call_dotted(c) or "").startswith("os.path") and c.args
                     and from_ptr(c.args[0])]
        validated = bool(isf) and not weak
        why = "the designated path is only tested with exists(): an empty or truncated pointer designates Path('') = '.', which exists" if weak else \
            "the designated path is never tested to be a regular file"
    ok = atomic or validated
    ck.ob(R, ex.key(None, "pointer-validated"), ok,
          ("atomic publication of the pointer" if atomic else "readers trust a pointer only if it designates a regular file") if ok else
          "the pointer is written in place (open 'w') and " + why + ": after a crash mid-write every later call recomputes forever", ex.where())
    # consumers of pointer content
    for (fi, call, cands) in ck.cg.call_sites_of(lambda c, cands: A.call_attr(c) == "_read_non_versioned_link"):
        f2 = FA(ck, fi)
        if fi.qual in unit_quals:
            continue
        if fi.name == "input_nonversioned":
            okc = any(A.call_attr(c) in ("_do_input", "FileIO", "open") for c in f2.calls())
            ck.ob(R, f2.key(call, "consumer"), okc, "consumer opens the designated path (failure is an OSError, absorbed by R3)" if okc else
                  "consumer of the pointer neither opens the designated path nor validates it", f2.where(call))
        elif fi.name == "get_versioned_key":
            # every call site of get_versioned_key is dominated by a positive validity test
            sites = ck.cg.call_sites_of(lambda c, cands: A.call_attr(c) == "get_versioned_key")
            for (gfi, gcall, _) in sites:
                g = FA(ck, gfi)
                # decided as: assuming the validity test answers False, the call is unreachable (whatever the
                # shape of the test: guard clause, nested if, negation, conjunction with other conditions)
                invalid = Assume(g, call_atom(("exists_nonversioned",), False))
                # (the guard may also sit below statement level: `get(k) if exists(k) else ...`, `exists(k) and get(k)`)
                from .c07 import expr_live, sub_conditions
                tested = any(n.kind == "test" and n.id in g.cfg.reachable_nodes() and invalid.truth(n.ast, n.id) is not None for n in g.cfg.nodes) \
                    or any(invalid.truth(t, i) is not None for t in sub_conditions(g) for i in g.nodes(t)[:1])
                okd = tested and not expr_live(invalid, gcall)
                ck.ob(R, g.key(gcall, "validated-before-use"), okd or atomic,
                      "get_versioned_key is reached only after a positive exists_nonversioned test" if okd else
                      "get_versioned_key is called without a dominating validity test of the pointer", g.where(gcall))
        else:
            ck.ob(R, f2.key(call, "consumer"), atomic, "new consumer of pointer content" if atomic else
                  "new consumer of pointer content at %s is neither an opener nor validated" % fi.qual, f2.where(call))


def _caught_oserror_atom(h, counter=None):
    """atom function: the object handler `h` caught (under its name) is an OSError -- isinstance against OSError or one of its bases
    holds, against a builtin class unrelated to OSError fails, against a subclass of OSError is open."""
    import builtins

    def atom(e):
        if h.name is not None and isinstance(e, ast.Call) and isinstance(e.func, ast.Name) and e.func.id == "isinstance" and len(e.args) == 2 \
                and isinstance(e.args[0], ast.Name) and e.args[0].id == h.name:
            ts = e.args[1].elts if isinstance(e.args[1], ast.Tuple) else [e.args[1]]
            names = [(A.norm(t) or "").split(".")[-1] for t in ts]
            if any(n in OSERROR_NAMES for n in names):
                if counter is not None:
                    counter[0] += 1
                return True
            if all(isinstance(getattr(builtins, n, None), type) and not issubclass(getattr(builtins, n), OSError) for n in names):
                if counter is not None:
                    counter[0] += 1
                return False
        return None
    return atom


def _after_handler(fa, handler):
    """What the function returns on the paths that run through an exception handler:
    ([(leaf value expr, node)], [raise statements reachable from the handler before any return])."""
    # ... for an I/O error: a test of the class of what was caught (`if not isinstance(e, OSError): raise`) is decided
    A0 = Assume(fa, _caught_oserror_atom(handler))
    vals, raises = [], []
    for hn in [n.id for n in fa.cfg.nodes if n.kind == "except" and n.ast is handler and n.id in fa.cfg.reachable_nodes()]:
        IN = A0.flow({hn: A0.handler_seed(hn)})
        for i in IN:
            nd = fa.cfg.node(i)
            if nd.kind == "stmt" and isinstance(nd.ast, ast.Raise):
                raises.append(nd.ast)
            if nd.kind == "stmt" and isinstance(nd.ast, ast.Return):
                if nd.ast.value is None:
                    vals.append((ast.Constant(None), i, IN))
                else:
                    vals += [(e, n, IN) for (e, n) in A0.cases(nd.ast.value, i, IN)]
    return vals, raises


def _valid_flag_is(fa, e, n, value, IN=None):
    """Is the leaf value an ExistingMementoResult(...) whose valid flag is the given constant (on the paths
    the definitions `IN` describe)?"""
    if isinstance(e, ast.Name) and not fa.df.is_local(e.id) and isinstance(fa.fi.module.assigns.get(e.id), ast.Call):
        # a module-level constant holding the answer
        mv = fa.fi.module.assigns[e.id]
        if A.call_attr(mv) == "ExistingMementoResult":
            v = A.kwarg(mv, "valid_result") or (mv.args[1] if len(mv.args) >= 2 else None)
            return isinstance(v, ast.Constant) and v.value is value
    if not (isinstance(e, ast.Call) and A.call_attr(e) == "ExistingMementoResult"):
        return False
    v = A.kwarg(e, "valid_result")
    if v is None and len(e.args) >= 2:
        v = e.args[1]
    if v is None:
        return False
    if isinstance(v, ast.UnaryOp) and isinstance(v.op, ast.Not):
        # `valid_result=not failed`: the flag's values on these paths, negated
        leaves = Assume(fa, lambda x: None).cases(v.operand, n, IN if IN is not None else fa.df.IN)
        return bool(leaves) and all(isinstance(x, ast.Constant) and isinstance(x.value, bool) and x.value is (not value) for (x, _) in leaves)
    leaves = Assume(fa, lambda x: None).cases(v, n, IN if IN is not None else fa.df.IN)
    return bool(leaves) and all(isinstance(x, ast.Constant) and x.value is value for (x, _) in leaves)


def _handler_appends_none(fa, handler, read_call):
    """From the handler, every path to the next iteration / the function's end appends None to the result list
    (directly, or through a variable that holds None on those paths), and none raises or returns early."""
    A0 = Assume(fa, lambda e: None)
    loop = fa.enclosing(read_call, (ast.For, ast.While))
    ok = False
    for hn in [n.id for n in fa.cfg.nodes if n.kind == "except" and n.ast is handler and n.id in fa.cfg.reachable_nodes()]:
        heads = set()
        if loop is not None:
            heads = set(fa.cfg.nodes_of(loop)) | set(fa.cfg.nodes_of(loop.test) if isinstance(loop, ast.While) else [])
        IN = A0.flow({hn: A0.handler_seed(hn)}, removed=heads)     # this iteration only
        appends = []
        for c in fa.calls("append"):
            for i in fa.nodes(c):
                if i in IN and len(c.args) == 1:
                    leaves = A0.cases(c.args[0], i, IN)
                    if leaves and all(A.is_none(e) for (e, _) in leaves):
                        appends.append(i)
        if not appends:
            if _slot_stays_none(fa, A0, hn, heads, read_call, loop):
                ok = True
                continue
            return False
        # without those appends, neither the loop head (next element), the exit nor a raise is reachable
        stops = set(appends)
        r = fa.cfg.reach([hn], removed=stops)
        ends = {fa.cfg.exit} | heads
        if r & ends:
            return False
        if any(fa.cfg.node(i).kind == "stmt" and isinstance(fa.cfg.node(i).ast, (ast.Raise, ast.Return)) for i in r):
            return False
        ok = True
    return ok


def _slot_stays_none(fa, A0, hn, heads, read_call, loop):
    """The pre-allocated spelling of "append None": the answer list is created with one None per element
    (`[None] * len(xs)`, `[None for _ in xs]`), the read is stored straight into its slot (`answers[i] = read(...)`),
    and on the handler's way to the next element / the end nothing is stored into the list and nothing raises or
    returns — so the slot of an unreadable element still holds None."""
    st = fa.stmt_of(read_call)
    if not (isinstance(st, ast.Assign) and st.value is read_call and len(st.targets) == 1 and isinstance(st.targets[0], ast.Subscript)
            and isinstance(st.targets[0].value, ast.Name) and loop is not None):
        return False
    lst = st.targets[0].value.id

    def all_none(e):
        if isinstance(e, ast.BinOp) and isinstance(e.op, ast.Mult):
            return any(isinstance(x, ast.List) and len(x.elts) == 1 and A.is_none(x.elts[0]) for x in (e.left, e.right))
        if isinstance(e, ast.ListComp):
            return A.is_none(e.elt) and not any(g.ifs for g in e.generators)
        return False
    defs = [d for i in fa.nodes(st) for d in fa.df.reaching(i, lst)]
    if not defs or not all(d.kind == "assign" and d.value is not None and all_none(d.value) and not fa.inside(d.stmt or d.value, loop) for d in defs):
        return False
    r = fa.cfg.reach([hn], removed=heads)
    for i in r:
        nd = fa.cfg.node(i)
        if nd.kind == "stmt" and isinstance(nd.ast, ast.Raise):
            return False
        if nd.kind == "stmt" and isinstance(nd.ast, ast.Return) and fa.inside(nd.ast, loop):
            return False
        if nd.kind == "stmt" and nd.ast is not None:
            for x in A.walk_local(nd.ast):
                if isinstance(x, ast.Subscript) and isinstance(x.ctx, (ast.Store, ast.Del)) and isinstance(x.value, ast.Name) and x.value.id == lst:
                    return False
                if isinstance(x, ast.Call) and isinstance(x.func, ast.Attribute) and isinstance(x.func.value, ast.Name) and x.func.value.id == lst \
                        and x.func.attr not in ("count", "index", "copy"):
                    return False
    # ... and that list is what the function returns
    rets = [(rt, i) for rt in fa.returns() if rt.value is not None for i in fa.nodes(rt)]
    return bool(rets) and all(isinstance(x, ast.Name) and x.id == lst or (isinstance(x, ast.Call) and A.call_attr(x) in ("list", "tuple") and len(x.args) == 1
                                                                           and isinstance(x.args[0], ast.Name) and x.args[0].id == lst)
                              for (rt, i) in rets for x in [rt.value])


def _is_returned_element(fa, A0, call):
    """Is the value of `call` the per-element answer of a comprehension / generator expression whose value the
    function returns (directly, through list()/tuple() and plain temporaries)?  This is the comprehension
    spelling of `for x in xs: results.append(call)`; `return results`."""
    def branches(e):
        return branches(e.body) + branches(e.orelse) if isinstance(e, ast.IfExp) else [e]

    comps = [x for x in A.walk_body(fa.fi.node) if isinstance(x, (ast.ListComp, ast.GeneratorExp))
             and any(b is call for b in branches(x.elt))]
    if not comps:
        return False

    def is_comp(e, n, dep=4):
        while isinstance(e, ast.Call) and isinstance(e.func, ast.Name) and e.func.id in ("list", "tuple") and len(e.args) == 1 and not e.keywords:
            e = e.args[0]
        if any(e is c for c in comps):
            return True
        if isinstance(e, ast.Name) and dep > 0:
            leaves = A0.cases(e, n, fa.df.IN)
            return bool(leaves) and not any(x is e for (x, _) in leaves) and all(is_comp(x, m, dep - 1) for (x, m) in leaves)
        return False

    rets = [(r, i) for r in fa.returns() if r.value is not None for i in fa.nodes(r)]
    return bool(rets) and all(is_comp(x, m) for (r, i) in rets for (x, m) in A0.cases(r.value, i, fa.df.IN))


def _is_valid_flag(fa, x, node_id, depth=5):
    """Does expression `x` read the valid flag of process_existing_memento's answer: `<r>.valid_result`, `<r>[1]`,
    or the second name of `value, valid = <r>` (r depending on that call)?"""
    CALL = "call:process_existing_memento"
    try:
        if isinstance(x, ast.Attribute) and x.attr == "valid_result":
            return CALL in fa.df.deps(x.value, node_id)
        if isinstance(x, ast.Subscript) and isinstance(x.slice, ast.Constant) and x.slice.value == 1:
            return CALL in fa.df.deps(x.value, node_id)
        if isinstance(x, ast.Name) and isinstance(x.ctx, ast.Load) and depth > 0:
            ds = fa.df.reaching(node_id, x.id)
            hit = False
            for d in ds:
                if d.kind == "unpack" and isinstance(d.stmt, ast.Assign) and len(d.stmt.targets) == 1 and isinstance(d.stmt.targets[0], (ast.Tuple, ast.List)):
                    elts = d.stmt.targets[0].elts
                    if len(elts) == 2 and isinstance(elts[1], ast.Name) and elts[1].id == x.id and CALL in fa.df.deps(d.value, d.node):
                        hit = True
                elif d.kind == "assign" and d.value is not None and not isinstance(d.value, ast.Constant):
                    if any(_is_valid_flag(fa, y, d.node, depth - 1) for y in [d.value]):
                        hit = True
            return hit
    except Exception:  # noqa
        return False
    return False


# What a caught OSError is guaranteed to carry.  errno / strerror / filename are filled in only when the raising
# site passed them: an error reported by write() / flush() / close() (ENOSPC, EFBIG in the middle of a file) has
# no file name, and an `IOError("text")` raised by the repository itself (the partition-merge signal) has none
# of the three — they are then None.
EXC_OPTIONAL = ("filename", "filename2", "errno", "strerror")
EXC_ALWAYS = EXC_OPTIONAL + ("args", "with_traceback", "add_note", "__class__", "__traceback__", "__cause__", "__context__",
                             "__suppress_context__", "__notes__", "__str__", "__repr__", "__doc__", "__dict__", "__reduce__")
NONE_TOLERANT_CALLS = ("str", "repr", "format", "print", "bool", "type", "isinstance", "id", "hash", "get", "ascii")
_NUMERIC_SPEC = __import__("re").compile(r"%[-+ #0-9.*]*[diouxXeEfFgGc]")


def _exc_detail(fa, h, x, at):
    """`x` (evaluated at `at`, inside handler `h`) as a detail of the caught exception, through local temporaries and
    aliases of the exception: ('optional', text) for errno / strerror / filename (may be None), ('absent', text) for
    an attribute an OSError need not have, ('index', text) for an element of its args; else None."""
    if h.name is None or not isinstance(x, (ast.Name, ast.Attribute, ast.Subscript)) or not isinstance(getattr(x, "ctx", None), ast.Load):
        return None
    try:
        e = fa.expand(x, at)
    except Exception:  # noqa - an expression the expander cannot place
        e = x
    is_exc = lambda v: isinstance(v, ast.Name) and v.id == h.name
    if isinstance(e, ast.Attribute) and is_exc(e.value):
        if e.attr in EXC_OPTIONAL:
            return ("optional", A.norm(e))
        if e.attr not in EXC_ALWAYS:
            return ("absent", A.norm(e))
    if isinstance(e, ast.Subscript) and isinstance(e.value, ast.Attribute) and e.value.attr == "args" and is_exc(e.value.value) \
            and not isinstance(e.slice, ast.Slice):
        return ("index", A.norm(e))
    return None


def _none_intolerant_use(fa, x):
    """How the value of expression `x` is consumed, when that fails for None: a description, or None when the use is
    harmless for None (formatting with {} / %s / an f-string, logging, str(), tests, comparisons by identity or
    equality, assignment, being returned)."""
    st = fa.stmt_of(x)
    if isinstance(st, ast.Assert) and (x is st.test or fa.inside(x, st.test)):
        return "`%s` asserts it" % A.short(st, 50)
    n = x
    while True:
        p = fa.pm.get(n)
        if p is None or isinstance(p, ast.stmt):
            return None
        if isinstance(p, ast.Attribute) and p.value is n:
            return "`%s` is read from it" % A.short(p, 50)
        if isinstance(p, ast.Subscript):
            return "`%s` subscripts %s it" % (A.short(p, 50), "with" if p.slice is n else "into")
        if isinstance(p, ast.Starred):
            return "`%s` unpacks it" % A.short(p, 50)
        if isinstance(p, ast.keyword):
            n = p
            continue
        if isinstance(p, ast.Call):
            if p.func is n:
                return "`%s` calls it" % A.short(p, 50)
            nm = A.call_attr(p)
            if log_call(p) or nm in NONE_TOLERANT_CALLS or (nm == "format" and isinstance(p.func, ast.Attribute)) \
                    or (nm == "getattr" and len(p.args) == 3):
                return None
            return "`%s` is given it as an argument" % A.short(p, 60)
        if isinstance(p, ast.FormattedValue):
            if p.format_spec is not None and A.norm(p.format_spec) not in ("''", 'f""', "f''", ""):
                return "the format specification of `%s` does not accept None" % A.short(p, 40)
            return None
        if isinstance(p, ast.BinOp):
            if isinstance(p.op, ast.Mod) and p.right is n or (isinstance(p.op, ast.Mod) and isinstance(p.right, ast.Tuple) and fa.inside(x, p.right)):
                tpl = A.const_str(p.left)
                if tpl is not None and not _NUMERIC_SPEC.search(tpl):
                    return None
                return "`%s` formats it with a conversion that does not accept None" % A.short(p, 50)
            return "`%s` computes with it" % A.short(p, 50)
        if isinstance(p, ast.UnaryOp):
            if isinstance(p.op, ast.Not):
                return None
            return "`%s` computes with it" % A.short(p, 50)
        if isinstance(p, ast.Compare):
            if all(isinstance(o, (ast.Is, ast.IsNot, ast.Eq, ast.NotEq)) for o in p.ops):
                return None
            if all(isinstance(o, (ast.In, ast.NotIn)) for o in p.ops) and p.left is n:
                return None
            return "`%s` orders / searches it" % A.short(p, 50)
        if isinstance(p, ast.BoolOp):
            if p.values[-1] is not n:
                return None            # used for its truth value
            n = p
            continue
        if isinstance(p, ast.IfExp):
            if p.test is n:
                return None
            n = p
            continue
        if isinstance(p, (ast.Tuple, ast.List, ast.Set, ast.Dict, ast.NamedExpr, ast.JoinedStr)):
            n = p
            continue
        if isinstance(p, (ast.comprehension, ast.ListComp, ast.SetComp, ast.GeneratorExp, ast.DictComp)):
            if isinstance(p, ast.comprehension) and p.iter is n:
                return "`%s` iterates over it" % A.short(p.iter, 50)
            return None
        return None


def _handler_cannot_fail(ck, R, fa, h, site, what):
    """The handler that absorbs the I/O error is itself total for EVERY OSError the storage layer can raise: it does
    not depend on details the error need not carry (an operation that fails for None on errno / strerror / filename, an
    attribute or args element that may not be there), unless a test of that very detail excludes the case; and it
    performs no storage operation that the same fault makes fail again outside a handler of its own."""
    from .c07 import expr_live
    from .effects import reach_effects
    faults = []
    for st in h.body:
        for x in A.walk_local(st):
            ids = fa.nodes(x) if isinstance(x, (ast.Name, ast.Attribute, ast.Subscript)) else []
            if not ids:
                continue
            d = _exc_detail(fa, h, x, ids[0])
            if d is None:
                continue
            kind, text = d
            par = fa.pm.get(x)
            if isinstance(par, ast.Attribute) and par.value is x and _exc_detail(fa, h, par, ids[0]) is not None:
                continue               # part of a longer detail expression that is judged itself
            if kind == "optional":
                how = _none_intolerant_use(fa, x)
                if how is None:
                    continue
                why = "%s, but `%s` is None unless the failing call supplied it (write / flush / close and the repository's own IOError(text) do not)" % (how, text)
            elif kind == "absent":
                if isinstance(par, ast.Call) and A.call_attr(par) in ("hasattr", "getattr"):
                    continue
                why = "`%s` is not an attribute every OSError has" % text
            else:
                why = "`%s` fails when the error was built with fewer arguments (IOError(text) has one)" % text
            base = text.split("[")[0]

            def atom(e, text=text, base=base, kind=kind):
                t = A.norm(e)
                if t == text:
                    return False                       # the detail is None / falsy
                if isinstance(e, ast.Compare) and len(e.ops) == 1 and A.norm(e.left) == text:
                    if isinstance(e.ops[0], ast.Is) and A.is_none(e.comparators[0]):
                        return True
                    if isinstance(e.ops[0], ast.Eq) and A.is_none(e.comparators[0]):
                        return True
                if isinstance(e, ast.Call) and A.call_attr(e) == "isinstance" and e.args and A.norm(e.args[0]) == text:
                    return False
                if isinstance(e, ast.Call) and A.call_attr(e) == "hasattr" and len(e.args) == 2 and kind == "absent" \
                        and "%s.%s" % (A.norm(e.args[0]), A.const_str(e.args[1])) == text:
                    return False
                if kind == "index" and isinstance(e, ast.Compare) and ("len(%s)" % base) in t:
                    return False                       # whatever the length test is, assume it does not hold
                return None
            if not expr_live(Assume(fa, atom), x):
                continue                               # a test of that very detail excludes the case
            faults.append((x, why))
    # storage operations inside the handler (a roll-back, a marker file, a second attempt) fail under the same fault
    for st in h.body:
        for c in A.walk_local(st):
            if not isinstance(c, ast.Call) or log_call(c):
                continue
            own = [t for t in _try_around(fa, c) if fa.inside(t, h) and any(_handler_covers_oserror(h2) for h2 in t.handlers)]
            if own:
                continue
            fs = []
            if c in ck.cg.fs_write_sites.get(fa.qual, []):
                fs = [(fa.fi, c, fa.qual)]
            else:
                try:
                    cands, _how = ck.cg.resolve(c, fa.fi)
                except Exception:  # noqa - unresolvable call: no effect known
                    cands = []
                for cand in cands:
                    fs += reach_effects(ck, cand)[0]
            if fs:
                faults.append((c, "`%s` writes to the store again (%s) outside a handler of its own; the fault that brought control here "
                                  "makes that fail too" % (A.short(c, 50), fs[0][2] if isinstance(fs[0][2], str) else fs[0][0].qual)))
    ok = not faults
    ck.ob(R, fa.key(site, "handler-cannot-fail"), ok,
          "the handler that absorbs the I/O error does not depend on optional details of the error and writes nothing" if ok else
          "the handler that absorbs an I/O error %s can raise itself, so the error is not absorbed and the caller gets an exception instead of "
          "the value: %s" % (what, "; ".join(m for (_, m) in faults[:2])), fa.where(faults[0][0]) if faults else fa.where(h))


def _is_oserror_class(ck, name) -> bool:
    """Is the exception class called `name` OSError or one of its subclasses: a builtin (IOError, FileNotFoundError,
    PermissionError, ... — the interpreter's exception hierarchy) or a class of the repository deriving from one."""
    import builtins
    b = getattr(builtins, name or "", None)
    if isinstance(b, type) and issubclass(b, BaseException):
        return issubclass(b, OSError)
    seen = set()
    todo = [c for c in ck.repo.all_classes() if c.name == name]
    while todo:
        c = todo.pop()
        if c.qual in seen:
            continue
        seen.add(c.qual)
        for bx in c.base_exprs:
            bn = bx.split(".")[-1]
            bb = getattr(builtins, bn, None)
            if isinstance(bb, type) and issubclass(bb, OSError):
                return True
        todo += ck.repo.bases(c)
    return False


BACKEND_ROOT = "storage.StorageBackend"


def _callees(ck, fa, call):
    for (c, cands, _how) in ck.cg.edges.get(fa.qual, []):
        if c is call:
            return cands
    return []


def is_backend_write(ck, fa, c):
    """Is `c` the call that hands a result to the storage backend: `<backend>.memoize(...)`, the receiver being the
    backend by type (a parameter / field / attribute of a per-call object that the call graph types as a
    StorageBackend) or, failing a type, the runner's `storage_backend` parameter through local aliases."""
    if A.call_attr(c) != "memoize" or A.call_recv(c) is None or not fa.nodes(c):
        return False
    base = ck.repo.cls(BACKEND_ROOT)
    backends = {k.qual for k in ck.repo.subclasses(base, strict=False)}
    if any(h.cls is not None and h.cls.qual in backends for h in _callees(ck, fa, c)):
        return True
    return fa.xnorm(A.call_recv(c), fa.nodes(c)[0]) == "storage_backend"


def same_module_reach(ck, root, stop=()):
    """The function and the functions of its module that it reaches through resolved calls (helpers, methods of
    per-call objects, nested closures), in breadth-first order, as FA bundles."""
    fas = {root.qual: root}
    order = [root]
    i = 0
    while i < len(order) and len(order) < 60:
        f = order[i]
        i += 1
        for (_call, cands, _how) in ck.cg.edges.get(f.qual, []):
            for h in cands:
                if h.module is root.fi.module and h.qual not in fas and h.qual not in stop:
                    fas[h.qual] = FA(ck, h)
                    order.append(fas[h.qual])
    return order


def write_attempt_walk(ck):
    """Where the local runner offers a computed result to the store, wherever a restructuring put it: in
    memento_run_local itself or in a function of the same module that it reaches (a helper the front end could not
    fold back, a method of a per-call object, a nested closure / generator).
    -> (host FA, {qual: FA}, {qual: [write calls]}, {qual: [write calls + calls that lead to one]})"""
    host = FA(ck, "runner_local.memento_run_local")
    order = same_module_reach(ck, host)
    fas = {f.qual: f for f in order}
    sites = {}
    for f in order:
        cs = [c for c in f.calls("memoize") if is_backend_write(ck, f, c)]
        if cs:
            sites[f.qual] = cs
    targets = {q: list(cs) for (q, cs) in sites.items()}
    changed = True
    while changed:
        changed = False
        for f in order:
            for (call, cands, _how) in ck.cg.edges.get(f.qual, []):
                if any(h.qual in targets and h.qual != f.qual for h in cands) and f.nodes(call) and not any(call is t for t in targets.get(f.qual, [])):
                    targets.setdefault(f.qual, []).append(call)
                    changed = True
    return host, fas, sites, targets


def _suppressed(fa, site):
    """Is `site` in the body of `with contextlib.suppress(<types covering OSError>)`?"""
    for w in _with_ancestors(fa, site):
        for it in w.items:
            e = it.context_expr
            if isinstance(e, ast.Call) and A.call_attr(e) == "suppress" and any(A.norm(t).split(".")[-1] in OSERROR_NAMES - {"Exception", "BaseException"} for t in e.args):
                return True
    return False


def _swallowing_manager(ck, fa, site):
    """The `with` spelling of "except IOError": `site` stands in the body of a `with` whose context manager is an
    instance of a class of the module, and that class's __exit__, given an OSError, answers truthy on every path (the
    error is swallowed and control continues after the `with`).
    -> (with statement, manager expression text, {field: constant __exit__ leaves in it on those paths}, FA of __exit__) or None."""
    for w in _with_ancestors(fa, site):
        for it in w.items:
            mgr = it.context_expr
            ctor = mgr
            if isinstance(mgr, ast.Name) and fa.nodes(w):
                ds = fa.df.reaching(fa.nodes(w)[0], mgr.id)
                if len(ds) != 1 or ds[0].kind != "assign" or ds[0].value is None:
                    continue
                ctor = ds[0].value
            if not (isinstance(ctor, ast.Call) and isinstance(ctor.func, ast.Name)):
                continue
            cls = fa.fi.module.classes.get(ctor.func.id)
            ex = cls.methods.get("__exit__") if cls is not None else None
            if ex is None or len(ex.params) < 3:
                continue
            fx = FA(ck, ex)
            me, etype, evalue = ex.params[0], ex.params[1], ex.params[2]

            def atom(e, etype=etype, evalue=evalue):
                if isinstance(e, ast.Name) and e.id in (etype, evalue):
                    return True
                if isinstance(e, ast.Compare) and len(e.ops) == 1 and isinstance(e.ops[0], ast.Is) and isinstance(e.left, ast.Name) \
                        and e.left.id in (etype, evalue) and A.is_none(e.comparators[0]):
                    return False
                if isinstance(e, ast.Call) and A.call_attr(e) in ("isinstance", "issubclass") and len(e.args) == 2 \
                        and isinstance(e.args[0], ast.Name) and e.args[0].id in (etype, evalue):
                    ts = e.args[1].elts if isinstance(e.args[1], ast.Tuple) else [e.args[1]]
                    return True if any(A.norm(t).split(".")[-1] in OSERROR_NAMES for t in ts) else None
                return None
            asm = Assume(fx, atom)
            live = asm.reach()
            # fields the error path leaves set to a constant: assigned on every path to the exit, and only to that
            fields = {}
            for st in fx.stmts(ast.Assign):
                for t in st.targets:
                    if isinstance(t, ast.Attribute) and isinstance(t.value, ast.Name) and t.value.id == me and isinstance(st.value, ast.Constant):
                        ids = [i for i in fx.nodes(st) if i in live]
                        if ids and fx.cfg.exit not in fx.cfg.reach([fx.cfg.entry], removed=ids, edge_ok=asm.edge_ok):
                            fields.setdefault(t.attr, set()).add(st.value.value)
            fields = {f: vs.pop() for (f, vs) in fields.items() if len(vs) == 1}

            def truthy(e, n):
                if isinstance(e, ast.Attribute) and isinstance(e.value, ast.Name) and e.value.id == me and e.attr in fields:
                    return bool(fields[e.attr])
                return asm.truth(e, n)
            rets = [(r, i) for r in fx.returns() for i in fx.nodes(r) if i in live]
            if not rets or fx.cfg.exit in fx.cfg.reach([fx.cfg.entry], removed=[i for (_r, i) in rets], edge_ok=asm.edge_ok):
                continue               # can fall off the end (answers None: the error propagates)
            if all(r.value is not None and all(truthy(e, n) is True for (e, n) in asm.cases(r.value, i)) for (r, i) in rets):
                name = mgr.id if isinstance(mgr, ast.Name) else (it.optional_vars.id if isinstance(it.optional_vars, ast.Name) else None)
                return w, (name, cls.name), fields, fx
    return None


def _invalid_after_swallow(fa, w, mgr, fields):
    """After the `with` statement `w` has swallowed an error, every answer of the function is "not valid": each return that
    control can reach from the `with` and that lies outside it carries valid_result False once the manager's fields
    hold what its __exit__ left in them."""
    def atom(e):
        if isinstance(e, ast.Attribute) and e.attr in fields and (
                (isinstance(e.value, ast.Name) and e.value.id == mgr[0]) or
                (isinstance(e.value, ast.Call) and isinstance(e.value.func, ast.Name) and e.value.func.id == mgr[1])):
            return bool(fields[e.attr])
        return None
    asm = Assume(fa, atom)
    after = fa.cfg.reach(fa.nodes(w))
    rets = [(r, i) for r in fa.returns() if not fa.inside(r, w) for i in fa.nodes(r) if i in after]
    if not rets:
        return False
    for (r, i) in rets:
        if r.value is None:
            return False
        for (leaf, n) in asm.cases(r.value, i, fa.df.IN):
            if not (isinstance(leaf, ast.Call) and A.call_attr(leaf) == "ExistingMementoResult"):
                return False
            v = A.kwarg(leaf, "valid_result") or (leaf.args[1] if len(leaf.args) >= 2 else None)
            if v is None or asm.truth(v, n) is not False:
                return False
    return True


def _guarding_wrapper(ck, fi):
    """(FA of the wrapper, the wrapper's call of the wrapped function) when `fi` is defined under a decorator of its
    own module that replaces it by a nested function calling it (`def deco(step): def guarded(*a): ... step(*a) ...;
    return guarded`): whatever surrounds that call in the wrapper surrounds every statement of `fi`."""
    for d in fi.node.decorator_list:
        dn = d.func if isinstance(d, ast.Call) else d
        if not isinstance(dn, ast.Name):
            continue
        deco = fi.module.functions.get(dn.id)
        if deco is None or not deco.params or isinstance(d, ast.Call):
            continue
        wrapped = deco.params[0]
        for w in deco.nested.values():
            # the decorator hands back the nested function (directly or through functools.wraps(...)(w) / a temporary)
            returned = any(isinstance(r, ast.Return) and r.value is not None and any(isinstance(x, ast.Name) and x.id == w.name for x in ast.walk(r.value))
                           for r in A.walk_body(deco.node))
            if not returned:
                continue
            fw = FA(ck, w)
            calls = [c for c in fw.calls() if isinstance(c.func, ast.Name) and c.func.id == wrapped and fw.nodes(c)]
            if calls:
                return fw, calls[0]
    return None


def _sorting_handler_absorbs_oserror(ck, fa, h) -> bool:
    """`h` catches everything under a name, tests the class of what it caught (isinstance) and, when that is an OSError, raises
    nothing: decided by what remains reachable inside the handler under the assumption that the caught object is an OSError."""
    if h.name is None or h.type is None or A.norm(h.type) not in ("Exception", "BaseException"):
        return False
    decided = [0]
    asm = Assume(fa, _caught_oserror_atom(h, decided))
    raises = [n for st in h.body for n in A.walk_local(st) if isinstance(n, ast.Raise)]
    live = [r for r in raises if asm.live(r)]
    return bool(raises) and not live and decided[0] > 0


def _handler_yields_none(fa, handler) -> bool:
    """In a generator: every path from the handler reaches, before anything else is yielded, raised or the generator ends, a
    `yield None` -- the slot of the item at hand is filled with "absent"."""
    cfg = fa.cfg
    ynodes = {}
    for n in cfg.nodes:
        if n.kind == "stmt" and n.ast is not None and n.id in cfg.reachable_nodes():
            ys = [x for x in A.walk_local(n.ast) if isinstance(x, (ast.Yield, ast.YieldFrom))]
            if ys:
                ynodes[n.id] = ys
    hns = [n.id for n in cfg.nodes if n.kind == "except" and n.ast is handler and n.id in cfg.reachable_nodes()]
    if not hns:
        return False
    asm = Assume(fa, _caught_oserror_atom(handler))
    live = asm.reach(hns, removed=list(ynodes))
    if cfg.exit in live or getattr(cfg, "raise_exit", None) in live:
        return False
    if any(cfg.node(i).kind == "stmt" and isinstance(cfg.node(i).ast, (ast.Raise, ast.Return)) for i in live):
        return False
    first = {d for i in live for (d, l) in cfg.succ[i] if d in ynodes and asm.edge_ok(i, d, l)}
    return bool(first) and all(len(ynodes[d]) == 1 and isinstance(ynodes[d][0], ast.Yield)
                               and (ynodes[d][0].value is None or A.is_none(ynodes[d][0].value)) for d in first)


def _returns_all_of(fa, A0, call) -> bool:
    """The function returns exactly what the generator call yields: list(call) / tuple(call) / [*call] / [x for x in call], directly or
    through plain temporaries."""
    def whole(e, n, dep=4):
        while isinstance(e, ast.Call) and isinstance(e.func, ast.Name) and e.func.id in ("list", "tuple") and len(e.args) == 1 and not e.keywords:
            e = e.args[0]
        if e is call:
            return True
        if isinstance(e, (ast.List, ast.Tuple)) and len(e.elts) == 1 and isinstance(e.elts[0], ast.Starred):
            return whole(e.elts[0].value, n, dep)
        if isinstance(e, (ast.ListComp, ast.GeneratorExp)) and len(e.generators) == 1 and not e.generators[0].ifs \
                and isinstance(e.elt, ast.Name) and isinstance(e.generators[0].target, ast.Name) and e.elt.id == e.generators[0].target.id:
            return whole(e.generators[0].iter, n, dep)
        if isinstance(e, ast.Name) and dep > 0:
            leaves = A0.cases(e, n, fa.df.IN)
            return bool(leaves) and not any(x is e for (x, _) in leaves) and all(whole(x, m, dep - 1) for (x, m) in leaves)
        return False
    rets = [(r, i) for r in fa.returns() if r.value is not None for i in fa.nodes(r)]
    return bool(rets) and all(whole(x, m) for (r, i) in rets for (x, m) in A0.cases(r.value, i, fa.df.IN))


def check_recovery(ck):
    R = "C08.R3"
    ck.rule(R, "absorb and recover: I/O errors are absorbed around memoize in the local runner, around the read in "
               "process_existing_memento (=> not valid => recompute) and around the memento read in get_mementos "
               "(=> None); the partition-merge failure is an OSError", 4)
    rl0, _fas, per_fn, _targets = write_attempt_walk(ck)
    sites = [(_fas[q], c) for q in per_fn for c in per_fn[q]]
    ck.need(sites, "runner_local.memento_run_local: expected storage_backend.memoize call, found none")
    for (rl, c) in sites:
        trys = _try_around(rl, c)
        hs = [h for t in trys for h in t.handlers if _handler_covers_oserror(h) and A.norm(h.type) not in ("Exception", "BaseException")]
        ok = bool(hs) and all(not any(isinstance(n, ast.Raise) for n in A.walk_local(h)) for h in hs[:1])
        if not hs:
            # a catch-all handler that sorts what it caught by class and hands everything but I/O errors on (guard-clause spelling of
            # the typed handler: `except Exception as e: if not isinstance(e, IOError): raise` ...)
            hs = [h for t in trys for h in t.handlers if _sorting_handler_absorbs_oserror(ck, rl, h)][:1]
            ok = bool(hs)
        if not hs and (_suppressed(rl, c) or _swallowing_manager(ck, rl, c) is not None):
            # the `with` spelling of the handler: contextlib.suppress(IOError) / a manager of the module whose __exit__
            # swallows an OSError — control continues after the `with`
            ok = True
        ck.ob(R, rl.key(c, "absorb-write-error"), ok, "an I/O error while memoizing is logged and swallowed; the computed result is still returned" if ok else
              "an I/O error raised by memoize escapes (or is re-raised): the caller gets an exception instead of the computed value", rl.where(c))
        if hs:
            _handler_cannot_fail(ck, R, rl, hs[0], c, "while memoizing")
            # after the handler the normal result paths remain reachable
            hn = [n.id for n in rl.cfg.nodes if n.kind == "except" and n.ast is hs[0]]
            okc = bool(hn) and rl.cfg.exit in rl.cfg.reach(hn)
            ck.ob(R, rl.key(c, "continues"), okc, "execution continues to the return after a failed write" if okc else
                  "after a failed write the function does not reach its return", rl.where(c))
    pe = FA(ck, "runner.process_existing_memento")
    rr = [(pe, c) for c in pe.calls("read_result")]
    if not rr:
        # the read was moved into a function of the module that is reached through something the call graph does not
        # follow (a dispatch table, a decorated step): every read of a stored result in the module is held to the clause
        for q in sorted(ck.cg.funcs):
            fi = ck.cg.funcs[q]
            if fi.module is pe.fi.module and fi.qual != pe.qual and any(A.call_attr(x) == "read_result" for x in A.body_calls(fi.node)):
                fh = FA(ck, fi)
                rr += [(fh, c) for c in fh.calls("read_result")]
    ck.need(rr, "runner.process_existing_memento: expected read_result call, found none")
    for (fr, c) in rr:
        g, gc = fr, c
        if not [h for t in _try_around(fr, c) for h in t.handlers if _handler_covers_oserror(h)]:
            # not guarded where it stands: guarded by a decorator of the function it stands in?
            w = _guarding_wrapper(ck, fr.fi)
            if w is not None:
                g, gc = w
        trys = _try_around(g, gc)
        hs = [h for t in trys for h in t.handlers if _handler_covers_oserror(h)]
        ok = False
        if hs:
            # whatever the function returns on a path through the handler is "not valid" (early return in the
            # handler or a result variable returned after the try), and nothing is re-raised
            vals, raises = _after_handler(g, hs[0])
            ok = bool(vals) and not raises and all(_valid_flag_is(g, e, n, False, IN) for (e, n, IN) in vals)
            _handler_cannot_fail(ck, R, g, hs[0], gc, "while reading a memoized result")
        else:
            # a context manager of the module whose __exit__ swallows the error: control continues after the `with`
            sw = _swallowing_manager(ck, g, gc)
            if sw is not None:
                ok = _invalid_after_swallow(g, sw[0], sw[1], sw[2])
        ck.ob(R, fr.key(c, "read-error-means-invalid"), ok, "an I/O error while reading means 'not valid' (the caller recomputes)" if ok else
              "an I/O error while reading a memoized result is not turned into valid_result=False", fr.where(c))
    gm = FA(ck, "storage_base.DataSourceMetadataSource.get_mementos")
    rm = [c for c in gm.calls("_read_memento")]
    if not rm:
        # the guarded read was moved into a helper of the class that returns from inside its try (the front end
        # does not fold that back): there, a path through the handler must answer None, and the caller must
        # append that answer
        A0 = Assume(gm, lambda e: None)
        for (call, cands, how) in ck.cg.edges.get(gm.qual, []):
            for h in cands:
                if h.cls is not gm.fi.cls:
                    continue
                fh = FA(ck, h)
                for c in fh.calls("_read_memento"):
                    hs = [x for t in _try_around(fh, c) for x in t.handlers if _handler_covers_oserror(x)]
                    ok = False
                    if hs and any(isinstance(x, (ast.Yield, ast.YieldFrom)) for x in A.walk_body(fh.node)):
                        # a generator of answers, one per call asked for: after the handler the next thing yielded is None, and
                        # the caller returns everything the generator yields, in order
                        ok = _handler_yields_none(fh, hs[0]) and _returns_all_of(gm, A0, call)
                        _handler_cannot_fail(ck, R, fh, hs[0], c, "while reading a memento")
                    elif hs:
                        vals, raises = _after_handler(fh, hs[0])
                        ok = bool(vals) and not raises and all(A.is_none(e) for (e, n, IN) in vals)
                        appended = [a for a in gm.calls("append") if len(a.args) == 1 and gm.nodes(a)
                                    and any(e is call for (e, _) in A0.cases(a.args[0], gm.nodes(a)[0], gm.df.IN))]
                        ok = ok and (bool(appended) or _is_returned_element(gm, A0, call))
                        _handler_cannot_fail(ck, R, fh, hs[0], c, "while reading a memento")
                    ck.ob(R, fh.key(c, "unreadable-means-absent"), ok, "an unreadable memento counts as absent" if ok else
                          "an I/O error while reading a memento escapes get_mementos", fh.where(c))
                    rm = None
    ck.need(rm is None or rm, "storage_base.DataSourceMetadataSource.get_mementos: expected _read_memento call, found none")
    for c in rm or []:
        trys = _try_around(gm, c)
        hs = [h for t in trys for h in t.handlers if _handler_covers_oserror(h)]
        ok = False
        if hs:
            ok = _handler_appends_none(gm, hs[0], c)
            _handler_cannot_fail(ck, R, gm, hs[0], c, "while reading a memento")
        ck.ob(R, gm.key(c, "unreadable-means-absent"), ok, "an unreadable memento counts as absent" if ok else
              "an I/O error while reading a memento escapes get_mementos", gm.where(c))
        # json damage (truncated file) is a ValueError: not required by the design table, noted
    ps = FA(ck, "storage_base.DefaultCodec.PicklePartitionStrategy.store")
    A0p = Assume(ps, lambda e: None)
    for r in ps.stmts(ast.Raise):
        if r.exc is None or not ps.nodes(r):
            continue
        for (leaf, _n) in A0p.cases(r.exc, ps.nodes(r)[0], ps.df.IN):
            if isinstance(leaf, ast.Call) or (isinstance(leaf, (ast.Name, ast.Attribute)) and (A.dotted(leaf) or "").split(".")[-1][:1].isupper()):
                nm = A.call_attr(leaf) if isinstance(leaf, ast.Call) else A.dotted(leaf).split(".")[-1]
                ok = _is_oserror_class(ck, nm)
                ck.ob(R, ps.key(r, "io-signal"), ok, "merge failure is signalled as an I/O error (absorbed by the runner)" if ok else
                      "merge failure is signalled as %s, which the runner does not absorb" % nm, ps.where(r))
    # the runner's second use of process_existing_memento treats 'not valid' as 'compute'
    anchors = ("runner_local.memento_run_local", "runner_local.LocalRunnerBackend.batch_run")
    for qual in anchors:
        f = FA(ck, qual)
        group = [f]
        if not f.calls("process_existing_memento"):
            # the replay step was moved into a function of the module that the front end could not fold back
            # (a nested generator, a method of a per-call object): the flag is looked for where the call went
            group = [g for g in same_module_reach(ck, f, stop=[a for a in anchors if a != qual]) if g.calls("process_existing_memento")]
        ck.need(group, "%s: expected process_existing_memento call, found none" % qual)
        tests = [n for g in group for n in g.cfg.nodes if n.kind == "test" and n.id in g.cfg.reachable_nodes()
                 and any(_is_valid_flag(g, x, n.id) for x in ast.walk(n.ast))]
        ck.ob(R, f.key(None, "valid-flag-tested"), bool(tests), "the valid flag decides between serve and compute" if tests else
              "%s does not branch on valid_result" % qual, f.where())


# What the store itself says about a call: the only things that may decide that a computed result is NOT written.
STORE_ANSWERS = ("is_memoized", "is_all_memoized", "get_memento", "get_mementos", "process_existing_memento", "all_mementos_exist",
                 "read_result", "read_metadata")


def _atoms_of(test):
    """The atomic conditions of a branch test (operands of and / or / not, recursively)."""
    if isinstance(test, ast.BoolOp):
        return [a for v in test.values for a in _atoms_of(v)]
    if isinstance(test, ast.UnaryOp) and isinstance(test.op, ast.Not):
        return _atoms_of(test.operand)
    return [test]


CONTAINER_MAKERS = ("set", "dict", "list", "defaultdict", "OrderedDict", "deque", "Counter", "WeakValueDictionary", "WeakKeyDictionary", "WeakSet",
                    "bytearray", "ChainMap", "local")
MUTATING_METHODS = ("add", "append", "update", "extend", "insert", "setdefault", "appendleft", "pop", "popitem", "clear", "remove", "discard",
                    "__setitem__", "__delitem__", "put", "push")


def _process_state(fa, name):
    """Is the non-local name `name` state of the process that outlives a call and can change: a module-level
    container of the function's module (a set / dict / list ... literal or constructor), a module-level object
    that some code of the module mutates (mutator method, item store / delete, augmented assignment), or a
    module-level name that a function rebinds through `global`?  Constants, tuples of constants, aliases of named
    constants and identity sentinels (`object()`) are not."""
    from ..inline import _immutable_default
    m = fa.fi.module
    if name not in m.assigns:
        return False
    v = m.assigns[name]
    if _immutable_default(v):
        return False
    if isinstance(v, (ast.Set, ast.Dict, ast.List, ast.ListComp, ast.SetComp, ast.DictComp)):
        return True
    if isinstance(v, ast.Call) and A.call_attr(v) in CONTAINER_MAKERS:
        return True
    for n in ast.walk(m.tree):
        if isinstance(n, ast.Global) and name in n.names:
            return True
        if isinstance(n, ast.Call) and isinstance(n.func, ast.Attribute) and n.func.attr in MUTATING_METHODS \
                and isinstance(n.func.value, ast.Name) and n.func.value.id == name:
            return True
        if isinstance(n, ast.Subscript) and isinstance(n.ctx, (ast.Store, ast.Del)) and isinstance(n.value, ast.Name) and n.value.id == name:
            return True
        if isinstance(n, ast.Attribute) and isinstance(n.ctx, (ast.Store, ast.Del)) and isinstance(n.value, ast.Name) and n.value.id == name:
            return True
    return False


def _branch_tests_of(fa, node_ids):
    """Branch tests that decide whether one of the CFG nodes is reached: one branch can reach it, the other cannot."""
    cfg = fa.cfg
    want = set(node_ids)
    out = []
    live = cfg.reachable_nodes()
    for n in cfg.nodes:
        if n.kind != "test" or n.id not in live or n.ast is None or n.id in want:
            continue
        br = {}
        for (d, l) in cfg.succ[n.id]:
            if l in ("T", "F"):
                br.setdefault(l, []).append(d)
        if set(br) != {"T", "F"}:
            continue
        a, b = bool(cfg.reach(br["T"]) & want), bool(cfg.reach(br["F"]) & want)
        if a != b:
            out.append(n)
    return out


def _guard_deps(ck, fa, expr, at, depth=2, _seen=None):
    """What the value of a guard depends on: the dependency atoms of the expression; for a local that is given
    its value in several places (a verdict flag: `ok = False` here, `ok = not q()` there) also what the branch
    tests that choose between those places depend on; and — for a call of a function of the same module — what
    everything that function can return depends on."""
    seen = _seen if _seen is not None else set()
    try:
        out = set(fa.df.deps(expr, at))
    except Exception:  # noqa - an expression the dependency closure cannot place
        return {"unknown:"}
    # control dependence of multiply-defined locals
    todo = [(x.id, at) for x in ast.walk(expr) if isinstance(x, ast.Name) and isinstance(x.ctx, ast.Load)]
    done = set()
    while todo and len(done) < 40:
        name, n = todo.pop()
        if (name, n) in done or not fa.df.is_local(name):
            continue
        done.add((name, n))
        ds = [d for d in fa.df.reaching(n, name) if d.kind != "param"]
        for d in ds:
            if d.value is not None and d.kind in ("assign", "aug", "unpack"):
                todo += [(x.id, d.node) for x in ast.walk(d.value) if isinstance(x, ast.Name) and isinstance(x.ctx, ast.Load)]
        if len(ds) < 2:
            continue
        # (a test that decides whether ALL of the places are reached -- an early return in front of them -- does not choose
        # between them: which value the local holds at the guard does not depend on it)
        per_def = {d.node: {t.id for t in _branch_tests_of(fa, [d.node])} for d in ds}
        common = set.intersection(*per_def.values()) if per_def else set()
        for d in ds:
            for t in _branch_tests_of(fa, [d.node]):
                if t.id in common and t.id in {x.id for x in _branch_tests_of(fa, [n])}:
                    continue
                key = ("ctl", t.id)
                if key in seen:
                    continue
                seen.add(key)
                out |= _guard_deps(ck, fa, t.ast, t.id, depth, seen)
    if depth <= 0:
        return out
    names = {a[5:] for a in out if a.startswith("call:")}
    for (_call, cands, _how) in ck.cg.edges.get(fa.qual, []):
        for h in cands:
            if h.name in names and h.module is fa.fi.module and h.qual not in seen and h.qual != fa.qual:
                seen.add(h.qual)
                fh = FA(ck, h)
                for r in fh.returns():
                    if r.value is not None:
                        for i in fh.nodes(r)[:1]:
                            out |= _guard_deps(ck, fh, r.value, i, depth - 1, seen)
                            for t in _branch_tests_of(fh, [i]):
                                out |= _guard_deps(ck, fh, t.ast, t.id, depth - 1, seen)
                # a generator helper answers through what it yields
                for y in A.walk_body(h.node):
                    if isinstance(y, ast.Yield) and y.value is not None and fh.nodes(y):
                        out |= _guard_deps(ck, fh, y.value, fh.nodes(y)[0], depth - 1, seen)
    return out


def _attempt_guards(fa, targets):
    """The conditions that decide whether one of `targets` (calls: the write attempt, or a call that leads to it) is
    evaluated although the function goes on to return normally: [(test expression, cfg node, 'skips when true' /
    'skips when false')] — branch tests one of whose branches cannot reach any target but reaches the normal
    exit while the other branch can reach a target, and the tests of conditional expressions / short-circuit
    operators that enclose a target inside its statement.  Loop tests are left out."""
    cfg = fa.cfg
    tnodes = set(fa.nodes_all(targets))
    out = []
    if not tnodes:
        return out
    live = cfg.reachable_nodes()
    for n in cfg.nodes:
        if n.kind != "test" or n.id not in live or n.ast is None or isinstance(fa.pm.get(n.ast), ast.While):
            continue
        if n.id in tnodes:
            continue
        br = {}
        for (d, l) in cfg.succ[n.id]:
            if l in ("T", "F"):
                br.setdefault(l, []).append(d)
        if set(br) != {"T", "F"}:
            continue
        r = {l: cfg.reach(br[l]) for l in br}
        for (skip, other) in (("T", "F"), ("F", "T")):
            if not (r[skip] & tnodes) and cfg.exit in r[skip] and (r[other] & tnodes):
                out.append((n.ast, n.id, skip == "T"))
    for t in targets:
        ids = fa.nodes(t)
        if not ids:
            continue
        ch = t
        par = fa.pm.get(ch)
        while par is not None and not isinstance(par, ast.stmt):
            if isinstance(par, ast.IfExp) and ch is not par.test:
                out.append((par.test, ids[0], ch is par.orelse))
            if isinstance(par, ast.BoolOp) and par.values[0] is not ch:
                for v in par.values[:par.values.index(ch)]:
                    out.append((v, ids[0], isinstance(par.op, ast.Or)))
            ch, par = par, fa.pm.get(par)
    return out


def check_attempt_not_remembered(ck):
    R = "C08.R7"
    ck.rule(R, "memoization recovers: a computed result is offered to the store unless the STORE says it already has it — "
               "every condition under which the local runner skips the write and still returns is an answer of the storage "
               "backend about this call, and none depends on state of the process that outlives the call (a record of "
               "earlier failures)", 1)
    host, fas, sites, targets = write_attempt_walk(ck)
    ck.need(sites, "runner_local.memento_run_local: expected storage_backend.memoize call, found none")
    want = {"call:" + x for x in STORE_ANSWERS}
    for q in sorted(targets):
        fa = fas[q]
        for (test, at, _when) in _attempt_guards(fa, targets[q]):
            try:
                full = fa.expand(test, at)         # a flag local is judged by the atoms of what it was given
            except Exception:  # noqa - an expression the expander cannot place
                full = test
            atoms = _atoms_of(full) if len(_atoms_of(full)) > len(_atoms_of(test)) else _atoms_of(test)
            for atom in atoms:
                if isinstance(atom, ast.Constant):
                    continue
                deps = _guard_deps(ck, fa, atom, at)
                if "unknown:" in deps:
                    from ..loader import AnalysisError
                    raise AnalysisError("%s: cannot tell what the condition `%s` of the write attempt depends on" % (fa.qual, A.short(atom, 60)))
                state = sorted(a[7:] for a in deps if a.startswith("global:") and _process_state(fa, a[7:]))
                if state:
                    ok, msg = False, ("whether a computed result is written to the store depends on `%s`, state of the process that outlives the "
                                      "call: once it says 'skip' (e.g. after an I/O error that has long gone away) the result is never offered to "
                                      "the store again and every later call recomputes, although a write would now succeed" % ", ".join(state))
                elif not (deps & want):
                    ok, msg = False, ("the write of a computed result is skipped depending on `%s`, which is not an answer of the store about this "
                                      "call: a result computed while it holds is returned but never memoized, so later calls recompute "
                                      "forever" % A.short(atom, 60))
                else:
                    ok, msg = True, "the write is skipped only on the store's own answer"
                ck.ob(R, fa.key(test, "attempt-guard:" + A.norm(atom)[:80]), ok, msg, fa.where(test))


def _requires_every(fa, sources):
    """Does the function answer True only when EVERY validity answer obtained from `sources` (method names) is
    True?  Decided on the answers, not on the spelling: `all(<answers>)`, `False not in <answers>`, or a loop over
    the answers (or over the keys, asking per key) in which an invalid element leads to `return False` on every
    path, the positive answer being given only after that loop.  -> (ok, reason)"""
    A0 = Assume(fa, lambda e: None)
    SRC = {"call:" + s_ for s_ in sources}

    def from_src(e, n):
        try:
            return bool(SRC & fa.df.deps(e, n))
        except Exception:  # noqa - an expression without a node
            return False

    def is_false(e):
        return isinstance(e, ast.Constant) and e.value is False

    # loops in which an invalid element forces the answer False
    strict_heads = []
    strict_loops = []
    for lp in fa.stmts(ast.For):
        heads = [h for h in fa.cfg.nodes_of(lp) if h in fa.cfg.reachable_nodes()]
        if not heads:
            continue
        tnames = {x.id for x in ast.walk(lp.target) if isinstance(x, ast.Name)}
        over_answers = from_src(lp.iter, heads[0])

        def atom(e, tnames=tnames, over_answers=over_answers):
            if over_answers and isinstance(e, ast.Name) and e.id in tnames:
                return False
            if isinstance(e, ast.Call) and A.call_attr(e) in sources and not over_answers:
                return False
            return None
        asm = Assume(fa, atom)
        hit = any(n.kind == "test" and fa.inside(n.ast, lp) and asm.truth(n.ast, n.id) is not None for n in fa.cfg.nodes if n.ast is not None) or \
            any(n.kind == "stmt" and isinstance(n.ast, (ast.Assign, ast.AugAssign)) and fa.inside(n.ast, lp) and asm.truth(n.ast.value, n.id) is not None
                for n in fa.cfg.nodes if n.ast is not None)
        if not hit:
            continue
        ok = True
        for h in heads:
            starts = [d for (d, l) in fa.cfg.succ[h] if l == "T"]
            # this iteration and whatever follows the loop, without entering the loop head again
            IN = asm.flow({st_: set(fa.df.IN[st_]) for st_ in starts}, removed={h})
            region = set(IN)
            back = [n_ for n_ in region if any(d == h and asm.edge_ok(n_, d, l) for (d, l) in fa.cfg.succ[n_])]
            if back:
                # the next element is looked at.  That is still a decision if this element left a flag False that no
                # later element can raise again (every assignment to it in the loop is `flag and ...` or False): what
                # follows the loop is then judged with the flag as this iteration left it
                seed = set()
                for n_ in back:
                    gen = fa.df.gen.get(n_, [])
                    killed = {d.name for d in gen if d.kind != "aug"}
                    seed |= {d for d in IN[n_] if d.name not in killed} | set(gen)
                lowered = {d.name for d in seed if d.kind in ("assign", "aug") and d.value is not None and d.node in region
                           and fa.inside(d.stmt if d.stmt is not None else d.value, lp) and asm.truth(d.value, d.node) is False
                           and (d.kind == "assign" or isinstance(getattr(d.stmt, "op", None), ast.BitAnd))}

                def monotone(name):
                    for st_ in fa.stmts((ast.Assign, ast.AugAssign, ast.AnnAssign)):
                        if not fa.inside(st_, lp):
                            continue
                        tg = st_.targets if isinstance(st_, ast.Assign) else [st_.target]
                        if not any(isinstance(t, ast.Name) and t.id == name for t in tg):
                            continue
                        v = st_.value
                        if isinstance(st_, ast.AugAssign):
                            if not isinstance(st_.op, ast.BitAnd):
                                return False
                            continue
                        if is_false(v):
                            continue
                        if isinstance(v, ast.BoolOp) and isinstance(v.op, ast.And) and any(isinstance(x, ast.Name) and x.id == name for x in v.values):
                            continue
                        return False
                    return True
                sticky = {nm for nm in lowered if monotone(nm)}
                if not sticky:
                    ok = False
                else:
                    seed = {d for d in seed if d.name not in sticky or (d.kind in ("assign", "aug") and d.node in region and asm.truth(d.value, d.node) is False)}
                    after = asm.flow({h: seed}, removed=set(starts))
                    for i in after:
                        nd = fa.cfg.node(i)
                        if nd.kind == "stmt" and isinstance(nd.ast, ast.Return):
                            leaves = asm.cases(nd.ast.value, i, after) if nd.ast.value is not None else []
                            if not leaves or not all(is_false(x) or asm.truth(x, m) is False or (isinstance(x, ast.Name) and x.id in sticky and
                                                                                                  all(d.name != x.id or d in seed for d in after.get(m, ())))
                                                     for (x, m) in leaves):
                                ok = False
            for i in region:
                nd = fa.cfg.node(i)
                if nd.kind == "stmt" and isinstance(nd.ast, ast.Return):
                    leaves = asm.cases(nd.ast.value, i, IN) if nd.ast.value is not None else []
                    if not leaves or not all(is_false(x) or asm.truth(x, m) is False for (x, m) in leaves):
                        ok = False
        if ok:
            strict_heads += heads
            strict_loops.append(lp)
    seen_source = False
    for r in fa.returns():
        for i in fa.nodes(r):
            for (leaf, n) in (A0.cases(r.value, i, fa.df.IN) if r.value is not None else [(None, i)]):
                if leaf is not None and is_false(leaf):
                    continue
                if isinstance(leaf, ast.Call) and isinstance(leaf.func, ast.Name) and leaf.func.id == "all" and len(leaf.args) == 1 and from_src(leaf.args[0], n):
                    seen_source = True
                    continue
                neg_in = leaf
                if isinstance(neg_in, ast.UnaryOp) and isinstance(neg_in.op, ast.Not) and isinstance(neg_in.operand, ast.Compare) \
                        and len(neg_in.operand.ops) == 1 and isinstance(neg_in.operand.ops[0], ast.In):
                    neg_in = ast.Compare(left=neg_in.operand.left, ops=[ast.NotIn()], comparators=neg_in.operand.comparators)
                if isinstance(neg_in, ast.Compare) and len(neg_in.ops) == 1 and isinstance(neg_in.ops[0], ast.NotIn) and is_false(neg_in.left) \
                        and from_src(neg_in.comparators[0], n):
                    seen_source = True
                    continue
                if strict_heads and fa.cfg.must_pass(strict_heads, i) and leaf is not None:
                    # after a loop in which an invalid element forces False: the initial True, or the flag as the loop left it
                    in_strict = lambda x: x is not None and any(fa.inside(x, lp_) for lp_ in strict_loops)
                    if isinstance(leaf, ast.Constant) and leaf.value is True:
                        seen_source = True
                        continue
                    if in_strict(fa.cfg.node(n).ast) and not fa.inside(r, fa.enclosing(fa.cfg.node(n).ast, ast.For) or r):
                        seen_source = True
                        continue
                    if isinstance(leaf, ast.Name):
                        ds = fa.df.reaching(n, leaf.id)
                        if ds and all(d.kind in ("assign", "aug") and (in_strict(d.stmt) or (isinstance(d.value, ast.Constant) and d.value.value is True)) for d in ds):
                            seen_source = True
                            continue
                weak = leaf is None or not from_src(leaf, n) or isinstance(leaf, (ast.Constant, ast.Subscript, ast.BoolOp)) or (
                    isinstance(leaf, ast.Call) and isinstance(leaf.func, ast.Name) and leaf.func.id in ("any", "bool", "len")) or (
                    isinstance(leaf, ast.Compare) and isinstance(leaf.ops[0], ast.In))
                if not weak:
                    from ..loader import AnalysisError
                    raise AnalysisError("%s: cannot decide whether the answer `%s` requires every pointer to be valid" % (fa.qual, A.short(leaf, 60)))
                return False, "it can answer `%s`, which does not require every pointer to be valid" % A.short(leaf, 50)
    return seen_source, "its answer does not derive from the validated existence test"


NO_FILE_NAMES = ("FileNotFoundError", "OSError", "IOError", "EnvironmentError", "Exception", "BaseException")


class _ReadFails(Assume):
    """The world without a pointer file, for the ask-forgiveness spelling of the first test: reading the pointer
    raises FileNotFoundError, so a statement that reads it never completes normally and control continues in a handler
    that covers that error (`try: p = read(key)` / `except FileNotFoundError: answer = False`)."""

    def _reads(self, node_id):
        """does the statement at this node read the pointer (in the world the plain assumptions describe: a read
        in the branch of a conditional expression that the missing pointer rules out is not evaluated)?"""
        from .c07 import sub_live
        if node_id not in self._rd:
            nd = self.fa.cfg.node(node_id)
            plain = self._plain = getattr(self, "_plain", None) or Assume(self.fa, self.atom)
            self._rd[node_id] = nd.ast is not None and nd.kind in ("stmt", "test", "with", "for") and any(
                is_pointer_content_call(self.fa.ck, self.fa, x) and sub_live(plain, x, node_id)
                for x in A.walk_local(nd.ast))
        return self._rd[node_id]

    _rd = None

    def __init__(self, fa, atom):
        super().__init__(fa, atom)
        self._rd = {}

    @staticmethod
    def _covers(h):
        if h.type is None:
            return True
        ts = h.type.elts if isinstance(h.type, ast.Tuple) else [h.type]
        return any(A.norm(t).split(".")[-1] in NO_FILE_NAMES for t in ts)

    def guarded_reads(self):
        """reads of the pointer whose failure is caught by a handler covering FileNotFoundError"""
        out = []
        for n in self.fa.cfg.nodes:
            if n.id in self.fa.cfg.reachable_nodes() and self._reads(n.id):
                if any(l == "exc" and self.fa.cfg.node(d).kind == "except" and self._covers(self.fa.cfg.node(d).ast) for (d, l) in self.fa.cfg.succ[n.id]):
                    out.append(n.id)
        return out

    def edge_ok(self, s, d, l):
        if self._reads(s):
            if l != "exc":
                return False
            dn = self.fa.cfg.node(d)
            return dn.kind != "except" or self._covers(dn.ast)
        return super().edge_ok(s, d, l)


def check_readers_validate(ck):
    R = "C08.R4"
    ck.rule(R, "readers validate: exists_nonversioned tests the pointer and the path it contains; presence queries "
               "of the metadata source go through it", 3)
    ex = FA(ck, FSDS + ".exists_nonversioned")
    rd = pointer_content_calls(ck, ex)
    handles = set()
    for c_ in rd:
        w_ = ex.pm.get(c_)
        if isinstance(w_, ast.withitem) and isinstance(w_.optional_vars, ast.Name):
            handles.add(w_.optional_vars.id)
    # decided on the answers: (1) no pointer file => every answer is False; (2) pointer present but the path it
    # contains fails its test => every answer is False — whether the tests are if-statements, guard clauses or
    # a conditional expression
    hits = {"ptr": 0, "target": 0}
    EXISTS = ("exists", "isfile", "is_file", "lexists")

    def subject(e):
        if not (isinstance(e, ast.Call) and A.call_attr(e) in EXISTS):
            return None
        sub = e.args[0] if (A.call_dotted(e) or "").startswith("os.path") and e.args else A.call_recv(e)
        return _strip_path_wrappers(sub) if sub is not None else None

    helpers = _validator_helpers(ck, ex)
    hnames = {fi.name: fi for fi in helpers.values()}

    def helper_of(e):
        """the extracted part of the test that call `e` (an expanded copy) designates"""
        if isinstance(e, ast.Call) and A.call_attr(e) in hnames and (isinstance(e.func, ast.Name) or A.dotted(A.call_recv(e)) in ("self", "cls", ex.fi.cls.name if ex.fi.cls else "")):
            return hnames[A.call_attr(e)]
        return None

    def answers(fa, base, depth=2):
        """The truth value every answer of `fa` has under the assumption `base` (an atom function), helpers included:
        True / False, or None when the answers differ or are unknown."""
        def atom(e):
            v = base(e)
            if v is None and depth > 0:
                h = helper_of(e)
                if h is not None and h.qual != fa.qual:
                    return answers(FA(ck, h), base, depth - 1)
            return v
        asm = (_ReadFails if base is no_pointer else Assume)(fa, atom)
        if base is no_pointer and asm.guarded_reads():
            hits["ptr"] += 1
        vals = set()
        for r in fa.returns():
            for i in asm.live(r):
                for (leaf, n) in (asm.cases(r.value, i) if r.value is not None else [(None, i)]):
                    vals.add(None if leaf is None else asm.truth(leaf, n))
        return vals.pop() if len(vals) == 1 else None

    def is_ptr(e):
        sub = subject(e)
        return isinstance(sub, ast.Call) and A.call_attr(sub) == LINK_PATH

    def is_target(e):
        sub = subject(e)
        return sub is not None and any(is_pointer_content_call(ck, ex, x) or (isinstance(x, ast.Name) and x.id in handles) for x in ast.walk(sub))

    def no_pointer(e):
        if is_ptr(e):
            hits["ptr"] += 1
            return False
        return None

    def bad_target(e):
        if is_ptr(e):
            return True
        if is_target(e):
            hits["target"] += 1
            return False
        return None

    rd = rd or [c for q in sorted(helpers) for c in pointer_content_calls(ck, FA(ck, helpers[q]))]
    ok = answers(ex, no_pointer) is False and answers(ex, bad_target) is False and hits["ptr"] > 0 and hits["target"] > 0 and bool(rd)
    ck.ob(R, ex.key(None, "two-level"), ok, "tests the pointer, then the designated path" if ok else
          "exists_nonversioned no longer checks both the pointer and the path it designates", ex.where())
    ae = FA(ck, FSDS + ".all_exist_nonversioned")
    # called per key, or handed to map() / a helper as a bound method
    oka = bool(ae.calls("exists_nonversioned")) or any(
        isinstance(x, ast.Attribute) and x.attr == "exists_nonversioned" and isinstance(x.ctx, ast.Load) and A.dotted(x.value) in ("self", "cls")
        for x in A.walk_body(ae.node))
    ck.ob(R, ae.key(None), oka, "bulk existence goes through exists_nonversioned" if oka else
          "all_exist_nonversioned bypasses exists_nonversioned", ae.where())
    am = FA(ck, "storage_base.DataSourceMetadataSource.all_mementos_exist")
    okm, whym = _requires_every(am, ("all_exist_nonversioned", "exists_nonversioned"))
    ck.ob(R, am.key(None), okm, "memento presence = all pointers valid" if okm else
          "all_mementos_exist does not require every memento pointer to be valid: " + whym, am.where())
    im = FA(ck, "storage_base.StorageBackendBase.is_memoized")
    oki = any(A.call_attr(c) == "all_mementos_exist" for c in im.calls())
    ck.ob(R, im.key(None), oki, "is_memoized falls back to the validated presence test" if oki else
          "is_memoized does not consult the metadata source's validated presence test", im.where())


STORAGE_LAYER = ("storage_filesystem.", "storage_base.")
REBUFFER = ("BufferedWriter", "BufferedRandom")      # io.BufferedWriter(raw): flushes until everything is written or an error is raised
PASSIVE = ("close", "flush", "fileno", "seek", "tell", "truncate", "closed", "name", "mode", "writable", "seekable", "readable",
           "isatty", "__enter__", "__exit__", "read", "readinto", "readall")


def _fold_int(e):
    """Value of a constant integer expression (literals, unary minus, + - * // << of such), else None."""
    if isinstance(e, ast.Constant) and isinstance(e.value, int):
        return int(e.value)
    if isinstance(e, ast.UnaryOp) and isinstance(e.op, (ast.USub, ast.UAdd)):
        v = _fold_int(e.operand)
        return None if v is None else (-v if isinstance(e.op, ast.USub) else v)
    if isinstance(e, ast.BinOp):
        a, b = _fold_int(e.left), _fold_int(e.right)
        if a is None or b is None:
            return None
        try:
            if isinstance(e.op, ast.Add):
                return a + b
            if isinstance(e.op, ast.Sub):
                return a - b
            if isinstance(e.op, ast.Mult):
                return a * b
            if isinstance(e.op, ast.FloorDiv):
                return a // b
            if isinstance(e.op, ast.LShift) and 0 <= b < 64:
                return a << b
            if isinstance(e.op, ast.Pow) and 0 <= b < 64:
                return a ** b
        except (ZeroDivisionError, OverflowError):
            return None
    return None


def _int_value(fa, e, at):
    """The integer an expression denotes when that is decidable: through local temporaries and module-level
    constants of the function's module."""
    try:
        x = fa.expand(e, at)
    except Exception:  # noqa - an expression the expander cannot place
        x = e
    v = _fold_int(x)
    if v is None and isinstance(x, ast.Name) and not fa.df.is_local(x.id):
        mv = fa.fi.module.assigns.get(x.id)
        if mv is not None:
            v = _fold_int(mv)
    return v


def write_handle_kind(fa, c):
    """What kind of writable stream a call creates: None (not a write-mode open), 'buffered' (a BufferedWriter /
    TextIOWrapper over one: write() accepts everything and an error of the device surfaces from write, flush or
    close), 'raw' (an unbuffered file: write() is ONE write(2) which may accept only a prefix and says so only
    in the count it returns), 'maybe-raw' (the buffering argument cannot be shown to be non-zero)."""
    from ..callgraph import _open_mode_writes
    if not fa.nodes(c):
        return None
    at = fa.nodes(c)[0]
    name = A.call_attr(c)
    d = A.call_dotted(c) or ""
    if name in ONESHOT and c in fa.ck.cg.fs_write_sites.get(fa.qual, []):
        return "buffered"
    if name == "FileIO":
        mode = A.arg_or_kw(c, 1, "mode")
        m = A.const_str(mode) if mode is not None else "r"
        return "raw" if m is None or any(ch in m for ch in "wax+") else None
    if name == "fdopen":
        mode = A.arg_or_kw(c, 1, "mode")
        m = A.const_str(mode) if mode is not None else "r"
        if m is not None and not any(ch in m for ch in "wax+"):
            return None
        buf = A.arg_or_kw(c, 2, "buffering")
    elif name == "open" and d != "os.open":
        if not _open_mode_writes(c):
            return None
        plain = isinstance(c.func, ast.Name) or d in ("io.open", "builtins.open")
        buf = A.arg_or_kw(c, 2 if plain else 1, "buffering")
    else:
        return None
    if buf is None:
        return "buffered"
    v = _int_value(fa, buf, at)
    if v is None:
        return "maybe-raw"
    return "raw" if v == 0 else "buffered"


def _count_observed(fa, w):
    """Is the value a raw write returns (the number of bytes accepted) used: not an expression statement, and
    when it is stored in a local, that local is read afterwards."""
    p = fa.pm.get(w)
    if isinstance(p, ast.Expr):
        return False
    if isinstance(p, (ast.Assign, ast.AnnAssign, ast.NamedExpr)) and p.value is w:
        tg = p.targets if isinstance(p, ast.Assign) else [p.target]
        names = [t.id for t in tg if isinstance(t, ast.Name)]
        if len(names) != len(tg):
            return True         # stored in a field / container: somebody may look at it
        for x in A.walk_body(fa.node):
            if isinstance(x, ast.Name) and isinstance(x.ctx, ast.Load) and x.id in names:
                for i in fa.nodes(x):
                    if any(dd.value is w for dd in fa.df.reaching(i, x.id)):
                        return True
        return False
    return True


def _raw_handle_faults(fa, c):
    """Ways in which bytes written through the raw stream created by call `c` can be dropped unnoticed:
    a write whose count is discarded, or the stream handed to code that discards it (copyfileobj, dump, ...)."""
    faults = []

    def use(node, via):
        """`node` evaluates to the raw stream; how is that value used?"""
        p = fa.pm.get(node)
        if isinstance(p, ast.withitem) and p.context_expr is node:
            names = [t.id for t in ([p.optional_vars] if p.optional_vars is not None else []) if isinstance(t, ast.Name)]
            return names
        if isinstance(p, (ast.Assign, ast.AnnAssign, ast.NamedExpr)) and p.value is node:
            tg = p.targets if isinstance(p, ast.Assign) else [p.target]
            names = [t.id for t in tg if isinstance(t, ast.Name)]
            if len(names) != len(tg):
                faults.append((node, "the unbuffered stream is stored away (%s)" % A.short(p, 50)))
            return names
        if isinstance(p, ast.Attribute) and p.value is node:
            g = fa.pm.get(p)
            called = isinstance(g, ast.Call) and g.func is p
            if p.attr == "write" and called:
                if not _count_observed(fa, g):
                    faults.append((g, "`%s` is a single write(2) whose count is ignored" % A.short(g, 50)))
            elif p.attr in PASSIVE:
                pass
            else:
                faults.append((p, "`%s` on the unbuffered stream does not report a partial write" % A.short(g if called else p, 50)))
            return []
        if isinstance(p, ast.Call) and (node in p.args or any(k.value is node for k in p.keywords)):
            if A.call_attr(p) in REBUFFER:
                return []
            faults.append((p, "`%s` writes to the unbuffered stream and ignores the count each write returns" % A.short(p, 50)))
            return []
        if isinstance(p, (ast.Expr, ast.Compare, ast.BoolOp, ast.UnaryOp, ast.If, ast.While, ast.Assert)):
            return []
        faults.append((node, "the unbuffered stream escapes (%s)" % A.short(p if p is not None else node, 50)))
        return []

    tracked = []      # (name, origin value node) — definitions that hold the raw stream
    todo = [(c, n) for n in use(c, None)]
    seen = set()
    while todo:
        origin, name = todo.pop()
        if (id(origin), name) in seen:
            continue
        seen.add((id(origin), name))
        tracked.append((name, origin))
        for x in A.walk_body(fa.node):
            if isinstance(x, ast.Name) and isinstance(x.ctx, ast.Load) and x.id == name:
                ids = fa.nodes(x)
                if ids and any(dd.value is origin for i in ids for dd in fa.df.reaching(i, name)):
                    for n2 in use(x, name):
                        todo.append((x, n2))
    return faults


def check_complete_or_raise(ck):
    R = "C08.R6"
    ck.rule(R, "a fault in the middle of writing a file is REPORTED: bytes go to the store through a buffered stream (which "
               "keeps writing until all is accepted or the device's error is raised), or the count returned by every raw "
               "write (unbuffered file, os.write) is looked at", 2)
    for q in sorted(ck.cg.funcs):
        if not q.startswith(STORAGE_LAYER):
            continue
        fi = ck.cg.funcs[q]
        cands = [c for c in A.body_calls(fi.node) if A.call_attr(c) in ("open", "FileIO", "fdopen", "write") + ONESHOT]
        if not cands:
            continue
        fa = FA(ck, fi)
        for c in cands:
            if A.call_attr(c) == "write":
                if A.call_dotted(c) == "os.write" and fa.nodes(c):
                    ok = _count_observed(fa, c)
                    ck.ob(R, fa.key(c, "raw-write-count"), ok, "the count returned by os.write is used" if ok else
                          "os.write may accept only part of the bytes (disk full / file size limit reached in the middle) and reports that "
                          "only through the count it returns, which is ignored here: a truncated file is then published as complete", fa.where(c))
                continue
            kind = write_handle_kind(fa, c)
            if kind is None:
                continue
            if kind == "buffered":
                ck.ob(R, fa.key(c, "complete-or-raise"), True, "written through a buffered stream", fa.where(c))
                continue
            faults = _raw_handle_faults(fa, c)
            how = "unbuffered (buffering=0 / FileIO)" if kind == "raw" else "possibly unbuffered (its buffering argument is not a known non-zero constant)"
            ck.ob(R, fa.key(c, "complete-or-raise"), not faults, "every raw write's count is observed" if not faults else
                  "the file is opened %s and %s: when the disk fills up or the file size limit is hit in the middle of the data, the kernel "
                  "accepts a prefix and raises nothing, so the truncated file is closed, published and reused by every later call instead of "
                  "the write failing (and being absorbed as an I/O error)" % (how, "; ".join(m for (_, m) in faults[:3])),
                  fa.where(faults[0][0]) if faults else fa.where(c))


# ---- R8: a damaged pointer cannot raise a decoding error --------------------------------------------------------------
TOLERANT_ERRORS = {"replace", "ignore", "surrogateescape", "backslashreplace"}      # error handlers under which DEcoding never raises
TOTAL_ENCODINGS = {"latin-1", "latin1", "latin_1", "iso-8859-1", "iso8859-1", "l1", "cp437"}   # every byte string decodes
DECODE_ERROR_NAMES = {"UnicodeDecodeError", "UnicodeError", "ValueError", "Exception", "BaseException"}
_HANDLE_READS = ("read", "readline", "readlines", "readall", "__next__")


def _const_text(fa, e, at):
    """The string constant `e` stands for (a literal, a local bound to one, a module / class constant), or None."""
    if e is None:
        return None
    if A.const_str(e) is not None:
        return A.const_str(e)
    try:
        x = fa.expand(e, at)
    except Exception:  # noqa - an expression the expander cannot place
        x = e
    if A.const_str(x) is not None:
        return A.const_str(x)
    nm = x.id if isinstance(x, ast.Name) else (x.attr if isinstance(x, ast.Attribute) and isinstance(x.value, ast.Name) and x.value.id in ("self", "cls") else None)
    if nm is not None and not (isinstance(x, ast.Name) and fa.df.is_local(nm)):
        v = fa.fi.module.assigns.get(nm)
        if v is None and fa.fi.cls is not None:
            for st in fa.fi.cls.node.body:
                if isinstance(st, ast.Assign) and any(isinstance(t, ast.Name) and t.id == nm for t in st.targets):
                    v = st.value
        return A.const_str(v) if v is not None else None
    return None


def _is_path_method(c):
    return isinstance(c.func, ast.Attribute) and (A.dotted(c.func.value) or "") not in ("io", "os", "builtins", "codecs")


def _star_kw(ck, fa, call, name):
    """The value a `**table` argument of `call` gives the keyword `name`, when the table is a literal (dict display / dict(...)) that
    the expander can see; a table it cannot see makes the call undecidable."""
    for k in call.keywords:
        if k.arg is not None:
            continue
        try:
            t = fa.expand(k.value, fa.nodes(call)[0])
        except Exception:  # noqa - an expression the expander cannot place
            t = k.value
        if isinstance(t, ast.Dict) and all(A.const_str(x) is not None for x in t.keys if x is not None) and None not in t.keys:
            for (kk, vv) in zip(t.keys, t.values):
                if A.const_str(kk) == name:
                    return vv
        elif isinstance(t, ast.Call) and isinstance(t.func, ast.Name) and t.func.id == "dict" and not t.args and all(x.arg for x in t.keywords):
            for x in t.keywords:
                if x.arg == name:
                    return x.value
        else:
            ck.need(False, "%s: the keyword table `**%s` of a pointer read cannot be read off the source" % (fa.qual, A.short(k.value, 30)))
    return None


def _pointer_reads(ck, fa):
    """Read sites of a pointer file in one function: [(call, 'text' | 'bytes', errors expr or None, encoding expr or None)]."""
    out = []
    for c in fa.calls():
        if not fa.nodes(c):
            continue
        nm = A.call_attr(c)
        at = fa.nodes(c)[0]
        if nm == "open":
            pm_ = _is_path_method(c)
            if (A.call_dotted(c) or "") == "os.open":
                continue
            mode = A.arg_or_kw(c, 0 if pm_ else 1, "mode")
            m = _const_text(fa, mode, at) if mode is not None else "r"
            if m is not None and any(ch in m for ch in "wax+"):
                continue
            is_codecs = (A.call_dotted(c) or "").startswith("codecs.")
            enc = A.arg_or_kw(c, 2 if (pm_ or is_codecs) else 3, "encoding") or _star_kw(ck, fa, c, "encoding")
            err = A.arg_or_kw(c, 3 if (pm_ or is_codecs) else 4, "errors") or _star_kw(ck, fa, c, "errors")
            kind = "bytes" if (m is not None and "b" in m and not (is_codecs and enc is not None)) else "text"
            path = open_path(c)
        elif nm == "read_text" and isinstance(c.func, ast.Attribute):
            kind, enc, err, path = "text", A.arg_or_kw(c, 0, "encoding") or _star_kw(ck, fa, c, "encoding"), \
                A.arg_or_kw(c, 1, "errors") or _star_kw(ck, fa, c, "errors"), c.func.value
        elif nm == "read_bytes" and isinstance(c.func, ast.Attribute):
            kind, enc, err, path = "bytes", None, None, c.func.value
        elif nm == "FileIO" and not _fileio_writes(c):
            kind, enc, err, path = "bytes", None, None, (c.args[0] if c.args else A.kwarg(c, "file"))
        else:
            continue
        if path is not None and path_role(fa, path, at) == "pointer":
            out.append((c, kind, err, enc))
    return out


def _decoders(fa):
    """Calls that turn bytes into text: [(call, errors expr or None, encoding expr or None)]; os.fsdecode never raises on POSIX
    (surrogateescape) and is not listed."""
    out = []
    for c in fa.calls():
        if not fa.nodes(c):
            continue
        nm = A.call_attr(c)
        d = A.call_dotted(c) or ""
        if nm == "decode" and isinstance(c.func, ast.Attribute) and not d.startswith("codecs."):
            out.append((c, A.arg_or_kw(c, 1, "errors"), A.arg_or_kw(c, 0, "encoding")))
        elif d == "codecs.decode":
            out.append((c, A.arg_or_kw(c, 2, "errors"), A.arg_or_kw(c, 1, "encoding")))
        elif isinstance(c.func, ast.Name) and c.func.id == "str" and (len(c.args) >= 2 or A.kwarg(c, "encoding") is not None or A.kwarg(c, "errors") is not None):
            out.append((c, A.arg_or_kw(c, 2, "errors"), A.arg_or_kw(c, 1, "encoding")))
        elif nm == "TextIOWrapper":
            out.append((c, A.arg_or_kw(c, 2, "errors"), A.arg_or_kw(c, 1, "encoding")))
    return out


def _tolerant(fa, call, err, enc) -> bool:
    at = fa.nodes(call)[0]
    e = _const_text(fa, err, at) if err is not None else None
    if e is not None and e.lower() in TOLERANT_ERRORS:
        return True
    n = _const_text(fa, enc, at) if enc is not None else None
    return n is not None and n.lower().replace(" ", "") in TOTAL_ENCODINGS


def _decode_error_absorbed(ck, fa, node) -> bool:
    """`node` runs inside a try whose first handler matching UnicodeDecodeError does not let it (or another non-I/O error) out."""
    for t in _try_around(fa, node):
        for h in t.handlers:
            ts = [] if h.type is None else (h.type.elts if isinstance(h.type, ast.Tuple) else [h.type])
            names = [A.norm(x).split(".")[-1] for x in ts]
            if h.type is not None and not any(n in DECODE_ERROR_NAMES for n in names):
                continue
            ok = True
            for st in ast.walk(h):
                if isinstance(st, ast.Raise):
                    exc = st.exc.func if isinstance(st.exc, ast.Call) else st.exc
                    if exc is None or not _is_oserror_class(ck, (A.norm(exc) or "").split(".")[-1]):
                        ok = False
            return ok        # the first matching handler decides
    return False


def _handle_read_calls(fa, opencall):
    """Where the text of a handle opened by `opencall` is actually decoded: the read calls / iterations on the handle."""
    names = set()
    p = fa.pm.get(opencall)
    if isinstance(p, ast.withitem) and isinstance(p.optional_vars, ast.Name):
        names.add(p.optional_vars.id)
    st = fa.stmt_of(opencall)
    if isinstance(st, ast.Assign) and st.value is opencall:
        names |= {t.id for t in st.targets if isinstance(t, ast.Name)}
    out = []
    for c in fa.calls():
        rv = A.call_recv(c)
        if A.call_attr(c) in _HANDLE_READS and isinstance(rv, ast.Name) and rv.id in names and fa.nodes(c):
            out.append(c)
        elif isinstance(c.func, ast.Name) and c.func.id in ("next", "list", "tuple", "sorted") and c.args and isinstance(c.args[0], ast.Name) and c.args[0].id in names and fa.nodes(c):
            out.append(c)
    for f in fa.stmts(ast.For):
        if isinstance(f.iter, ast.Name) and f.iter.id in names:
            out.append(f)
    return out


def _protected(ck, fa, points, depth=2) -> bool:
    """Every point is inside an absorbing try here, or every call of this function (inside the storage layer) is."""
    if points and all(_decode_error_absorbed(ck, fa, p_) for p_ in points):
        return True
    if depth <= 0:
        return False
    sites = ck.cg.call_sites_of(lambda call, cands: any(f.qual == fa.qual for f in cands))
    sites = [(fi, call) for (fi, call, _c) in sites if fi.qual != fa.qual]
    if not sites:
        return False
    for (fi, call) in sites:
        f2 = FA(ck, fi)
        if not f2.nodes(call) or not _protected(ck, f2, [call], depth - 1):
            return False
    return True


def check_pointer_decoding(ck):
    R = "C08.R8"
    ck.rule(R, "a pointer file cut short inside a multi-byte character reads as a pointer that designates nothing: wherever the "
               "filesystem data source reads a pointer back as text, undecodable bytes cannot raise (tolerant errors= policy on the "
               "open / the decode, or the decoding error is caught)", 1)
    mod = ck.repo.module("storage_filesystem")
    funcs = [m for c in mod.all_classes() for m in c.methods.values()] + list(getattr(mod, "functions", {}).values())
    found = 0
    for fi in funcs:
        src = ast.dump(fi.node)
        if "open" not in src and "read_" not in src and "FileIO" not in src:
            continue
        fa = FA(ck, fi)
        reads = _pointer_reads(ck, fa)
        for (c, kind, err, enc) in reads:
            found += 1
            if kind == "text":
                ok = _tolerant(fa, c, err, enc) or _protected(ck, fa, _handle_read_calls(fa, c) or [c])
                why = "opened as text with strict decoding"
            else:
                decs = _decoders(fa)
                holder = fa
                if not decs:
                    # the bytes leave this function undecoded: they become text in its callers
                    for (fi2, _call, _c) in ck.cg.call_sites_of(lambda call, cands: any(f.qual == fa.qual for f in cands)):
                        f2 = FA(ck, fi2)
                        if _decoders(f2):
                            holder, decs = f2, _decoders(f2)
                            break
                fsdec = [k for k in fa.calls("fsdecode") if fa.nodes(k)]
                ck.need(decs or fsdec, "%s reads a pointer file as bytes, but where those bytes become a path cannot be found" % fa.qual)
                ok = all(_tolerant(holder, d, e_, n_) or _protected(ck, holder, [d]) for (d, e_, n_) in decs)
                why = "read as bytes and decoded strictly"
            ck.ob(R, fa.key(c, "undecodable-pointer-cannot-raise"), ok,
                  "a pointer with undecodable bytes reads as a path that does not exist" if ok else
                  "the pointer file is %s and nothing catches the error: a link truncated in the middle of a multi-byte character (non-ASCII "
                  "store path or key, crash or ENOSPC during the link write) raises UnicodeDecodeError -- a ValueError, which none of the "
                  "I/O fallbacks absorb -- so every later call of the function raises and it is never memoized again" % why, fa.where(c))
    ck.need(found, "the filesystem data source never reads a pointer file back: cannot place the pointer readers")


def check(ck):
    from .memo import check_new_memo_tables
    ck.run(check_new_memo_tables, ck, "C08.M1", ('storage_base', 'storage_filesystem'))
    from .c07 import check_who_may_delete
    ck.rule("C08.R5", "no error handler or write path deletes stored objects (who may delete, shared with C07.R4)", 3)
    ck.run(check_who_may_delete, ck, "C08.R5")
    ck.run(check_write_order, ck)
    ck.run(check_pointer_trust, ck)
    ck.run(check_recovery, ck)
    ck.run(check_readers_validate, ck)
    ck.run(check_complete_or_raise, ck)
    ck.run(check_pointer_decoding, ck)
    ck.run(check_attempt_not_remembered, ck)
