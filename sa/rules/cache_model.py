"""Role inference for storage_base.MemoryCache: state slots and helper roles, located by
what they are / do, not by their names (shared by C05, C06, C09)."""
import ast
from typing import Dict, List, Optional

from .. import astutil as A
from ..loader import AnalysisError

CACHE_CLASS = "storage_base.MemoryCache"


def assign_pairs(st):
    """(target, value) pairs bound by a plain or an annotated assignment statement (`x = v`, `x: T = v`, `a = b = v`)."""
    if isinstance(st, ast.Assign):
        return [(t, st.value) for t in st.targets]
    if isinstance(st, ast.AnnAssign) and st.value is not None:
        return [(st.target, st.value)]
    return []


def self_attr(node, name=None) -> Optional[str]:
    """`self.x` -> 'x' (optionally require x == name)."""
    if isinstance(node, ast.Attribute) and isinstance(node.value, ast.Name) and node.value.id == "self":
        if name is None or node.attr == name:
            return node.attr
    return None


def _stored_attrs_outside_init(repo, cls):
    """attribute names that some statement outside `cls.__init__` rebinds (`<x>.a = ...`, `<x>.a += ...`, `del <x>.a`, loop / with targets)"""
    out = set()
    for m in repo.modules.values():
        for n in ast.walk(m.tree):
            if isinstance(n, ast.Attribute) and isinstance(n.ctx, (ast.Store, ast.Del)):
                out.add((n.attr, id(n)))
    init = cls.methods.get("__init__")
    own = {id(n) for n in ast.walk(init.node)} if init is not None else set()
    return {a for (a, i) in out if i not in own}


def unalias_fixed_attrs(repo, cls) -> int:
    """Normalisation (idempotent, meaning-preserving): inside the methods of `cls`, a local that is bound exactly once, by
    `name = self.<attr>` where <attr> is bound only in `__init__` (the object it names is fixed for the life of the instance: a
    container slot, the lock, the budget), is replaced by `self.<attr>` at its uses and the binding is dropped.  `lru = self.lru_deque;
    lru.remove(k)` thereby reads `self.lru_deque.remove(k)`, which is what every rule about the slots looks for.  Attributes
    that are rebound elsewhere (a counter) are left alone: a local copy of those is a snapshot, not an alias."""
    if getattr(cls, "_unaliased", False):
        return 0
    cls._unaliased = True
    rebound = _stored_attrs_outside_init(repo, cls)
    done = 0
    for name, m in cls.methods.items():
        if name == "__init__" or not m.params or m.is_static:
            continue
        me = m.params[0]
        fn = m.node
        # every binding occurrence of every name in the function (nested scopes included, to stay on the safe side)
        binds = {}
        for n in ast.walk(fn):
            if isinstance(n, ast.Name) and isinstance(n.ctx, (ast.Store, ast.Del)):
                binds.setdefault(n.id, []).append(n)
            elif isinstance(n, ast.arg):
                binds.setdefault(n.arg, []).append(n)
            elif isinstance(n, (ast.Global, ast.Nonlocal)):
                for x in n.names:
                    binds.setdefault(x, []).append(n)
            elif isinstance(n, ast.ExceptHandler) and n.name:
                binds.setdefault(n.name, []).append(n)
            elif isinstance(n, (ast.Import, ast.ImportFrom)):
                for al in n.names:
                    binds.setdefault((al.asname or al.name).split(".")[0], []).append(n)
        alias = {}
        drop = []
        for st in ast.walk(fn):
            if isinstance(st, ast.Assign) and len(st.targets) == 1 and isinstance(st.targets[0], ast.Name):
                v = st.value
                if isinstance(v, ast.Attribute) and isinstance(v.value, ast.Name) and v.value.id == me and v.attr not in rebound \
                        and len(binds.get(st.targets[0].id, [])) == 1 and len(binds.get(me, [])) == 1:
                    alias[st.targets[0].id] = v.attr
                    drop.append(st)
        if not alias:
            continue

        class T(ast.NodeTransformer):
            def visit_Name(self, n):
                if isinstance(n.ctx, ast.Load) and n.id in alias:
                    return ast.copy_location(ast.Attribute(value=ast.copy_location(ast.Name(id=me, ctx=ast.Load()), n), attr=alias[n.id], ctx=ast.Load()), n)
                return n

            def generic_visit(self, node):
                super().generic_visit(node)
                for fld in ("body", "orelse", "finalbody"):
                    lst = getattr(node, fld, None)
                    if isinstance(lst, list) and any(x in drop for x in lst):
                        kept = [x for x in lst if x not in drop]
                        if not kept and fld == "body":
                            kept = [ast.copy_location(ast.Pass(), lst[0])]
                        setattr(node, fld, kept)
                return node

        T().visit(fn)
        ast.fix_missing_locations(fn)
        done += len(alias)
    return done


def unroll_simple_generators(repo, cls) -> int:
    """Normalisation (idempotent, meaning-preserving): `for v in self.g(a, ...): BODY` where g is a generator method of `cls`
    whose whole body is `while TEST: yield EXPR` reads `while TEST': v = EXPR'; BODY` (parameters replaced by the arguments,
    which must be plain names / attribute chains / constants that the generator does not rebind).  The generator's test is
    evaluated exactly when the loop asks for the next element, so the two are the same program; the rules about the
    room-making loop then see its test and what it evicts."""
    if getattr(cls, "_generators_unrolled", False):
        return 0
    cls._generators_unrolled = True
    import copy

    def pure(e):
        return isinstance(e, ast.Constant) or isinstance(e, ast.Name) or (isinstance(e, ast.Attribute) and pure(e.value))

    simple = {}
    for name, m in cls.methods.items():
        if m.is_static or m.is_classmethod or not m.params or m.decorators:
            continue
        body = A.sig_stmts(m.node.body)
        if len(body) != 1 or not isinstance(body[0], ast.While) or body[0].orelse:
            continue
        wb = A.sig_stmts(body[0].body)
        if len(wb) != 1 or not (isinstance(wb[0], ast.Expr) and isinstance(wb[0].value, ast.Yield) and wb[0].value.value is not None):
            continue
        a = m.node.args
        if a.vararg or a.kwarg or a.kwonlyargs or a.defaults or any(isinstance(n, (ast.Yield, ast.YieldFrom, ast.NamedExpr, ast.Lambda)) for n in ast.walk(body[0].test)) \
                or any(isinstance(n, (ast.Yield, ast.YieldFrom, ast.NamedExpr, ast.Lambda)) for n in ast.walk(wb[0].value.value)):
            continue
        simple[name] = (m, body[0].test, wb[0].value.value)
    if not simple:
        return 0
    done = 0
    for name, m in cls.methods.items():
        if name in simple or not m.params or m.is_static:
            continue
        me = m.params[0]

        class T(ast.NodeTransformer):
            def visit_For(self, node):
                self.generic_visit(node)
                nonlocal done
                it = node.iter
                if not (isinstance(it, ast.Call) and isinstance(it.func, ast.Attribute) and isinstance(it.func.value, ast.Name) and it.func.value.id == me
                        and it.func.attr in simple and not it.keywords and all(pure(x) for x in it.args)):
                    return node
                (g, test, elem) = simple[it.func.attr]
                params = g.params[1:]
                if len(params) != len(it.args):
                    return node
                bind = dict(zip(params, it.args))
                bind[g.params[0]] = ast.Name(id=me, ctx=ast.Load())

                def subst(e):
                    class S(ast.NodeTransformer):
                        def visit_Name(self, n):
                            if isinstance(n.ctx, ast.Load) and n.id in bind:
                                return ast.copy_location(copy.deepcopy(bind[n.id]), n)
                            return n
                    return S().visit(copy.deepcopy(e))

                # names of the generator other than its parameters would be its own locals: there are none in `while T: yield E`
                free = {n.id for e in (test, elem) for n in ast.walk(e) if isinstance(n, ast.Name)} - set(bind)
                local_names = {n.id for n in ast.walk(m.node) if isinstance(n, ast.Name) and isinstance(n.ctx, (ast.Store, ast.Del))} | set(m.params)
                if free & local_names:
                    return node  # a global of the generator would be captured by a local of the caller
                first = ast.copy_location(ast.Assign(targets=[node.target], value=ast.copy_location(subst(elem), node.iter), type_comment=None), node.iter)
                new = ast.copy_location(ast.While(test=ast.copy_location(subst(test), node.iter), body=[first] + node.body, orelse=node.orelse), node)
                done += 1
                return new

        T().visit(m.node)
        ast.fix_missing_locations(m.node)
    # a generator whose every use was unrolled is gone from the class tables (like a helper whose every call was inlined)
    for gname in list(simple):
        used = any(isinstance(n, ast.Attribute) and n.attr == gname for mod in repo.modules.values() for n in ast.walk(mod.tree)
                   if not any(n is y for y in ast.walk(simple[gname][0].node)))
        if not used and done:
            cls.methods.pop(gname, None)
    return done


class CacheModel:
    def __init__(self, ck):
        self.ck = ck
        repo = ck.repo
        self.cls = repo.cls(CACHE_CLASS)
        unroll_simple_generators(repo, self.cls)
        unalias_fixed_attrs(repo, self.cls)
        init = self.cls.methods.get("__init__")
        ck.need(init is not None, "MemoryCache.__init__ not found")
        ck.functions_analysed.add(init.qual)
        self.init = init
        maps, queues, counters, budgets, weak, locks = [], [], [], [], [], []
        init_params = set(init.params) - {"self"}
        from ..fa import FA
        ini = FA(ck, init)
        for st in A.all_stmts(init.node):
            for (tg, v) in assign_pairs(st):
                f = self_attr(tg)
                if not f:
                    continue
                # what the slot is initialised with, through any temporaries (`budget = mb * MB; self.x = budget`)
                v = safe_expand(ini, v, st)
                if isinstance(v, ast.Call):
                    d = (A.dotted(v.func) or "").split(".")[-1]
                    if d in ("dict", "OrderedDict"):
                        maps.append(f)
                    elif d == "deque":
                        queues.append(f)
                    elif d in ("WeakValueDictionary",):
                        weak.append(f)
                    elif d in ("RLock", "Lock"):
                        locks.append((f, d))
                elif isinstance(v, ast.Dict) and not v.keys:
                    maps.append(f)
                elif isinstance(v, ast.Constant) and v.value == 0 and v.value is not False:
                    counters.append(f)
                elif set(A.names_in(v)) & init_params:
                    budgets.append(f)
        def one(lst, what):
            if len(lst) != 1:
                raise AnalysisError("MemoryCache.__init__: cannot identify the %s slot uniquely (%s)" % (what, lst))
            return lst[0]
        if len(maps) > 1:
            # the resident map is the dict that receives _CacheEntry values; further dicts (indexes a later
            # change added) are auxiliary slots
            def holds_entries(f):
                for m_ in self.cls.methods.values():
                    for st_ in A.all_stmts(m_.node):
                        if isinstance(st_, ast.Assign) and any(isinstance(t_, ast.Subscript) and self_attr(t_.value, f) for t_ in st_.targets):
                            v_ = st_.value
                            if isinstance(v_, ast.Name):
                                nm_ = v_.id
                                for s2 in A.all_stmts(m_.node):
                                    if isinstance(s2, ast.Assign) and any(isinstance(t2, ast.Name) and t2.id == nm_ for t2 in s2.targets):
                                        v_ = s2.value
                            if isinstance(v_, ast.Call) and A.call_attr(v_) == "_CacheEntry":
                                return True
                return False
            res = [f for f in maps if holds_entries(f)]
            self.aux_maps = [f for f in maps if f not in res]
            maps = res
        else:
            self.aux_maps = []
        self.map = one(maps, "resident map (dict)")
        self.queue = one(queues, "recency queue (deque)")
        self.counter = one(counters, "usage counter (int 0)")
        self.budget = one(budgets, "budget (from constructor argument)")
        self.refs = weak[0] if weak else None
        self.locks = locks
        self.mutable_slots = [self.map, self.queue, self.counter] + ([self.refs] if self.refs else [])
        # roles
        self.evict: List = []  # methods that delete from the resident map
        self.mark_used: List = []  # remove-then-append on the queue, no map mutation
        self.insert: List = []  # methods that store into the resident map
        for name, m in self.cls.methods.items():
            dels = [s for s in A.all_stmts(m.node) if isinstance(s, ast.Delete)
                    and any(isinstance(t, ast.Subscript) and self_attr(t.value, self.map) for t in s.targets)]
            sets = [s for s in A.all_stmts(m.node) if isinstance(s, ast.Assign)
                    and any(isinstance(t, ast.Subscript) and self_attr(t.value, self.map) for t in s.targets)]
            pops = [c for c in A.body_calls(m.node) if A.call_attr(c) in ("pop", "popitem") and self_attr(A.call_recv(c), self.map)]
            if dels or pops:
                self.evict.append(m)
            if sets:
                self.insert.append(m)
            if not dels and not sets and name != "__init__":
                calls = A.body_calls(m.node)
                rem = [c for c in calls if A.call_attr(c) == "remove" and self_attr(A.call_recv(c), self.queue)]
                app = [c for c in calls if A.call_attr(c) in ("append", "appendleft") and self_attr(A.call_recv(c), self.queue)]
                if rem and app and len(m.params) == 2 and name.startswith("_"):
                    self.mark_used.append(m)
        self.extra_deleters = []
        if len(self.evict) > 1:
            # the helper is the private one-key method the others call; further deletion sites
            # are reported by the accounting rule, not here
            def n_callers(m):
                return sum(1 for o in self.cls.methods.values() for c in A.body_calls(o.node) if self.is_self_call(c, m))
            cands = [m for m in self.evict if m.name.startswith("_") and len(m.params) == 2]
            cands.sort(key=lambda m: -n_callers(m))
            if cands:
                self.extra_deleters = [m for m in self.evict if m is not cands[0]]
                self.evict = [cands[0]]
        if len(self.evict) != 1:
            raise AnalysisError("MemoryCache: expected exactly one method deleting from the resident map, found %s" % [m.qual for m in self.evict])
        if not self.insert:
            raise AnalysisError("MemoryCache: no method inserts into the resident map")
        # `put` is the public write API (pinned by StorageBackendBase.memoize and the tests); any other
        # inserting method is held to the same insertion rules (budget, accounting)
        self.inserts = list(self.insert)
        puts = [m for m in self.insert if m.name == "put"]
        if len(puts) != 1:
            raise AnalysisError("MemoryCache.put does not insert into the resident map (inserting methods: %s)" % [m.qual for m in self.insert])
        self.insert = puts
        if len(self.mark_used) != 1:
            # no dedicated helper (it was inlined into the readers, or never existed): recency is refreshed
            # wherever a method removes a key from the queue and appends it again
            self.mark_used = [None]
        self.evict = self.evict[0]
        self.insert = self.insert[0]
        self.mark_used = self.mark_used[0]

    @property
    def mark_used_name(self) -> str:
        return self.mark_used.name if self.mark_used is not None else "<inline mark-used>"

    def mark_nodes(self, fa) -> list:
        """CFG nodes of `fa` that refresh the recency of a key: calls of the mark-used helper, or (without a
        helper) the `queue.append(k)` of an inline remove-then-append."""
        out = []
        if self.mark_used is not None:
            out += fa.nodes_all([c for c in fa.calls(self.mark_used.name) if self.is_self_call(c, self.mark_used)])
        rem = [c for c in fa.calls("remove") if self_attr(A.call_recv(c), self.queue) and c.args]
        for c in fa.calls("append"):
            if self_attr(A.call_recv(c), self.queue) and c.args and any(A.norm(r.args[0]) == A.norm(c.args[0]) for r in rem):
                # the append is not part of an insertion into the map
                out += fa.nodes(c)
        return out

    def is_self_call(self, call, method) -> bool:
        if method is None:
            return False
        return (
            isinstance(call.func, ast.Attribute)
            and call.func.attr == method.name
            and isinstance(call.func.value, ast.Name)
            and call.func.value.id == "self"
        )


# ---- meaning-level queries shared by the C05 / C06 / C09 rules -------------------------------------------
# The rules ask WHAT a branch establishes and WHICH events lie on a path, not how a statement is spelled.

def branch_filter(fa, excuse):
    """An `edge_ok` for CFG.reach / must_pass / path that refuses every branch edge whose taking IMPLIES a
    literal accepted by `excuse(text, polarity)`.  Literals are those of FA._atoms: locals expanded through
    their definitions, `not`, De Morgan, `is not` / `!=` / `not in` normalised, so `if self.read_only: return`,
    `if not self.read_only: <body>` and `ro = self.read_only ... if ro:` all give the literal
    ('self.read_only', True) on the edge that leaves.  A disjunction taken true implies none of its parts and
    is (correctly) not excused."""
    memo = {}

    def implies(t, n, positive):
        """does `t` evaluating to `positive` imply an excused literal?  (a conjunction that holds implies what any part
        implies; a disjunction that holds only what every part implies)"""
        if isinstance(t, ast.UnaryOp) and isinstance(t.op, ast.Not):
            return implies(t.operand, n, not positive)
        if isinstance(t, ast.BoolOp):
            conj = (isinstance(t.op, ast.And) and positive) or (isinstance(t.op, ast.Or) and not positive)
            parts = [implies(v, n, positive) for v in t.values]
            return any(parts) if conj else all(parts)
        try:
            (txt, pol) = fa._literal(t, n, positive)
        except AnalysisError:
            return False
        return bool(excuse(txt, pol))

    def edge_ok(s, d, l):
        if l not in ("T", "F"):
            return True
        k = (s, l)
        if k not in memo:
            nd = fa.cfg.node(s)
            memo[k] = not (nd.kind == "test" and nd.ast is not None and implies(nd.ast, s, l == "T"))
        return memo[k]

    return edge_ok


def both(*filters):
    fs = [f for f in filters if f is not None]
    return lambda s, d, l: all(f(s, d, l) for f in fs)


def no_back_edges(s, d, l):
    """edge_ok restricting a query to ONE iteration of every loop."""
    return l not in ("back", "continue")


def every_path_through(fa, anchors, events, edge_ok=None) -> bool:
    """Does every entry->exit path that passes one of the CFG nodes `anchors` also pass one of `events`
    (before or after the anchor)?  <=> for each anchor: all ways in pass an event, or all ways out do."""
    cfg = fa.cfg
    events = set(events)
    for a in anchors:
        if a in events:
            continue
        before = cfg.must_pass(events, a, edge_ok=edge_ok)
        after = cfg.exit not in cfg.reach([a], removed=events, edge_ok=edge_ok, include_start=False)
        if not (before or after):
            return False
    return True


def at_most_once(fa, events) -> bool:
    """No path executes two of the `events` nodes within one loop iteration."""
    cfg = fa.cfg
    events = list(dict.fromkeys(events))
    for e in events:
        r = cfg.reach([e], edge_ok=no_back_edges, include_start=False)
        if any(x in r for x in events):
            return False
    return True


def strip_not(e, positive=True):
    while isinstance(e, ast.UnaryOp) and isinstance(e.op, ast.Not):
        e, positive = e.operand, not positive
    return e, positive


def bool_leaves(test):
    """Leaves of the and / or / not structure of a test."""
    t, _ = strip_not(test)
    if isinstance(t, ast.BoolOp):
        out = []
        for v in t.values:
            out += bool_leaves(v)
        return out
    return [t]


def bool_eval(test, val):
    """Value of `test` given truth values for its leaves (`val`: id(leaf) -> bool)."""
    t, pos = strip_not(test)
    if isinstance(t, ast.BoolOp):
        vs = [bool_eval(v, val) for v in t.values]
        r = all(vs) if isinstance(t.op, ast.And) else any(vs)
    else:
        r = val[id(t)]
    return r if pos else not r


def edge_implies(test, label_true: bool, fact_of) -> bool:
    """Does `test` evaluating to `label_true` imply that at least one leaf establishes the wanted fact?
    `fact_of(leaf, value)` says whether that leaf having that truth value establishes it.  Decided by the
    truth table over the leaves (free leaves range over both values)."""
    leaves = bool_leaves(test)
    if len(leaves) > 10:
        return False
    import itertools
    feasible = False
    for bits in itertools.product((False, True), repeat=len(leaves)):
        val = {id(lf): b for lf, b in zip(leaves, bits)}
        if bool_eval(test, val) != label_true:
            continue
        feasible = True
        if not any(fact_of(lf, b) for lf, b in zip(leaves, bits)):
            return False
    return feasible


def linear_terms(e, sign=1, out=None):
    """`a + b - c` -> [(+1, a), (+1, b), (-1, c)]"""
    out = [] if out is None else out
    if isinstance(e, ast.BinOp) and isinstance(e.op, (ast.Add, ast.Sub)):
        linear_terms(e.left, sign, out)
        linear_terms(e.right, sign if isinstance(e.op, ast.Add) else -sign, out)
    elif isinstance(e, ast.UnaryOp) and isinstance(e.op, ast.USub):
        linear_terms(e.operand, -sign, out)
    elif isinstance(e, ast.UnaryOp) and isinstance(e.op, ast.UAdd):
        linear_terms(e.operand, sign, out)
    else:
        out.append((sign, e))
    return out


def safe_expand(fa, e, at=None):
    """FA.expand, or `e` itself where it sits in code the explicit-edge CFG cannot reach (e.g. a handler of a try body
    that cannot raise): nothing is known about locals there."""
    ids = fa.nodes(at if at is not None else e)
    try:
        return fa.expand(e, ids[0]) if ids else e
    except AnalysisError:
        return e


def value_sources(fa, ret, max_depth=4):
    """What a `return` hands out, per origin: [(expression, CFG node where it is evaluated)].  A returned local is
    followed through its reaching plain assignments -- one (a temporary) or several (a result variable set on different
    branches and returned once at the end) -- so that a rule about "the value served" sees `entry.value` and
    `self.refs[k]` whether they are returned directly or through `value = ...; return value`."""
    out = []

    def rec(e, nid, depth):
        if isinstance(e, ast.Name) and depth < max_depth:
            ds = fa.df.reaching(nid, e.id)
            if ds and all(d.kind == "assign" and d.value is not None and d.node >= 0 for d in ds):
                for d in ds:
                    rec(d.value, d.node, depth + 1)
                return
        out.append((e, nid))

    if ret.value is not None:
        for i in fa.nodes(ret):
            rec(ret.value, i, 0)
    seen, uniq = set(), []
    for (e, i) in out:
        if (id(e), i) not in seen:
            seen.add((id(e), i))
            uniq.append((e, i))
    return uniq


def slot_calls(fa, field, names):
    """Calls of a method in `names` on the slot `self.<field>`: `self.f.clear()`, `t = self.f; t.clear()`, or `t.clear()` inside
    `for t in (self.f, self.g, ...):` (one statement applied to several slots)."""
    out = []
    for c in fa.calls():
        if A.call_attr(c) not in names or not isinstance(c.func, ast.Attribute):
            continue
        r = c.func.value
        if self_attr(r, field):
            out.append(c)
            continue
        if isinstance(r, ast.Name):
            for i in fa.nodes(c):
                ds = fa.df.reaching(i, r.id)
                if len(ds) == 1 and ds[0].kind == "for" and isinstance(ds[0].value, (ast.Tuple, ast.List)) \
                        and any(self_attr(e, field) for e in ds[0].value.elts):
                    out.append(c)
                    break
                if len(ds) == 1 and ds[0].kind == "assign" and ds[0].value is not None and self_attr(ds[0].value, field):
                    out.append(c)
                    break
    return out
