"""C03 — function versions are deterministic (structural part): determinism taint into every digest
and ordered iteration.  That a second process executes nothing is not decided."""
from . import hashing as H


def check(ck):
    from .memo import check_new_memo_tables
    ck.run(check_new_memo_tables, ck, "C03.M1", ('code_hash', 'memento', 'configuration'))
    ck.run(H.check_determinism_taint, ck, "C03.R1")
    ck.run(H.check_ordered_iteration, ck, "C03.R2")
    ck.run(H.check_update_protocol, ck, "C03.R3")
    ck.run(H.check_descent_complete, ck, "C03.R4")
    ck.run(H.check_definition_order_independence, ck, "C03.R5")
    # definition order again: what a locked cluster freezes is the version as of the last definition (D55)
    ck.run(H.check_locked_freezes_last_definition, ck, "C03.R6")
