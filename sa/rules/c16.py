"""C16 — context arguments key results, flow to nested calls, stay out of parameters (structural).

Decides: context args in the hash input but not in the body call (R1); inherit iff unset, replace
never merge (R2); the frame carries the updated context (R3); the prevent-flag raise dominates the
dispatch (R4); sibling reference constructions agree (R5).
"""
import ast

from .. import astutil as A
from ..fa import FA

RESERVED = "_memento_context_args"


def sibling_reference_sites(ck, rule):
    """C16.R5 / C02.R5: every reference-with-arguments built in base.py whose arg_hash reaches a
    storage or runner call passes the function's own context args."""
    mod = ck.repo.module("base")
    cls = mod.classes.get("MementoFunctionBase")
    ck.need(cls is not None, "base.MementoFunctionBase not found")
    n_sites = 0
    for name, m in cls.methods.items():
        fa = FA(ck, m)
        ctors = [c for c in fa.calls("FunctionReferenceWithArguments")] + [c for c in fa.calls("with_args")]
        for c in ctors:
            # exempt by def-use: the value is only used for .effective_kwargs
            st = fa.stmt_of(c)
            par = fa.pm.get(c)
            only_kwargs = isinstance(par, ast.Attribute) and par.attr == "effective_kwargs"
            if only_kwargs:
                ck.note(rule, fa.key(c, "exempt"), "reference used only for effective_kwargs (no key is derived from it)")
                continue
            n_sites += 1
            ca = A.kwarg(c, "context_args") or A.kwarg(c, RESERVED)
            if ca is None and A.call_attr(c) == "FunctionReferenceWithArguments" and len(c.args) > 3:
                ca = c.args[3]
            ok = ca is not None and A.norm(ca) == "self.context.recursive.context_args"
            ck.ob(rule, fa.key(c, "context-args"), ok, "the reference carries the function's own context args" if ok else
                  "%s builds its call reference without the function's context args: it addresses a different stored entry than call() does" % name,
                  fa.where(c))
    ck.need(n_sites >= 6, "base.py: expected at least 6 keyed reference constructions, found %d" % n_sites)


def check(ck):
    from .memo import check_new_memo_tables
    ck.run(check_new_memo_tables, ck, "C16.M1", ('reference', 'base', 'runner_local', 'call_stack', 'context'))
    R1, R2, R3, R4, R5 = ("C16.R%d" % i for i in range(1, 6))
    ck.rule(R1, "the hash input contains the context args under the reserved key iff non-empty; the body is called "
                "with the effective kwargs without them", 4)
    ck.rule(R2, "inherit iff unset; replace, never merge: the caller's context args are copied only when the call has "
                "none; references are rebuilt with the updated context; no dict merge of context args", 4)
    ck.rule(R3, "the stack frame is built from the updated context's recursive part; with_context_args / "
                "with_prevent_further_calls clone with the updated context", 4)
    ck.rule(R4, "the prevent_further_calls raise dominates the dispatch to the runner", 1)
    ck.rule(R5, "sibling agreement: every keyed reference construction in base.py passes self.context.recursive.context_args", 6)

    # ---- R1
    ce = FA(ck, "reference.FunctionReferenceWithArguments._compute_effective_kwargs_with_context_args")
    sets = [s for s in ce.stmts(ast.Assign) if any(isinstance(t, ast.Subscript) and A.const_str(t.slice) is not None for t in s.targets)]
    ok = len(sets) == 1 and A.const_str(sets[0].targets[0].slice) == RESERVED and A.norm(sets[0].value) == "self.context_args"
    g = ce.enclosing(sets[0], ast.If) if sets else None
    ok = ok and g is not None and "len(self.context_args) > 0" in A.norm(g.test)
    ck.ob(R1, ce.key(None, "reserved-key"), ok, "context args enter the hash under %r iff non-empty" % RESERVED if ok else
          "context args are not added to the hash input under %r exactly when non-empty" % RESERVED, ce.where())
    cp = [s for s in ce.stmts(ast.Assign) if isinstance(s.value, ast.Call) and A.call_attr(s.value) in ("copy", "dict")
          and "self.effective_kwargs" in A.norm(s.value)]
    okc = bool(cp) and ce.returns() and all(A.norm(r.value) == A.norm(cp[0].targets[0]) for r in ce.returns())
    ck.ob(R1, ce.key(None, "copy"), bool(okc), "the hash input is a copy: effective_kwargs itself stays free of context args" if okc else
          "the hash input is not a copy of effective_kwargs (context args would leak into the body's parameters)", ce.where())
    init = FA(ck, "reference.FunctionReferenceWithArguments.__init__")
    ah = init.one([s for s in init.stmts(ast.Assign) if any(A.dotted(t) == "self.arg_hash" for t in s.targets)], "self.arg_hash assignment")
    okh = isinstance(ah.value, ast.Call) and A.call_attr(ah.value) == "compute_hash" and [A.norm(a) for a in ah.value.args] == ["self.effective_kwargs_with_context_args"]
    ck.ob(R1, init.key(ah), okh, "arg_hash = hash(effective kwargs + context args)" if okh else
          "arg_hash is not computed from effective_kwargs_with_context_args", init.where(ah))
    rl = FA(ck, "runner_local.memento_run_local")
    body = rl.one(rl.calls("_filter_call"), "_filter_call (function body) call")
    okb = not body.args and len(body.keywords) == 1 and body.keywords[0].arg is None and \
        A.norm(body.keywords[0].value) == "fn_reference_with_args.effective_kwargs"
    ck.ob(R1, rl.key(body, "body-args"), okb, "the body receives exactly the effective kwargs (no context args)" if okb else
          "the body is not called with **fn_reference_with_args.effective_kwargs", rl.where(body))

    # ---- R2
    rb = FA(ck, "runner_local.memento_run_batch")
    ups = [c for c in rb.calls("update_recursive") if c.args and A.const_str(c.args[0]) == "context_args"]
    ok2 = len(ups) == 1
    if ok2:
        g = rb.enclosing(ups[0], ast.If)
        ok2 = g is not None and A.norm(g.test) == "context.recursive.context_args is None" and rb.inside(ups[0], g.body[0]) or \
            (g is not None and A.norm(g.test) == "context.recursive.context_args is None" and any(rb.inside(ups[0], b) for b in g.body))
        ok2 = ok2 and len(ups[0].args) > 1 and rb.xnorm(ups[0].args[1], rb.nodes(ups[0])[0]) == "CallStack.get().get_calling_frame().recursive_context.context_args"
    ck.ob(R2, rb.key(ups[0] if ups else None, "inherit-iff-unset"), bool(ok2),
          "the caller's context args are inherited only when the call attached none" if ok2 else
          "context args are not inherited exactly when the call has none of its own (guard or source changed)", rb.where())
    rebuilt = [c for c in rb.calls("FunctionReferenceWithArguments")]
    ok3 = len(rebuilt) == 1
    if ok3:
        c = rebuilt[0]
        args = [A.norm(a) for a in c.args]
        comp = rb.pm.get(c)
        cv = comp.generators[0].target.id if isinstance(comp, ast.ListComp) and len(comp.generators) == 1 and isinstance(comp.generators[0].target, ast.Name) \
            and not comp.generators[0].ifs and A.norm(comp.generators[0].iter) == "fn_reference_with_args" else None
        ok3 = cv is not None and args == [cv + ".fn_reference", cv + ".args", cv + ".kwargs", "context.recursive.context_args"]
        # the rebuilt list is what is dispatched, and it is built after the update
        ok3 = ok3 and all(rb.cfg.must_pass(rb.nodes_all(ups), i) for i in rb.nodes(c))
    ck.ob(R2, rb.key(None, "rebuild"), ok3, "references are rebuilt with the inherited context args" if ok3 else
          "after inheriting, the call references are not rebuilt from (fn_reference, args, kwargs, updated context args)", rb.where())
    disp = rb.one([c for c in rb.calls("batch_run")], "runner.batch_run dispatch")
    okd = A.norm(A.kwarg(disp, "context")) == "context" and A.norm(A.kwarg(disp, "fn_reference_with_args")) == "fn_reference_with_args"
    ck.ob(R2, rb.key(disp, "dispatch-args"), okd, "the updated context and references are dispatched" if okd else
          "the dispatch does not pass the updated context / references", rb.where(disp))
    merges = []
    for modname in ("runner_local", "base", "context"):
        for fi in ck.repo.module(modname).all_funcs():
            for n in A.walk_body(fi.node):
                txt = A.norm(n) if isinstance(n, (ast.Call, ast.Dict, ast.BinOp)) else ""
                if "context_args" not in txt:
                    continue
                if isinstance(n, ast.Call) and A.call_attr(n) == "update" and "context_args" in A.norm(A.call_recv(n)):
                    merges.append((fi, n))
                if isinstance(n, ast.Dict) and any(k is None for k in n.keys) and sum(1 for v in n.values if "context_args" in A.norm(v)) >= 1 and len(n.values) > 1:
                    merges.append((fi, n))
                if isinstance(n, ast.BinOp) and isinstance(n.op, ast.BitOr) and "context_args" in A.norm(n.left) and "context_args" in A.norm(n.right):
                    merges.append((fi, n))
    ck.ob(R2, "no-merge", not merges, "context args are never merged" if not merges else
          "caller and callee context args are merged at %s (%s)" % (A.loc(merges[0][0], merges[0][1]), A.short(merges[0][1], 50)),
          A.loc(merges[0][0], merges[0][1]) if merges else "")
    # RecursiveContext.update replaces the field
    ru = FA(ck, "context.RecursiveContext.update")
    st = [s for s in ru.stmts(ast.Assign) if any(isinstance(t, ast.Subscript) and "__dict__" in A.norm(t.value) for t in s.targets)]
    oku = len(st) == 1 and A.norm(st[0].targets[0].slice) == "key" and A.norm(st[0].value) == "value" and "copy" in A.norm(ru.node)
    ck.ob(R2, ru.key(None, "replace"), oku, "update() replaces the field on a copy" if oku else
          "RecursiveContext.update no longer sets result[key] = value on a copy", ru.where())

    ic_r = FA(ck, "context.InvocationContext.update_recursive")
    ic_l = FA(ck, "context.InvocationContext.update_local")
    okr = any(A.norm(r.value) == "InvocationContext(self.recursive.update(key, value), self.local)" for r in ic_r.returns())
    okl = any(A.norm(r.value) == "InvocationContext(self.recursive, self.local.update(key, value))" for r in ic_l.returns())
    ck.ob(R2, ic_r.key(None, "pure"), okr and okl, "context updates build a new context and touch only their own scope" if okr and okl else
          "update_recursive / update_local no longer return a new context that changes only their own scope", ic_r.where())
    # ---- R3
    sf = rl.one(rl.calls("StackFrame"), "StackFrame(...) construction")
    okf = len(sf.args) >= 3 and A.norm(sf.args[2]) == "context.recursive" and A.norm(sf.args[0]) == "fn_reference_with_args"
    ck.ob(R3, rl.key(sf, "frame-context"), okf, "the frame carries the (updated) recursive context" if okf else
          "the stack frame is not built from context.recursive of the context the runner received", rl.where(sf))
    br = FA(ck, "runner_local.LocalRunnerBackend.batch_run")
    for c in br.calls("memento_run_local"):
        okc = A.norm(A.kwarg(c, "context")) == "context"
        ck.ob(R3, br.key(c, "context-forwarded"), okc, "batch_run forwards the context it received" if okc else
              "batch_run does not forward its context to memento_run_local", br.where(c))
    for name, field in (("with_context_args", "context_args"), ("with_prevent_further_calls", "prevent_further_calls")):
        f = FA(ck, "base.MementoFunctionBase." + name)
        up = [c for c in f.calls("update_recursive") if c.args and A.const_str(c.args[0]) == field]
        cl = [c for c in f.calls("clone_with")]
        okw = len(up) == 1 and len(cl) == 1 and A.kwarg(cl[0], "context") is not None and "call:update_recursive" in f.deps(A.kwarg(cl[0], "context")) \
            and len(up[0].args) > 1 and A.norm(up[0].args[1]) in f.fi.params
        ck.ob(R3, f.key(None, "clone-with-updated-context"), okw, "%s clones with the updated context" % name if okw else
              "%s does not clone the function with context.update_recursive(%r, <argument>)" % (name, field), f.where())
    cw = FA(ck, "memento.MementoFunction.clone_with")
    ctor = cw.one(cw.calls("MementoFunction"), "MementoFunction(...) in clone_with")
    okk = A.norm(A.kwarg(ctor, "context")) == "context or self.context"
    ck.ob(R3, cw.key(ctor, "context-param"), okk, "clone_with passes the given context to the clone" if okk else
          "clone_with does not pass `context or self.context` to the clone", cw.where(ctor))

    # ---- R4
    raises = [r for r in rb.stmts(ast.Raise) if isinstance(r.exc, ast.Call) and A.call_attr(r.exc) == "RuntimeError"]
    ok4 = False
    for r in raises:
        g = rb.enclosing(r, ast.If)
        if g is not None and "CallStack.get().get_calling_frame().recursive_context.prevent_further_calls" in rb.xnorm(g.test, rb.nodes(g.test)[0]):
            tn = [n.id for n in rb.cfg.nodes if n.kind == "test" and n.ast is g.test]
            # on the true edge the dispatch is unreachable; and the test dominates the dispatch
            dn = rb.nodes(disp)
            live = rb.cfg.reach(tn, edge_ok=lambda s, d, l, tn=tn: not (s in tn and l == "F"), include_start=False)
            ok4 = all(rb.cfg.must_pass(tn, i) for i in dn) and not (set(dn) & live)
    ck.ob(R4, rb.key(None, "prevent-dominates-dispatch"), ok4, "a prevented call raises before anything is dispatched" if ok4 else
          "the prevent_further_calls check does not dominate the dispatch to the runner", rb.where())

    # ---- R5
    sibling_reference_sites(ck, R5)
