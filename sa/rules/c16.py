"""C16 — context arguments key results, flow to nested calls, stay out of parameters (structural).

Decides: context args in the hash input but not in the body call (R1); inherit iff unset, replace
never merge (R2); the frame carries the updated context (R3); the prevent-flag raise dominates the
dispatch (R4); sibling reference constructions agree (R5); the frame leaves the call stack on every way
out of its invocation (R6).

The clauses are decided on meanings, not spellings: objects are followed through aliases to the
definition that created them (`origin`), guards are read off the path conditions (`FA.conditions`)
and evaluated, private helpers of a constructor are flattened into it before it is looked at
(`flat_method`), reads of an `InvocationContext` are simplified through `update_recursive` /
`update_local` chains (`ctx_text`).
"""
import ast
import copy

from .. import astutil as A
from ..fa import FA
from ..loader import AnalysisError, FuncInfo

RESERVED = "_memento_context_args"
FRA = "reference.FunctionReferenceWithArguments"
FRAME = "CallStack.get().get_calling_frame()"


# ------------------------------------------------------------------------------------------------
# helpers shared with c04.py
# ------------------------------------------------------------------------------------------------
def strip_cast(e):
    while isinstance(e, ast.Call) and A.call_attr(e) == "cast" and len(e.args) == 2 and not e.keywords:
        e = e.args[1]
    return e


def _blocks(node):
    for fld in ("body", "orelse", "finalbody"):
        b = getattr(node, fld, None)
        if isinstance(b, list) and b and isinstance(b[0], ast.stmt):
            yield b
    for h in getattr(node, "handlers", []) or []:
        yield h.body


def _split_tuple_assigns(fn):
    """`self.a, self.b = x, y` -> `self.a = x; self.b = y` (no value reads a target)."""
    for n in ast.walk(fn):
        for b in _blocks(n):
            out = []
            for s in b:
                if isinstance(s, ast.Assign) and len(s.targets) == 1 and isinstance(s.targets[0], ast.Tuple) and isinstance(s.value, ast.Tuple) \
                        and len(s.targets[0].elts) == len(s.value.elts) \
                        and all(isinstance(t, (ast.Name, ast.Attribute)) for t in s.targets[0].elts):
                    tn = {A.norm(t) for t in s.targets[0].elts}
                    simple = all(isinstance(v, (ast.Name, ast.Attribute, ast.Constant)) for v in s.value.elts)
                    # a value that is computed (a call, ...) must not be able to see a target at all: it does not mention the
                    # object a target is a field of, nor a target name
                    roots = {A.root_name(t) for t in s.targets[0].elts}
                    blind = simple or not any(isinstance(x, ast.Name) and x.id in roots for v in s.value.elts for x in ast.walk(v))
                    if blind and not any(A.norm(x) in tn for v in s.value.elts for x in ast.walk(v) if isinstance(x, (ast.Name, ast.Attribute))):
                        for t, v in zip(s.targets[0].elts, s.value.elts):
                            out.append(ast.copy_location(ast.Assign(targets=[t], value=v), s))
                        continue
                out.append(s)
            b[:] = out


def _rejoin_outlined_locals(node, module):
    """The front end folds statements that a change wrote out in the host back into the helper they came from
    (sa/outline.py) and flat_method writes them out again, under fresh local names.  A local of those statements
    that the host goes on reading after them (`h = ...copy(); ...; self.f = h; use(h)`) is then read under a name
    nothing in the host binds any more, while its definition sits under `<name>__i<k>`.  Such a read can only
    mean that local (the name is bound nowhere else: not in the host, not in the module, not a builtin), so the
    fresh name is given the original one back."""
    import builtins
    import re
    bound, loads = set(), set()
    a = node.args
    bound |= {x.arg for x in a.posonlyargs + a.args + a.kwonlyargs + ([a.vararg] if a.vararg else []) + ([a.kwarg] if a.kwarg else [])}
    for n in ast.walk(node):
        if isinstance(n, ast.Name):
            (loads if isinstance(n.ctx, ast.Load) else bound).add(n.id)
        elif isinstance(n, (ast.FunctionDef, ast.AsyncFunctionDef, ast.ClassDef)) and n is not node:
            bound.add(n.name)
        elif isinstance(n, ast.arg):
            bound.add(n.arg)
        elif isinstance(n, ast.ExceptHandler) and n.name:
            bound.add(n.name)
        elif isinstance(n, (ast.Import, ast.ImportFrom)):
            bound |= {(al.asname or al.name).split(".")[0] for al in n.names}
    known = set(module.functions) | set(module.classes) | set(module.imports) | set(module.assigns) | set(dir(builtins))
    for name in sorted(loads - bound - known):
        twins = [b for b in bound if re.fullmatch(re.escape(name) + r"__i\d+", b)]
        if len(twins) == 1:
            for n in ast.walk(node):
                if isinstance(n, ast.Name) and n.id == twins[0]:
                    n.id = name


def flat_method(ck, qual) -> FA:
    """FA of a copy of method `qual` in which the calls `self._helper(...)` to private methods of its own
    class are inlined (recursively): whether a constructor computes a field in place, through one helper,
    through two, or through one helper that returns a pair, the rules see the same straight-line code."""
    from ..inline import Inliner, _all_names
    fi = ck.fn(qual)
    if fi.cls is None:
        return FA(ck, fi)
    host = fi.node

    class SelfInliner(Inliner):
        def resolve(self, call, f_):
            r = Inliner.resolve(self, call, f_)
            if r is not None:
                return r
            f = call.func
            if isinstance(f, ast.Attribute) and isinstance(f.value, ast.Name) and f.value.id == "self" \
                    and f.attr.startswith("_") and not f.attr.endswith("__"):
                cal = self.repo.find_method(fi.cls, f.attr)
                if cal is not None and cal.cls is not None and cal.node is not host and not cal.is_static and not cal.is_classmethod \
                        and not any(f.attr in c.methods for c in self.repo.subclasses(fi.cls)):
                    return cal, f.value
            return None

    node = copy.deepcopy(host)
    try:
        inl = SelfInliner(ck.repo)
        inl.rewrite_block_owner(node, fi, _all_names(node), 0)
    except RecursionError:
        node = copy.deepcopy(host)
    if fi.qual in set((getattr(ck.repo, "reoutlined", None) or {}).values()):
        _rejoin_outlined_locals(node, fi.module)
    _split_tuple_assigns(node)
    ast.fix_missing_locations(node)
    nfi = FuncInfo(fi.module, node, fi.qual, cls=fi.cls, parent=fi.parent)
    return FA(ck, nfi)


def _ref_name(e):
    """'x' for a local, 'self.f' for a field of self, None otherwise."""
    if isinstance(e, ast.Name):
        return e.id
    if isinstance(e, ast.Attribute) and isinstance(e.value, ast.Name) and e.value.id == "self":
        return "self." + e.attr
    return None


def single_def(fa, name, at):
    ds = fa.df.reaching(at, name)
    if len(ds) == 1 and ds[0].kind == "assign" and ds[0].value is not None:
        return ds[0]
    return None


def _creating(ds):
    """reaching definitions without the in-place ones (`m |= other` changes the mapping `m` names, it does not
    make it name another one)"""
    return [d for d in ds if not (d.kind == "aug" and isinstance(getattr(d.stmt, "op", None), ast.BitOr))]


class CaseDef:
    """One arm of a definition whose value is a conditional expression: the definition, taken under `guard`
    (literals as FA._atoms gives them)."""
    __slots__ = ("node", "name", "value", "kind", "stmt", "guard")

    def __init__(self, d, arm, value, guard):
        self.node, self.name, self.kind, self.stmt = d.node, "%s#%s" % (d.name, arm), d.kind, d.stmt
        self.value, self.guard = value, tuple(getattr(d, "guard", ())) + tuple(guard)


def case_conds(fa, d):
    """the conditions under which definition `d` (a Def or one arm of it) is made"""
    out = set()
    extra = canon_conj(getattr(d, "guard", ()))
    for c in conds(fa, d.node):
        lits = set(c) | set(extra)
        if not any((t, not p) in lits for (t, p) in lits):
            out.add(frozenset(lits))
    return out


def origin(fa, expr, at, _seen=frozenset()):
    """The definition that created the object `expr` denotes at CFG node `at`: plain aliases (locals and
    fields of self, casts) are followed back; several reaching assignments are fine as long as they all lead
    to the same creating definition.  None if `expr` is not such a name."""
    nm = _ref_name(strip_cast(expr))
    if nm is None:
        return None
    ds = _creating(fa.df.reaching(at, nm))
    if not ds or any(d.kind != "assign" or d.value is None for d in ds):
        return None
    res = []
    for d in ds:
        if (d.node, d.name) in _seen:
            return None
        o = origin(fa, d.value, d.node, _seen | {(d.node, d.name)})
        res.append(o if o is not None else d)
    return res[0] if all((r.node, r.name) == (res[0].node, res[0].name) for r in res) else None


def same_def(a, b):
    return a is not None and b is not None and (a.node, a.name) == (b.node, b.name)


def origins(fa, expr, at, _seen=frozenset()):
    """Like `origin`, for an object that is created in one of several places depending on the path (one
    definition per case, early returns of a flattened helper): the list of creating definitions (no
    duplicates); None if `expr` is not a plain name / field of self or some chain does not end in an assignment."""
    nm = _ref_name(strip_cast(expr))
    if nm is None:
        return None
    ds = _creating(fa.df.reaching(at, nm))
    if not ds or any(d.kind != "assign" or d.value is None for d in ds):
        return None
    out = []

    def arms(d):
        # a conditional expression creates one object per arm
        v = strip_cast(d.value)
        if isinstance(v, ast.IfExp):
            res = []
            for (arm, branch, pol) in (("T", v.body, True), ("F", v.orelse, False)):
                try:
                    lits = fa._atoms(v.test, d.node, pol)
                except RecursionError:
                    # a test on a name that was rebound in terms of itself (`p = p or {}`): kept as one literal
                    lits = [(A.norm(v.test), pol)]
                res += arms(CaseDef(d, arm, branch, lits))
            return res
        return [d]

    for d0 in ds:
        if (d0.node, d0.name) in _seen:
            return None
        for d in arms(d0):
            sub = origins(fa, d.value, d.node, _seen | {(d0.node, d0.name)}) if _ref_name(strip_cast(d.value)) is not None else None
            for o in (sub if sub is not None else [d]):
                if not any(same_def(o, x) for x in out):
                    out.append(o)
    return out


def map_shape(e):
    """How a mapping is put together by the expression that creates it: (base, items, odd) — `base` the
    mapping it copies (`R.copy()`, `dict(R)`, `{**R, ...}`, `dict(R, k=v)`, `R | {...}`; None if it starts
    empty), `items` the [(constant key, value expression)] it adds, `odd` True when something else goes
    in (a second mapping merged in, a computed key).  None if `e` does not create a mapping."""
    e = strip_cast(e)
    src = is_copy_of(e)
    if src is not None:
        return (src, [], False)
    if isinstance(e, ast.Dict):
        base, items, odd = None, [], False
        for k, v in zip(e.keys, e.values):
            if k is None:
                if base is None and not items:
                    base = v
                else:
                    odd = True
            elif A.const_str(k) is not None:
                items.append((A.const_str(k), v))
            else:
                odd = True
        return (base, items, odd)
    if isinstance(e, ast.Call) and isinstance(e.func, ast.Name) and e.func.id == "dict" and len(e.args) <= 1:
        items = [(k.arg, k.value) for k in e.keywords if k.arg is not None]
        odd = any(k.arg is None for k in e.keywords)
        return (e.args[0] if e.args else None, items, odd)
    if isinstance(e, ast.BinOp) and isinstance(e.op, ast.BitOr):
        r = map_shape(e.right)
        if r is not None and r[0] is None and isinstance(strip_cast(e.right), (ast.Dict, ast.Call)):
            return (e.left, r[1], r[2])
        return (e.left, [], True)
    return None


def fexpand(fa, expr, at, depth=14, _stack=()):
    """Like FA.expand, and fields of self that have one reaching assignment are expanded too."""
    bound = set()
    for x in ast.walk(expr):
        if isinstance(x, ast.comprehension):
            bound |= {n.id for n in ast.walk(x.target) if isinstance(n, ast.Name)}
        if isinstance(x, ast.Lambda):
            bound |= {a.arg for a in x.args.args + x.args.kwonlyargs + x.args.posonlyargs}

    def sub(name):
        if depth <= 0:
            return None
        d = single_def(fa, name, at)
        if d is None:
            # several assignments of one and the same object (`x = obj` on both branches)
            d = origin(fa, ast.parse(name, mode="eval").body, at)
        if d is None or (d.node, d.name) in _stack:
            return None
        return fexpand(fa, d.value, d.node, depth - 1, _stack + ((d.node, d.name),))

    class T(ast.NodeTransformer):
        def visit_Name(self, n):
            if isinstance(n.ctx, ast.Load) and n.id not in bound:
                r = sub(n.id)
                if r is not None:
                    return r
            return n

        def visit_Attribute(self, n):
            if isinstance(n.ctx, ast.Load):
                nm = _ref_name(n)
                if nm is not None:
                    r = sub(nm)
                    if r is not None:
                        return r
            self.generic_visit(n)
            return n

        def visit_Call(self, n):
            self.generic_visit(n)
            return strip_cast(n)

    return T().visit(copy.deepcopy(expr))


def ftext(fa, expr, at=None) -> str:
    if at is None:
        ids = fa.nodes(expr)
        if not ids:
            raise AnalysisError("%s: expression `%s` has no (reachable) CFG node" % (fa.qual, A.short(expr, 60)))
        at = ids[0]
    return A.norm(fexpand(fa, expr, at))


_NEG = {ast.IsNot: ast.Is, ast.NotEq: ast.Eq, ast.NotIn: ast.In}


def lit_expr(text, pol):
    """A path-condition literal (text, polarity) as (expression, polarity), with `not`, `is not`, `!=` and
    `not in` folded into the polarity (a flag that holds a negated test is expanded to its text by
    FA.conditions but not re-normalised)."""
    try:
        e = ast.parse(text, mode="eval").body
    except SyntaxError:
        return None, pol
    while True:
        if isinstance(e, ast.UnaryOp) and isinstance(e.op, ast.Not):
            e, pol = e.operand, not pol
            continue
        if isinstance(e, ast.Compare) and len(e.ops) == 1 and type(e.ops[0]) in _NEG:
            e = ast.Compare(left=e.left, ops=[_NEG[type(e.ops[0])]()], comparators=e.comparators)
            pol = not pol
            continue
        if isinstance(e, ast.Call) and isinstance(e.func, ast.Name) and e.func.id == "bool" and len(e.args) == 1 and not e.keywords:
            e = e.args[0]
            continue
        return e, pol


class _CtxSimplify(ast.NodeTransformer):
    """Reads of an InvocationContext through the pure updaters: X.update_recursive(k, v).recursive.f is v
    when k == f and X.recursive.f otherwise; update_local leaves .recursive alone (and vice versa)."""

    def visit_Attribute(self, n):
        self.generic_visit(n)
        v = n.value
        if isinstance(v, ast.Call) and isinstance(v.func, ast.Attribute):
            if (v.func.attr, n.attr) in (("update_local", "recursive"), ("update_recursive", "local")):
                return self.visit(ast.Attribute(value=v.func.value, attr=n.attr, ctx=ast.Load()))
        if isinstance(v, ast.Attribute) and v.attr == "recursive" and isinstance(v.value, ast.Call) and isinstance(v.value.func, ast.Attribute) \
                and v.value.func.attr == "update_recursive":
            k = A.const_str(A.arg_or_kw(v.value, 0, "key"))
            val = A.arg_or_kw(v.value, 1, "value")
            if k is not None and val is not None:
                if k == n.attr:
                    return val
                return self.visit(ast.Attribute(value=ast.Attribute(value=v.value.func.value, attr="recursive", ctx=ast.Load()), attr=n.attr, ctx=ast.Load()))
        return n


def ctx_simplify(e):
    return ast.fix_missing_locations(_CtxSimplify().visit(copy.deepcopy(e)))


def ctx_text(fa, expr, at=None) -> str:
    if at is None:
        at = fa.nodes(expr)[0]
    e = fa.expand(expr, at)

    class C(ast.NodeTransformer):
        def visit_Call(self, n):
            self.generic_visit(n)
            return strip_cast(n)

    return A.norm(ctx_simplify(C().visit(e)))


def canon_conj(conj):
    """A conjunct of FA.conditions with every literal folded (lit_expr) and context reads simplified."""
    out = set()
    for (t, p) in conj:
        e, p2 = lit_expr(t, p)
        out.add((A.norm(ctx_simplify(e)), p2) if e is not None else (t, p))
    return frozenset(out)


def conds(fa, target):
    c = fa.conditions(target)
    if c is None:
        raise AnalysisError("%s: too many paths to `%s`" % (fa.qual, A.short(target, 50) if not isinstance(target, int) else target))
    return {canon_conj(x) for x in c}


def relative(cs, base):
    """Conjuncts `cs` without the literals every conjunct of `base` contains (the guards that everything
    after them has passed)."""
    common = None
    for b in base:
        common = set(b) if common is None else common & set(b)
    common = common or set()
    return {frozenset(c - common) for c in cs}


_SAFE_NODES = (ast.Expression, ast.Name, ast.Load, ast.Constant, ast.Compare, ast.Call, ast.Dict, ast.UnaryOp, ast.Not, ast.BoolOp, ast.And, ast.Or,
               ast.Is, ast.IsNot, ast.Eq, ast.NotEq, ast.Lt, ast.LtE, ast.Gt, ast.GtE, ast.Tuple, ast.List, ast.USub)


def holds_iff_nonempty(cs, aliases):
    """Do the conjuncts `cs` (relative path conditions) hold exactly when the mapping spelled by one of
    `aliases` is non-empty?  Decided by evaluating the literals for None, {}, one entry, two entries; a
    literal about anything else makes the answer False."""
    conjs = []
    for conj in cs:
        lits = []
        for (t, p) in conj:
            e = parse_literal(t)
            if e is None:
                return False

            class R(ast.NodeTransformer):
                def visit(self, n):
                    if isinstance(n, ast.NamedExpr):
                        n = n.value  # the test reads the value that is being named
                    if isinstance(n, ast.expr) and A.norm(n) in aliases:
                        return ast.Name(id="CA", ctx=ast.Load())
                    return ast.NodeTransformer.visit(self, n)

            e = ast.fix_missing_locations(ast.Expression(body=R().visit(e)))
            for x in ast.walk(e):
                if not isinstance(x, _SAFE_NODES):
                    return False
                if isinstance(x, ast.Name) and x.id not in ("CA", "len", "bool"):
                    return False
                if isinstance(x, ast.Call) and not (isinstance(x.func, ast.Name) and x.func.id in ("len", "bool") and not x.keywords):
                    return False
            lits.append((compile(e, "<literal>", "eval"), p))
        conjs.append(lits)

    def holds(v):
        for lits in conjs:
            ok = True
            for (code, p) in lits:
                try:
                    r = bool(eval(code, {"__builtins__": {}}, {"CA": v, "len": len, "bool": bool}))
                except Exception:
                    ok = False
                    break
                if r != p:
                    ok = False
                    break
            if ok:
                return True
        return False

    return not holds(None) and not holds({}) and holds({"a": 1}) and holds({"a": 1, "b": 2})


def is_copy_of(e):
    """`R.copy()`, `dict(R)`, `{**R}`, `copy.copy(R)`, `copy.deepcopy(R)` -> R; else None."""
    e = strip_cast(e)
    if isinstance(e, ast.Call):
        n = A.call_attr(e)
        if n == "copy" and isinstance(e.func, ast.Attribute) and not e.args and not e.keywords and A.dotted(e.func.value) != "copy":
            return e.func.value
        if n in ("dict", "copy", "deepcopy") and len(e.args) == 1 and not e.keywords:
            return e.args[0]
        if n == "dict" and not e.args and len(e.keywords) == 1 and e.keywords[0].arg is None:
            return e.keywords[0].value
    if isinstance(e, ast.Dict) and len(e.keys) == 1 and e.keys[0] is None:
        return e.values[0]
    return None


def _class_of_ctor(ck, fa, call):
    """the class of the repository a call `C(...)` constructs, or None"""
    f = call.func
    if not isinstance(f, ast.Name):
        return None
    ci = fa.fi.module.classes.get(f.id)
    if ci is None:
        named = ck.repo.classes_named(f.id)
        ci = named[0] if len(named) == 1 and f.id in (getattr(fa.fi.module, "imports", {}) or {}) else None
    return ci


def ctor_fields(ck, fa, call):
    """{field: argument expression} for a call that constructs an object of a class of the repository: the fields that
    are bound to a constructor argument as it is and stay bound to it — a dataclass / NamedTuple field, or `self.f = p`
    written once, unconditionally, in __init__ — and that no method of the class re-binds.  Other fields are left out."""
    ci = _class_of_ctor(ck, fa, call)
    if ci is None or any(isinstance(a, ast.Starred) for a in call.args) or any(k.arg is None for k in call.keywords):
        return {}
    init = ci.methods.get("__init__")
    binding = {}    # field -> parameter
    if init is not None:
        params = init.params[1:]
        va = init.node.args
        if va.vararg is not None or va.kwarg is not None:
            return {}
        count = {}
        for n in ast.walk(init.node):
            if isinstance(n, ast.Attribute) and isinstance(n.ctx, (ast.Store, ast.Del)) and A.dotted(n.value) == "self":
                count[n.attr] = count.get(n.attr, 0) + 1
        for st in init.node.body:
            if isinstance(st, ast.AnnAssign) and st.value is not None:
                tg, v = [st.target], st.value
            elif isinstance(st, ast.Assign):
                tg, v = st.targets, st.value
            else:
                continue
            for t in tg:
                if isinstance(t, ast.Attribute) and A.dotted(t.value) == "self" and isinstance(v, ast.Name) and v.id in params and count.get(t.attr) == 1 \
                        and not any(isinstance(x, ast.Name) and x.id == v.id and isinstance(x.ctx, ast.Store) for x in ast.walk(init.node)):
                    binding[t.attr] = v.id
    else:
        decos = {A.dotted(d.func if isinstance(d, ast.Call) else d) for d in ci.node.decorator_list}
        bases = {A.dotted(b) for b in ci.node.bases}
        if not (decos & {"dataclass", "dataclasses.dataclass"} or bases & {"NamedTuple", "typing.NamedTuple"}) \
                or (bases - {"NamedTuple", "typing.NamedTuple", "object"}):
            return {}
        params = [st.target.id for st in ci.node.body if isinstance(st, ast.AnnAssign) and isinstance(st.target, ast.Name)
                  and "ClassVar" not in A.norm(st.annotation)]
        binding = {p_: p_ for p_ in params}
    for name, m in ci.methods.items():
        if name == "__init__":
            continue
        for n in ast.walk(m.node):
            if isinstance(n, ast.Attribute) and isinstance(n.ctx, (ast.Store, ast.Del)) and n.attr in binding:
                binding.pop(n.attr)
    out = {}
    for f_, p_ in binding.items():
        v = A.kwarg(call, p_)
        if v is None and p_ in params and params.index(p_) < len(call.args):
            v = call.args[params.index(p_)]
        if v is not None:
            out[f_] = v
    return out


def resolve_object_fields(ck, fa, expr, at):
    """`expr` with every read `x.f` of a field of an object that this function constructed (a method object, a record
    of the invocation: `x = C(..., f=v, ...)`) replaced by the argument the field was bound to, provided nothing —
    neither the class nor this function — re-binds that field.  The argument is expanded where the object is made."""
    stored = {n.attr for n in ast.walk(fa.node) if isinstance(n, ast.Attribute) and isinstance(n.ctx, (ast.Store, ast.Del))}

    class T(ast.NodeTransformer):
        def visit_Attribute(self, n):
            self.generic_visit(n)
            if isinstance(n.ctx, ast.Load) and isinstance(strip_cast(n.value), ast.Call) and n.attr not in stored:
                # (the expansion has already put the constructing call in the place of the local)
                fields = ctor_fields(ck, fa, strip_cast(n.value))
                if n.attr in fields:
                    return strip_cast(fields[n.attr])
            if isinstance(n.ctx, ast.Load) and isinstance(n.value, ast.Name) and n.attr not in stored:
                o = origin(fa, n.value, at)
                v = strip_cast(o.value) if o is not None and o.value is not None else None
                if isinstance(v, ast.Call):
                    fields = ctor_fields(ck, fa, v)
                    if n.attr in fields:
                        try:
                            return strip_cast(fa.expand(fields[n.attr], o.node))
                        except AnalysisError:
                            return copy.deepcopy(fields[n.attr])
            return n

    return ast.fix_missing_locations(T().visit(copy.deepcopy(expr)))


def body_call(ck, rl):
    """(FA, call): the one place where the function body is run (`<memento_fn>._filter_call(...)`), in memento_run_local
    itself or in a function defined inside it (a closure / generator the invocation is written with)."""
    found = [(rl, c) for c in rl.calls("_filter_call")]

    def rec(fi):
        for nf in fi.nested.values():
            nfa = FA(ck, nf)
            found.extend((nfa, c) for c in nfa.calls("_filter_call"))
            rec(nf)

    rec(rl.fi)
    if len(found) != 1:
        raise AnalysisError("%s: expected exactly one _filter_call (function body) call, found %d" % (rl.qual, len(found)))
    return found[0]


class FlatInit:
    """FunctionReferenceWithArguments.__init__ with its private helpers flattened in, and the objects the
    key is made of: `ek` (the definition creating what self.effective_kwargs finally holds), `hk` (the
    definition creating the argument of compute_hash), `hash_call`, `hash_def`."""

    def __init__(self, ck):
        self.fa = fa = flat_method(ck, FRA + ".__init__")
        self.exit = fa.cfg.exit
        hd = fa.df.reaching(self.exit, "self.arg_hash")
        if not hd:
            raise AnalysisError("%s: no assignment of self.arg_hash reaches the end of the constructor" % fa.qual)
        self.hash_defs = hd
        self.hash_def = hd[0]
        self.hash_call = None
        self.hk = None     # the one definition creating the hash input (None if there are several, see hks)
        self.hks = []      # the definitions creating the hash input, one per case
        if len(hd) == 1 and hd[0].kind == "assign":
            v, at = strip_cast(hd[0].value), hd[0].node
            if _ref_name(v) is not None:
                o = origin(fa, v, at)
                if o is not None:
                    v, at = strip_cast(o.value), o.node
            if isinstance(v, ast.Call) and A.call_attr(v) == "compute_hash":
                self.hash_call = v
                self.hash_at = at
                a = A.arg_or_kw(v, 0, "effective_kwargs")
                if a is not None:
                    self.hks = origins(fa, a, at) or []
                    self.hk = self.hks[0] if len(self.hks) == 1 else None
        self.ek = self.final("effective_kwargs")

    def final(self, field):
        """origin of what self.<field> holds when the constructor returns"""
        ds = self.fa.df.reaching(self.exit, "self." + field)
        if len(ds) != 1 or ds[0].kind != "assign" or ds[0].value is None:
            return None
        o = origin(self.fa, ds[0].value, ds[0].node)
        return o if o is not None else ds[0]

    def reads_final(self, expr, at, field):
        """does `expr` at `at` denote what self.<field> holds when the constructor returns (the field read
        after its last assignment, or a local the field was assigned from)?"""
        fa = self.fa
        fin = fa.df.reaching(self.exit, "self." + field)
        if not fin:
            return False
        e = strip_cast(expr)
        seen = set()
        while True:
            nm = _ref_name(e)
            if nm is None:
                return False
            if nm == "self." + field:
                return {(d.node, d.name) for d in fa.df.reaching(at, nm)} == {(d.node, d.name) for d in fin}
            d = single_def(fa, nm, at)
            if d is None:
                break
            # a local the field was assigned from
            if any(f.kind == "assign" and f.value is not None and _ref_name(strip_cast(f.value)) == nm and same_def(single_def(fa, nm, f.node), d) for f in fin) and len(fin) == 1:
                return True
            if (d.node, d.name) in seen:
                return False
            seen.add((d.node, d.name))
            e, at = strip_cast(d.value), d.node
        return False

    def aliases_of(self, d):
        """all names / self fields (text) that are plain aliases of definition d somewhere"""
        fa = self.fa
        out = {d.name}
        for s in fa.stmts(ast.Assign):
            for t in s.targets:
                nm = _ref_name(t)
                if nm and fa.nodes(s) and same_def(origin(fa, s.value, fa.nodes(s)[0]), d):
                    out.add(nm)
        return out

    def denotes(self, expr, at, d):
        return same_def(origin(self.fa, expr, at), d)

    def denotes_any(self, expr, at, defs):
        """`expr` at `at` is, on every path, one of the objects created by `defs`"""
        os_ = origins(self.fa, expr, at)
        return bool(os_) and all(any(same_def(o, d) for d in defs) for o in os_)


EMPTY_VALUES = ("()", "[]", "{}", "tuple()", "list()", "dict()", "tuple([])", "tuple(())")


def is_empty_value(txt):
    """does the (normalised) expression text denote an empty container whatever the state: an empty display, or a container
    constructor applied to nothing or to such an empty value (`dict(())`, `list(tuple())`, `{**{}}`)?"""
    if txt in EMPTY_VALUES:
        return True
    try:
        e = ast.parse(txt, mode="eval").body
    except (SyntaxError, ValueError, TypeError):
        return False

    def empty(x):
        if isinstance(x, (ast.Tuple, ast.List, ast.Set)):
            return all(isinstance(v, ast.Starred) and empty(v.value) for v in x.elts)
        if isinstance(x, ast.Dict):
            return all(k is None and empty(v) for k, v in zip(x.keys, x.values))
        if isinstance(x, ast.Call) and isinstance(x.func, ast.Name) and x.func.id in ("dict", "list", "tuple", "set", "frozenset", "sorted", "reversed") \
                and not any(k.arg is not None for k in x.keywords):
            return all(empty(a) for a in x.args) and all(empty(k.value) for k in x.keywords) and len(x.args) <= 1
        return False
    return empty(e)


def feasible_with(conj, aliases, value):
    """Can a path with the branch literals `conj` be taken when the mapping spelled by one of `aliases` is
    `value`?  Literals about anything else do not decide (the path stays possible)."""
    for (t, p) in conj:
        e = parse_literal(t)
        if e is None:
            continue

        class R(ast.NodeTransformer):
            def visit(self, n):
                if isinstance(n, ast.NamedExpr):
                    n = n.value
                if isinstance(n, ast.expr) and A.norm(n) in aliases:
                    return ast.Name(id="CA", ctx=ast.Load())
                return ast.NodeTransformer.visit(self, n)

        e = ast.fix_missing_locations(ast.Expression(body=R().visit(e)))
        about_it = True
        for x in ast.walk(e):
            if not isinstance(x, _SAFE_NODES) or (isinstance(x, ast.Name) and x.id not in ("CA", "len", "bool")) \
                    or (isinstance(x, ast.Call) and not (isinstance(x.func, ast.Name) and x.func.id in ("len", "bool") and not x.keywords)):
                about_it = False
                break
        if not about_it:
            continue
        try:
            r = bool(eval(compile(e, "<literal>", "eval"), {"__builtins__": {}}, {"CA": value, "len": len, "bool": bool}))
        except Exception:
            return False
        if r != p:
            return False
    return True


def _immutable_constant(v):
    v = strip_cast(v)
    if isinstance(v, ast.Constant):
        return True
    if isinstance(v, ast.Tuple):
        return all(_immutable_constant(x) for x in v.elts)
    if isinstance(v, ast.UnaryOp) and isinstance(v.operand, ast.Constant):
        return True
    if isinstance(v, ast.Call) and isinstance(v.func, ast.Name) and v.func.id == "frozenset" and all(_immutable_constant(a) for a in v.args) and not v.keywords:
        return True
    return False


# library decorators that make a function answer from what it computed for an earlier call (by `==` / hash of the
# arguments: 1, 1.0 and True are one entry)
RESULT_KEEPERS = {"functools.lru_cache", "functools.cache", "functools.cached_property", "cachetools.cached", "cachetools.cachedmethod"}


def keeps_results(fi):
    """the decorator of function `fi` that keeps its results between calls (a text), or None; the decorator is
    identified through the module's import table, whatever local name it goes by"""
    imports = {}
    for n in ast.walk(fi.module.tree):
        # (an import written inside a class or function body binds the name just the same)
        if isinstance(n, ast.Import):
            for a in n.names:
                imports.setdefault(a.asname or a.name.split(".")[0], a.name if a.asname else a.name.split(".")[0])
        elif isinstance(n, ast.ImportFrom):
            for a in n.names:
                imports.setdefault(a.asname or a.name, ("." * n.level) + (n.module or "") + ":" + a.name)
    imports.update(getattr(fi.module, "imports", {}) or {})
    for d in fi.node.decorator_list:
        f = d.func if isinstance(d, ast.Call) else d
        dotted = A.dotted(f)
        if not dotted:
            continue
        head, _, rest = dotted.partition(".")
        org = imports.get(head)
        if org is None:
            continue
        full = org.replace(":", ".") + ("." + rest if rest else "")
        if full.lstrip(".") in RESULT_KEEPERS:
            return ast.unparse(d)
    return None


def _frozen_table(v, _top=True):
    """a value that cannot change once made: a constant, a reference to a named object (a type, a function), or a tuple /
    frozenset of such — a dispatch table written as a tuple of (type, handler) pairs is a constant of the program"""
    v = strip_cast(v)
    if _immutable_constant(v):
        return True
    if not _top and (isinstance(v, ast.Name) or (isinstance(v, ast.Attribute) and A.dotted(v) is not None)):
        return True     # (an entry that names an object; a variable that is just another name for an object is not a table)
    if isinstance(v, ast.Tuple):
        return all(_frozen_table(x, False) for x in v.elts)
    if isinstance(v, ast.Call) and isinstance(v.func, ast.Name) and v.func.id in ("frozenset", "tuple") and not v.keywords \
            and all(isinstance(a, (ast.Tuple, ast.List, ast.Set)) and all(_frozen_table(x, False) for x in a.elts) for a in v.args):
        return True
    return False


def _class_constant(mod, ci, attr):
    """is `attr` of class `ci` bound once, in the class body, to a value that cannot change, and stored to nowhere in the module?"""
    vals = [st.value for st in ci.node.body
            if (isinstance(st, ast.Assign) and any(isinstance(t, ast.Name) and t.id == attr for t in st.targets))
            or (isinstance(st, ast.AnnAssign) and isinstance(st.target, ast.Name) and st.target.id == attr and st.value is not None)]
    if len(vals) != 1 or not _frozen_table(vals[0]):
        return False
    return not any(isinstance(n, ast.Attribute) and n.attr == attr and isinstance(n.ctx, (ast.Store, ast.Del)) for n in ast.walk(mod.tree)) \
        and not any(isinstance(n, ast.Call) and isinstance(n.func, ast.Name) and n.func.id in ("setattr", "delattr") for n in ast.walk(mod.tree))


def _class_param(fi):
    """the name under which a classmethod receives its class (None for any other function)"""
    node = getattr(fi, "node", None)
    if node is None or getattr(fi, "cls", None) is None or not getattr(node, "decorator_list", None):
        return None
    if any(A.dotted(d) in ("classmethod", "builtins.classmethod") for d in node.decorator_list):
        ps = [a.arg for a in list(getattr(node.args, "posonlyargs", [])) + list(node.args.args)]
        return ps[0] if ps else None
    return None


_TABLE_WRITERS = ("append", "add", "update", "extend", "insert", "setdefault", "pop", "clear", "popitem", "remove", "discard", "__setitem__", "__delitem__", "appendleft")


def never_rebound_display(mod, name, v):
    """is `name` (a module-level or class-level name of module `mod`, bound to `v`) a table of the program itself: bound once
    to a display (or a dict / frozenset / tuple / MappingProxyType made from one), and nothing in the module stores into it,
    changes it in place or binds the name again?"""
    v = strip_cast(v)
    while isinstance(v, ast.Call) and A.call_attr(v) in ("dict", "frozenset", "tuple", "MappingProxyType", "OrderedDict") and len(v.args) == 1 and not v.keywords:
        v = strip_cast(v.args[0])
    if not isinstance(v, (ast.Dict, ast.Set, ast.Tuple, ast.List)) and not (isinstance(v, ast.Call) and A.call_attr(v) in ("dict", "frozenset") and not v.args):
        return False
    n_bind = 0
    for n in ast.walk(mod.tree):
        if isinstance(n, ast.Global) and name in n.names:
            return False
        if isinstance(n, (ast.Name, ast.Attribute)) and (n.id if isinstance(n, ast.Name) else n.attr) == name and isinstance(n.ctx, (ast.Store, ast.Del)):
            n_bind += 1
        elif isinstance(n, ast.Subscript) and isinstance(n.ctx, (ast.Store, ast.Del)) and isinstance(n.value, (ast.Name, ast.Attribute)) \
                and (n.value.id if isinstance(n.value, ast.Name) else n.value.attr) == name:
            return False
        elif isinstance(n, ast.Call) and isinstance(n.func, ast.Attribute) and n.func.attr in _TABLE_WRITERS and isinstance(n.func.value, (ast.Name, ast.Attribute)) \
                and (n.func.value.id if isinstance(n.func.value, ast.Name) else n.func.value.attr) == name:
            return False
        elif isinstance(n, ast.Call) and isinstance(n.func, ast.Name) and n.func.id in ("setattr", "delattr") and len(n.args) >= 2 and A.const_str(n.args[1]) in (name, None):
            return False
    if n_bind != 1:
        return False
    # every use of the name only looks into the table: an alias, an argument of a call, a returned reference could be
    # written through somewhere this does not see
    def is_it(x):
        return isinstance(x, (ast.Name, ast.Attribute)) and (x.id if isinstance(x, ast.Name) else x.attr) == name and isinstance(x.ctx, ast.Load)

    readers = ("get", "items", "keys", "values", "__contains__", "__getitem__", "__len__", "__iter__", "copy", "index", "count")
    for par in ast.walk(mod.tree):
        for ch in ast.iter_child_nodes(par):
            if not is_it(ch):
                continue
            ok = (isinstance(par, ast.Subscript) and par.value is ch and isinstance(par.ctx, ast.Load)) \
                or (isinstance(par, ast.Attribute) and par.value is ch and par.attr in readers) \
                or (isinstance(par, ast.Compare) and ch in par.comparators and all(isinstance(o, (ast.In, ast.NotIn)) for o in par.ops)) \
                or (isinstance(par, (ast.For, ast.comprehension)) and par.iter is ch) \
                or (isinstance(par, ast.Call) and isinstance(par.func, ast.Name) and par.func.id in ("len", "isinstance", "sorted", "dict", "list", "tuple", "set", "frozenset", "bool", "iter", "enumerate", "any", "all")
                    and ch in par.args) \
                or (isinstance(par, ast.Starred) and par.value is ch) \
                or (isinstance(par, ast.Dict) and ch in par.values and par.keys[par.values.index(ch)] is None)
            if not ok:
                return False
    return True


def _kept_default(fi, name):
    """is `name` a parameter of `fi` whose default value is a mutable object (made once, when the function is defined) that
    the function itself changes in place - what one call leaves in it, the next call finds"""
    a = fi.node.args
    pos = list(getattr(a, "posonlyargs", [])) + list(a.args)
    pairs = list(zip(pos[len(pos) - len(a.defaults):], a.defaults)) + [(p_, d_) for (p_, d_) in zip(a.kwonlyargs, a.kw_defaults) if d_ is not None]
    dflt = next((d_ for (p_, d_) in pairs if p_.arg == name), None)
    if dflt is None or _frozen_table(dflt):
        return False
    for n in ast.walk(fi.node):
        if isinstance(n, ast.Subscript) and isinstance(n.ctx, (ast.Store, ast.Del)) and isinstance(n.value, ast.Name) and n.value.id == name:
            return True
        if isinstance(n, ast.Attribute) and isinstance(n.ctx, (ast.Store, ast.Del)) and isinstance(n.value, ast.Name) and n.value.id == name:
            return True
        if isinstance(n, ast.Call) and isinstance(n.func, ast.Attribute) and isinstance(n.func.value, ast.Name) and n.func.value.id == name \
                and n.func.attr in ("append", "add", "update", "extend", "insert", "setdefault", "pop", "clear", "popitem", "remove", "discard", "__setitem__", "appendleft"):
            return True
        if isinstance(n, ast.AugAssign) and isinstance(n.target, ast.Name) and n.target.id == name:
            return True
    return False


def outliving_state_reads(fa, expr, at, _depth=2, _seen=()):
    """What the value of `expr` (at CFG node `at`) is read from that outlives the call and can be rebound or
    changed by another one: names the function declares global / nonlocal and reads before it has assigned them,
    module-level variables that some function rebinds or that hold a mutable object, attributes of a class
    (through its name, `type(x)` or `x.__class__`), and — through the calls the value is computed by, as far as the
    call graph resolves them to one function of the repository — the results a callee keeps from earlier calls
    (a result-keeping decorator) or reads from such state itself.  Module-level functions, classes, imports and
    constants that are never rebound are not state.  Returns the sorted list of such names."""
    mod = fa.fi.module
    declared = set()
    for n in ast.walk(fa.node):
        if isinstance(n, (ast.Global, ast.Nonlocal)):
            declared |= set(n.names)
    rebound = set()
    for n in ast.walk(mod.tree):
        if isinstance(n, ast.Global):
            rebound |= set(n.names)
    out = set()
    atoms = fa.deps(expr, at)
    for a in atoms:
        kind, _, name = a.partition(":")
        if kind == "local" and name in declared:
            out.add(name)
        elif kind == "param" and _kept_default(fa.fi, name):
            out.add("the default value of the parameter `%s` of %s (made once, changed by the calls)" % (name, fa.fi.qual))
        elif kind == "global":
            if name in mod.functions or name in mod.classes or name in mod.imports:
                continue
            if name in declared or name in rebound:
                out.add(name)
            elif name in mod.assigns and not _frozen_table(mod.assigns[name]) and not never_rebound_display(mod, name, mod.assigns[name]):
                out.add(name)
        elif kind == "attr":
            parts = name.split(".")
            if "__class__" in parts[1:]:
                out.add(name)
            elif parts[0] in mod.classes and len(parts) > 1:
                ci = mod.classes[parts[0]]
                if parts[1] not in ci.methods and parts[1] not in getattr(ci, "nested", {}) and not _class_constant(mod, ci, parts[1]):
                    out.add(name)
            elif len(parts) > 1 and parts[0] == _class_param(fa.fi) and getattr(fa.fi, "cls", None) is not None:
                # the class itself, as a classmethod receives it: what it holds is shared by every call
                ci = fa.fi.cls
                if parts[1] not in ci.methods and parts[1] not in getattr(ci, "nested", {}) and not _class_constant(mod, ci, parts[1]) \
                        and not (parts[1].startswith("__") and parts[1].endswith("__")):
                    out.add("%s.%s" % (ci.name, ".".join(parts[1:])))
    # an attribute read off the class of an object: type(x).attr
    try:
        full = fexpand(fa, expr, at)
    except (AnalysisError, RecursionError):
        full = expr
    for n in ast.walk(full):
        if isinstance(n, ast.Attribute) and isinstance(n.value, ast.Call) and isinstance(n.value.func, ast.Name) and n.value.func.id == "type" \
                and len(n.value.args) == 1 and not (n.attr.startswith("__") and n.attr.endswith("__")):
            out.add("type(...)." + n.attr)
    # what the callees keep between calls
    called = [n for n in ast.walk(full) if isinstance(n, ast.Call)]
    for a in sorted(atoms):
        # calls on any of the definitions the value can come from (a local assigned on several branches is not
        # expanded above, the dependency closure follows all of them)
        if a.startswith("callq:"):
            try:
                called.append(ast.Call(func=ast.parse(a[len("callq:"):], mode="eval").body, args=[], keywords=[]))
            except SyntaxError:
                pass
    for n in called:
        if _depth <= 0:
            continue
        try:
            cands, _how = fa.ck.cg.resolve(n, fa.fi)
        except (AnalysisError, RecursionError, AttributeError, KeyError):
            continue
        if len(cands) != 1 or cands[0].node is fa.fi.node or cands[0].qual in _seen:
            continue
        cal = cands[0]
        if cal.parent is not None and (cal.parent.node is fa.fi.node or cal.parent.qual == fa.fi.qual):
            continue    # a function defined inside this one is made anew by every call: what it keeps ends with the call
        kept = keeps_results(cal)
        if kept is not None:
            out.add("the results %s keeps between calls (@%s)" % (cal.qual, kept))
            continue
        try:
            cfa = FA(fa.ck, cal)
            for r in cfa.returns():
                if r.value is None or not cfa.nodes(r):
                    continue
                for nm in outliving_state_reads(cfa, r.value, cfa.nodes(r)[0], _depth - 1, _seen + (fa.fi.qual, cal.qual)):
                    out.add(nm if " keeps between calls" in nm else "%s, read by %s" % (nm, cal.qual))
        except (AnalysisError, RecursionError):
            continue
    return sorted(out)


def own_argument_field(fl, field, param):
    """Decides, on the flattened constructor, that what self.<field> holds when the constructor returns is made
    from THIS construction's argument `param` and from nothing that outlives the construction:
      * every definition that creates the final value is either an empty container, made only on paths on which
        the argument is empty, or is computed (normalised) from the argument;
      * no such value is read from state shared between constructions (outliving_state_reads);
      * the object is not changed in place afterwards.
    Returns (ok, message, statement to point at)."""
    fa = fl.fa
    if param not in fa.fi.params:
        return False, "the constructor has no parameter %r any more" % param, None
    attr = ast.parse("self." + field, mode="eval").body
    defs = origins(fa, attr, fl.exit)
    if not defs:
        return False, "no assignment of self.%s reaches the end of the constructor" % field, None
    made, empties = 0, []
    for d in defs:
        if d.value is None:
            return False, "self.%s is not assigned a value" % field, d.stmt
        v = strip_cast(d.value)
        shared = outliving_state_reads(fa, v, d.node)
        if shared:
            return False, ("self.%s is read from state that outlives this construction (%s): another construction, or another thread "
                           "between the writes, gets the context args of a different call, which is then keyed, stored and served under them"
                           % (field, ", ".join(shared))), d.stmt
        if is_empty_value(fa.xnorm(v, d.node)):
            empties.append(d)
            continue
        dp = fa.deps(v, d.node)
        if ("param:" + param) not in dp:
            return False, "self.%s is not computed from the %s given to this construction" % (field, param), d.stmt
        made += 1
    if not made:
        return False, "self.%s never holds the %s given to this construction" % (field, param), defs[0].stmt
    # it is empty only when the argument is: read off what the field finally holds per class of paths
    try:
        oc = fa.outcomes("self." + field)
    except RecursionError:
        oc = None
    if oc is not None:
        for (conj, txt) in oc:
            if (is_empty_value(txt) or txt == "<unassigned>") and feasible_with(conj, {param}, {"a": 1}):
                return False, "self.%s is left empty on a path on which %s were given" % (field, param), (empties[0].stmt if empties else None)
    else:
        for d in empties:
            if any(feasible_with(c, {param}, {"a": 1}) for c in case_conds(fa, d)):
                return False, "self.%s is left empty on a path on which %s were given" % (field, param), d.stmt
    # the object stays what it was made as
    for s in fa.stmts((ast.Assign, ast.AugAssign, ast.Expr, ast.Delete)):
        ids = fa.nodes(s)
        if not ids:
            continue
        tg = []
        if isinstance(s, (ast.Assign, ast.Delete)):
            tg = [t.value for t in s.targets if isinstance(t, ast.Subscript)]
        elif isinstance(s, ast.AugAssign):
            tg = [s.target.value] if isinstance(s.target, ast.Subscript) else ([s.target] if isinstance(s.op, ast.BitOr) else [])
        elif isinstance(s.value, ast.Call) and A.call_attr(s.value) in ("update", "setdefault", "pop", "clear", "popitem", "__setitem__", "__delitem__") \
                and A.call_recv(s.value) is not None:
            tg = [A.call_recv(s.value)]
        for t in tg:
            if _ref_name(strip_cast(t)) is not None and any(same_def(o, d) for o in (origins(fa, t, ids[0]) or []) for d in defs):
                return False, "the mapping self.%s holds is changed in place after it was made from %s" % (field, param), s
    return True, "", None


def sibling_reference_sites(ck, rule):
    """C16.R5 / C02.R5: every reference-with-arguments built in base.py whose arg_hash reaches a
    storage or runner call passes the function's own context args."""
    mod = ck.repo.module("base")
    cls = mod.classes.get("MementoFunctionBase")
    ck.need(cls is not None, "base.MementoFunctionBase not found")
    n_sites = 0
    methods = list(cls.methods.items())
    # private helpers of the class that the front end took out of the tables although a call it could not write out
    # (inside a comprehension) remains: the construction they contain is still a site
    for fi in getattr(getattr(ck.repo, "inliner", None), "new", None) or []:
        if fi.qual.startswith(cls.qual + ".") and fi.name not in cls.methods and fi.parent is None \
                and any(isinstance(n, ast.Call) and A.call_attr(n) == fi.name for mm in cls.methods.values() for n in A.walk_body(mm.node)):
            methods.append((fi.name, fi))
    for name, m in methods:
        fa = FA(ck, m)
        ctors = [c for c in fa.calls("FunctionReferenceWithArguments")] + [c for c in fa.calls("with_args")]
        for c in ctors:
            # exempt by def-use: the value is only used for .effective_kwargs
            par = fa.pm.get(c)
            only_kwargs = isinstance(par, ast.Attribute) and par.attr == "effective_kwargs"
            if not only_kwargs and isinstance(par, ast.Assign) and par.value is c and len(par.targets) == 1 and isinstance(par.targets[0], ast.Name):
                # bound to a local of which only key-free parts are read (it is never passed on, no hash is taken from it)
                nm = par.targets[0].id
                uses = [n for n in A.walk_body(fa.node) if isinstance(n, ast.Name) and n.id == nm and isinstance(n.ctx, ast.Load)]
                defs = [n for n in A.walk_body(fa.node) if isinstance(n, ast.Name) and n.id == nm and not isinstance(n.ctx, ast.Load)]
                only_kwargs = bool(uses) and len(defs) == 1 and any(isinstance(fa.pm.get(u), ast.Attribute) and fa.pm.get(u).attr == "effective_kwargs" for u in uses) \
                    and all(isinstance(fa.pm.get(u), ast.Attribute) and fa.pm.get(u).attr in ("effective_kwargs", "args", "kwargs", "fn_reference") for u in uses)
            if only_kwargs:
                ck.note(rule, fa.key(c, "exempt"), "reference used only for effective_kwargs (no key is derived from it)")
                continue
            n_sites += 1
            ca = A.kwarg(c, "context_args") or A.kwarg(c, RESERVED)
            if ca is None and A.call_attr(c) == "FunctionReferenceWithArguments" and len(c.args) > 3:
                ca = c.args[3]
            if ca is None and fa.nodes(c):
                # handed over inside a spread mapping: with_args(*args, **{**kwargs, KEY: context_args})
                for k in c.keywords:
                    if k.arg is None:
                        try:
                            sh = map_shape(fa.expand(k.value, fa.nodes(c)[0]))
                        except AnalysisError:
                            sh = None
                        for (kk, vv) in (sh[1] if sh is not None else []):
                            if kk in (RESERVED, "context_args"):
                                ca = vv
            ok = False
            if ca is not None:
                ids = fa.nodes(c)
                txt = fa.xnorm(ca, ids[0]) if ids else A.norm(ca)
                ok = txt == "self.context.recursive.context_args"
            ck.ob(rule, fa.key(c, "context-args"), ok, "the reference carries the function's own context args" if ok else
                  "%s builds its call reference without the function's context args: it addresses a different stored entry than call() does" % name,
                  fa.where(c))
    ck.need(n_sites >= 6, "base.py: expected at least 6 keyed reference constructions, found %d" % n_sites)


# ------------------------------------------------------------------------------------------------
def _lit_truth(e, pol, yes, no):
    """Three-valued reading of a literal against two atom predicates: does (e, pol) establish `yes`
    (returns True), or is it unrelated (False)?  `not (a and b)` establishes X when falsifying either
    operand does; `a or b` taken true likewise; `a and b` taken true / `not (a or b)` when one operand does."""
    if isinstance(e, ast.UnaryOp) and isinstance(e.op, ast.Not):
        return _lit_truth(e.operand, not pol, yes, no)
    if isinstance(e, ast.BoolOp):
        every = (isinstance(e.op, ast.And) and not pol) or (isinstance(e.op, ast.Or) and pol)
        parts = [_lit_truth(v, pol, yes, no) for v in e.values]
        return all(parts) if every else any(parts)
    e2, pol2 = lit_expr(A.norm(e), pol)
    if e2 is None:
        return False
    return yes(A.norm(e2), pol2)


def _not_prevented(t, p):
    return (t == FRAME + ".recursive_context.prevent_further_calls" and not p) or (t == FRAME and not p) or (t == FRAME + " is None" and p)


def _prevented(t, p):
    return t == FRAME + ".recursive_context.prevent_further_calls" and p


def _all_unprevented(cs):
    return bool(cs) and all(any(_lit_truth(lit_expr(t, p)[0], lit_expr(t, p)[1], _not_prevented, None) for (t, p) in conj if lit_expr(t, p)[0] is not None) for conj in cs)


_UNKNOWN, _RAISES = object(), object()


class _Rec:
    """a model object: the attributes the rule knows about; anything else about it is unknown"""
    def __init__(self, **kw):
        self.attrs = kw


def _frame_models():
    return {"none": None,
            "free": _Rec(recursive_context=_Rec(prevent_further_calls=False)),
            "prevented": _Rec(recursive_context=_Rec(prevent_further_calls=True))}


def _eval_on_frame(e, frame):
    """Three-valued reading of a guard expression for a given calling frame (None / a frame that allows further
    calls / one that prevents them): a value, _UNKNOWN (the expression is about something else), or _RAISES (it
    cannot be evaluated for this frame: attribute of None).  The sub-expression that denotes the calling frame is
    recognised by its expansion (`FRAME`)."""
    if A.norm(e) == FRAME:
        return frame
    if isinstance(e, ast.Constant):
        return e.value
    if isinstance(e, ast.Attribute):
        b = _eval_on_frame(e.value, frame)
        if b is _UNKNOWN or b is _RAISES:
            return b
        if b is None:
            return _RAISES
        if isinstance(b, _Rec):
            return b.attrs.get(e.attr, _UNKNOWN)
        return _UNKNOWN
    if isinstance(e, ast.UnaryOp) and isinstance(e.op, ast.Not):
        v = _eval_on_frame(e.operand, frame)
        return v if v is _UNKNOWN or v is _RAISES else (not v)
    if isinstance(e, ast.BoolOp):
        is_and = isinstance(e.op, ast.And)
        unknown = False
        last = is_and
        for x in e.values:
            v = _eval_on_frame(x, frame)
            if v is _RAISES:
                return _UNKNOWN if unknown else _RAISES
            if v is _UNKNOWN:
                unknown = True
                continue
            last = v
            if bool(v) != is_and:
                return v        # decides the whole expression (an unknown operand before it could only have done the same)
        return _UNKNOWN if unknown else last
    if isinstance(e, ast.IfExp):
        t = _eval_on_frame(e.test, frame)
        if t is _UNKNOWN or t is _RAISES:
            return t
        return _eval_on_frame(e.body if t else e.orelse, frame)
    if isinstance(e, ast.Call) and isinstance(e.func, ast.Name) and e.func.id == "bool" and len(e.args) == 1 and not e.keywords:
        v = _eval_on_frame(e.args[0], frame)
        return v if v is _UNKNOWN or v is _RAISES else bool(v)
    if isinstance(e, ast.Compare) and len(e.ops) == 1 and isinstance(e.ops[0], (ast.Is, ast.IsNot, ast.Eq, ast.NotEq)):
        l, r = _eval_on_frame(e.left, frame), _eval_on_frame(e.comparators[0], frame)
        if l is _RAISES or r is _RAISES:
            return _RAISES
        if l is _UNKNOWN or r is _UNKNOWN:
            return _UNKNOWN
        same = (l is r) if isinstance(e.ops[0], (ast.Is, ast.IsNot)) or isinstance(l, _Rec) or isinstance(r, _Rec) else (l == r)
        return same if isinstance(e.ops[0], (ast.Is, ast.Eq)) else not same
    return _UNKNOWN


def parse_literal(t):
    """The expression a path-condition literal stands for.  FA renders a comparison as '<left> <op> <right>' from the
    expanded operands without parentheses, so a left operand that is a conditional expression (a local defined by
    `a if c else b` and then compared) comes back from the parser as `a if c else (b <op> right)`; the comparison
    is put back around the conditional expression."""
    try:
        e = ast.parse(t, mode="eval").body
    except SyntaxError:
        return None
    if isinstance(e, ast.IfExp) and isinstance(e.orelse, ast.Compare) and len(e.orelse.ops) == 1 and not isinstance(e.orelse.left, ast.IfExp):
        c = e.orelse
        return ast.fix_missing_locations(ast.Compare(left=ast.IfExp(test=e.test, body=e.body, orelse=c.left), ops=c.ops, comparators=c.comparators))
    return e


class _Tok:
    """an opaque value: equal to itself, nothing else is known about it (it may be None, empty, anything)"""
    def __init__(self, name):
        self.name = name


class _CtxVal:
    """an InvocationContext: the recursive fields that were set on it through update_recursive (the others are
    whatever the context the function received holds: one opaque value per field)"""
    _base = {}

    def __init__(self, over):
        self.over = dict(over)

    def recursive(self):
        r = _Rec(**self.over)
        r.default = lambda a: _CtxVal._base.setdefault(a, _Tok("context.recursive." + a))
        return r


_CS = _Tok("CallStack.get()")
INHERITED_CA = _Tok("the calling frame's context args")


def _model_frames():
    """the calling frame there may be: none, one that allows further calls, one that prevents them (its memento may
    or may not be there yet)"""
    return {"none": None,
            "free": _Rec(recursive_context=_Rec(prevent_further_calls=False, context_args=INHERITED_CA)),
            "prevented": _Rec(recursive_context=_Rec(prevent_further_calls=True, context_args=INHERITED_CA))}


class _Opaque:
    """a value of which only the truth is known"""
    def __init__(self, truth):
        self.truth = bool(truth)


def _truth(v):
    if v is _UNKNOWN or v is _RAISES:
        return v
    if isinstance(v, _Opaque):
        return v.truth
    if isinstance(v, _Tok):
        return _UNKNOWN
    if isinstance(v, (_Rec, _CtxVal)):
        return True
    try:
        return bool(v)
    except Exception:
        return _UNKNOWN


def _mev(e, env, frame):
    """Value of expression `e` for a given calling frame, with the locals bound so far in `env`: a model value, _UNKNOWN
    (nothing is known: every continuation stays possible) or _RAISES (attribute of None)."""
    if isinstance(e, ast.Constant):
        return e.value
    if isinstance(e, ast.NamedExpr):
        return _mev(e.value, env, frame)
    if isinstance(e, ast.Name):
        return env.get(e.id, _UNKNOWN)
    if isinstance(e, ast.Attribute):
        b = _mev(e.value, env, frame)
        if b is _UNKNOWN or b is _RAISES:
            return b
        if b is None:
            return _RAISES
        if isinstance(b, _CtxVal):
            return b.recursive() if e.attr == "recursive" else _UNKNOWN
        if isinstance(b, _Rec):
            if e.attr in b.attrs:
                return b.attrs[e.attr]
            d = getattr(b, "default", None)
            return d(e.attr) if d is not None else _UNKNOWN
        return _UNKNOWN
    if isinstance(e, ast.Call):
        f = e.func
        if isinstance(f, ast.Name) and f.id == "cast" and len(e.args) == 2 and not e.keywords:
            return _mev(e.args[1], env, frame)
        if isinstance(f, ast.Name) and f.id == "bool" and len(e.args) == 1 and not e.keywords:
            return _truth(_mev(e.args[0], env, frame))
        if isinstance(f, ast.Attribute):
            if f.attr == "get" and isinstance(f.value, ast.Name) and f.value.id == "CallStack" and not e.args and not e.keywords:
                return _CS
            r = _mev(f.value, env, frame)
            if r is _RAISES:
                return _RAISES
            if f.attr == "get_calling_frame" and r is _CS and not e.args and not e.keywords:
                return frame
            if isinstance(r, _CtxVal) and f.attr in ("update_recursive", "update_local"):
                if f.attr == "update_local":
                    return r
                k = A.const_str(A.arg_or_kw(e, 0, "key"))
                v = A.arg_or_kw(e, 1, "value")
                if k is None or v is None:
                    return _UNKNOWN
                val = _mev(v, env, frame)
                if val is _RAISES:
                    return _RAISES
                return _CtxVal(dict(r.over, **{k: val}))
        return _UNKNOWN
    if isinstance(e, ast.UnaryOp) and isinstance(e.op, ast.Not):
        t = _truth(_mev(e.operand, env, frame))
        return t if t is _UNKNOWN or t is _RAISES else (not t)
    if isinstance(e, ast.BoolOp):
        is_and = isinstance(e.op, ast.And)
        unknown = False
        last = is_and
        for x in e.values:
            v = _mev(x, env, frame)
            if v is _RAISES:
                return _UNKNOWN if unknown else _RAISES
            t = _truth(v)
            if t is _UNKNOWN:
                unknown = True
                continue
            last = v
            if t != is_and:
                # decided here; an operand before it whose truth is not known may have decided first, the same way:
                # only the truth of the result is known then
                return _Opaque(t) if unknown else v
        return _UNKNOWN if unknown else last
    if isinstance(e, ast.IfExp):
        t = _truth(_mev(e.test, env, frame))
        if t is _RAISES:
            return _RAISES
        if t is _UNKNOWN:
            a, b = _mev(e.body, env, frame), _mev(e.orelse, env, frame)
            return a if a is b and a is not _RAISES else _UNKNOWN
        return _mev(e.body if t else e.orelse, env, frame)
    if isinstance(e, ast.Compare) and len(e.ops) == 1 and isinstance(e.ops[0], (ast.Is, ast.IsNot, ast.Eq, ast.NotEq)):
        l, r = _mev(e.left, env, frame), _mev(e.comparators[0], env, frame)
        if l is _RAISES or r is _RAISES:
            return _RAISES
        if l is _UNKNOWN or r is _UNKNOWN:
            return _UNKNOWN
        if isinstance(l, _Opaque) or isinstance(r, _Opaque):
            o, other = (l, r) if isinstance(l, _Opaque) else (r, l)
            if not (o.truth and other is None):
                return _UNKNOWN
            same = False    # something truthy is not None
        elif isinstance(l, _Tok) or isinstance(r, _Tok):
            if l is not r:
                tok, other = (l, r) if isinstance(l, _Tok) else (r, l)
                fact = env.get("?none:" + tok.name) if other is None else None
                if fact is None:
                    return _UNKNOWN
                same = fact     # the path has already taken a test of this very value against None one way
            else:
                same = True
        elif isinstance(e.ops[0], (ast.Is, ast.IsNot)) or isinstance(l, (_Rec, _CtxVal)) or isinstance(r, (_Rec, _CtxVal)):
            same = l is r
        else:
            same = l == r
        return same if isinstance(e.ops[0], (ast.Is, ast.Eq)) else not same
    return _UNKNOWN


def _vkey(v):
    if isinstance(v, _CtxVal):
        return ("ctx",) + tuple(sorted((k, _vkey(x)) for k, x in v.over.items()))
    if v is None or isinstance(v, (bool, int, str, float)):
        return ("c", repr(v))
    if isinstance(v, _Opaque):
        return ("t", v.truth)
    return ("o", id(v))


class ModelRun:
    """The function walked for one kind of calling frame: every path of its CFG on which the branch tests can come out
    the way the path takes them, with the locals the path has bound (values of the model; anything else unknown, and
    an unknown test leaves both branches open).  `envs[n]` lists the bindings with which CFG node n is entered."""

    def __init__(self, fa, frame, ctx_param, cap=20000, seed=None):
        self.fa, self.frame = fa, frame
        cfg = fa.cfg
        self.envs = {}
        seen = set()
        work = [(cfg.entry, dict(seed or {}, **{ctx_param: _CtxVal({})}))]
        while work:
            n, env = work.pop()
            key = (n, tuple(sorted((k, _vkey(v)) for k, v in env.items())))
            if key in seen:
                continue
            seen.add(key)
            if len(seen) > cap:
                raise AnalysisError("%s: too many cases when the function is read for each kind of calling frame" % fa.qual)
            self.envs.setdefault(n, []).append(env)
            nd = cfg.node(n)
            raised, t = False, _UNKNOWN
            a = nd.ast
            if nd.kind == "test":
                t = _truth(_mev(a, env, frame))
            elif a is not None:
                binds = {}
                if nd.kind == "stmt" and isinstance(a, (ast.Assign, ast.AnnAssign)) and getattr(a, "value", None) is not None:
                    tgs = a.targets if isinstance(a, ast.Assign) else [a.target]
                    for tg in tgs:
                        if isinstance(tg, ast.Name):
                            binds[tg.id] = _mev(a.value, env, frame)
                        elif isinstance(tg, (ast.Tuple, ast.List)) and isinstance(a.value, (ast.Tuple, ast.List)) and len(tg.elts) == len(a.value.elts) \
                                and all(isinstance(x, ast.Name) for x in tg.elts):
                            for x, v in zip(tg.elts, a.value.elts):
                                binds[x.id] = _mev(v, env, frame)
                    if any(v is _RAISES for v in binds.values()):
                        raised = True
                        binds = {}
                own = [a] if nd.kind == "stmt" and not isinstance(a, (ast.FunctionDef, ast.AsyncFunctionDef, ast.ClassDef)) else \
                    ([a.target] if nd.kind == "for" else ([i.optional_vars for i in a.items if i.optional_vars is not None] if nd.kind == "with" else []))
                for o in own:
                    for x in ast.walk(o):
                        if isinstance(x, ast.Name) and isinstance(x.ctx, (ast.Store, ast.Del)) and x.id not in binds:
                            binds[x.id] = _UNKNOWN
                if nd.kind == "except" and getattr(a, "name", None):
                    binds[a.name] = _UNKNOWN
                if isinstance(a, (ast.FunctionDef, ast.AsyncFunctionDef, ast.ClassDef)) and nd.kind == "stmt":
                    binds[a.name] = _UNKNOWN
                if binds:
                    env = dict(env)
                    for k, v in binds.items():
                        if v is _UNKNOWN:
                            env.pop(k, None)
                        else:
                            env[k] = v
            asked = self._none_test(a, env) if nd.kind == "test" and t is _UNKNOWN and not isinstance(fa.pm.get(a), ast.While) else None
            for (d, l) in cfg.succ[n]:
                if raised and l != "exc":
                    continue
                if nd.kind == "test" and not isinstance(fa.pm.get(a), ast.While):
                    if t is _RAISES and l != "exc":
                        continue
                    if t is True and l == "F":
                        continue
                    if t is False and l == "T":
                        continue
                if asked is not None and l in ("T", "F"):
                    # an opaque value tested against None: each branch remembers which way it went, so that a second test
                    # of the same value further down agrees with the first
                    env2 = dict(env)
                    env2["?none:" + asked[0].name] = asked[1] if l == "T" else not asked[1]
                    work.append((d, env2))
                    continue
                work.append((d, env))

    def _none_test(self, e, env):
        """(opaque value, is-None when the test holds) for a test `X is None` / `X is not None` (== / != alike, `not`
        around it) on a value of which nothing is known yet; else None"""
        pol = True
        while isinstance(e, ast.UnaryOp) and isinstance(e.op, ast.Not):
            e, pol = e.operand, not pol
        if isinstance(e, ast.Compare) and len(e.ops) == 1 and isinstance(e.ops[0], (ast.Is, ast.IsNot, ast.Eq, ast.NotEq)):
            l, r = _mev(e.left, env, self.frame), _mev(e.comparators[0], env, self.frame)
            tok, other = (l, r) if isinstance(l, _Tok) else (r, l)
            if isinstance(tok, _Tok) and other is None and tok is not INHERITED_CA and ("?none:" + tok.name) not in env:
                return (tok, pol == isinstance(e.ops[0], (ast.Is, ast.Eq)))
        return None

    def reached(self, nodes):
        return any(n in self.envs for n in nodes)

    def values(self, expr, node):
        """the values `expr` can have when CFG node `node` is entered (one per case)"""
        return [_mev(expr, env, self.frame) for env in self.envs.get(node, [])]


def _feasible_for(conj, frame):
    """can a path with these branch literals be taken when the calling frame is `frame`?"""
    for (t, p) in conj:
        e = parse_literal(t)
        if e is None:
            continue
        v = _eval_on_frame(e, frame)
        if v is _RAISES:
            return False
        if v is not _UNKNOWN and bool(v) != p:
            return False
    return True


def _default_or(fa, e, at, param, default):
    """is `e` "the parameter if it was given, else the default" (`p or d`, `p if p else d`, `d if p is None else p`, ...)"""
    x = strip_cast(fa.expand(e, at))
    if isinstance(x, ast.BoolOp) and isinstance(x.op, ast.Or) and [A.norm(v) for v in x.values] == [param, default]:
        return True
    if isinstance(x, ast.IfExp):
        t, pol = lit_expr(A.norm(x.test), True)
        if t is None:
            return False
        tt = A.norm(t)
        b, o = A.norm(x.body), A.norm(x.orelse)
        if (tt == param and pol) or (tt == param + " is None" and not pol):
            return (b, o) == (param, default)
        if (tt == param and not pol) or (tt == param + " is None" and pol):
            return (b, o) == (default, param)
        return False
    if isinstance(e, ast.Name):
        ds = fa.df.reaching(at, e.id)
        pd = [d for d in ds if d.kind == "param"]
        ad = [d for d in ds if d.kind == "assign"]
        if len(pd) == 1 and len(ad) == 1 and len(ds) == 2 and e.id == param and A.norm(ad[0].value) == default:
            cs = conds(fa, ad[0].node)
            return cs in ({frozenset({(param + " is None", True)})}, {frozenset({(param, False)})})
    return False


def _bind_pattern(target, value, out):
    """bind the names of an unpacking target to the parts of a display: `name, (a, b)` against `'k', (x, 'y')`"""
    if isinstance(target, ast.Name):
        out[target.id] = value
        return True
    if isinstance(target, (ast.Tuple, ast.List)) and isinstance(value, (ast.Tuple, ast.List)) and len(target.elts) == len(value.elts) \
            and not any(isinstance(x, ast.Starred) for x in list(target.elts) + list(value.elts)):
        return all(_bind_pattern(t, v, out) for t, v in zip(target.elts, value.elts))
    return False


def spread_entries(fa, e, at):
    """{constant key: value expression} of a mapping that is spread into a call (`**m`), when it can be written out: a
    display / dict(k=v) with constant keys, or a dict comprehension over the items of such a display (a table of the
    arguments), each entry written out with the table row substituted and `getattr(x, 'name')` read as `x.name`.
    None when it cannot."""
    try:
        x = strip_cast(fa.expand(e, at))
    except AnalysisError:
        x = strip_cast(e)
    sh = map_shape(x) if not isinstance(x, ast.DictComp) else None
    if sh is not None and sh[0] is None and not sh[2]:
        return dict(sh[1])
    if not (isinstance(x, ast.DictComp) and len(x.generators) == 1 and not x.generators[0].ifs):
        return None
    g = x.generators[0]
    it = strip_cast(g.iter)
    rows = None
    if isinstance(it, ast.Call) and A.call_attr(it) == "items" and not it.args and isinstance(strip_cast(A.call_recv(it)), ast.Dict):
        tb = strip_cast(A.call_recv(it))
        if all(k is not None for k in tb.keys):
            rows = [ast.Tuple(elts=[k, v], ctx=ast.Load()) for k, v in zip(tb.keys, tb.values)]
    elif isinstance(it, (ast.Tuple, ast.List)):
        rows = list(it.elts)
    if rows is None:
        return None
    out = {}
    for row in rows:
        env = {}
        if not _bind_pattern(g.target, row, env):
            return None

        class T(ast.NodeTransformer):
            def visit_Name(self, n):
                return copy.deepcopy(env[n.id]) if isinstance(n.ctx, ast.Load) and n.id in env else n

            def visit_Call(self, n):
                self.generic_visit(n)
                if isinstance(n.func, ast.Name) and n.func.id == "getattr" and len(n.args) == 2 and not n.keywords and A.const_str(n.args[1]) \
                        and A.const_str(n.args[1]).isidentifier():
                    return ast.Attribute(value=n.args[0], attr=A.const_str(n.args[1]), ctx=ast.Load())
                return n

        k = A.const_str(T().visit(copy.deepcopy(x.key)))
        if k is None or k in out:
            return None
        out[k] = ast.fix_missing_locations(T().visit(copy.deepcopy(x.value)))
    return out


class _Arm:
    """one case of a definition that creates a mapping by pouring a local mapping in (`{**base, **extra}` where `extra` was
    made, case by case, as a display): the definition as it reads in that case"""
    def __init__(self, d, value, cases, at):
        self.node, self.name, self.kind, self.stmt = d.node, d.name, d.kind, d.stmt
        self.value, self.cases, self.at = value, cases, at


def _merge_arms(fa, d):
    """`d` creates a mapping as `{**base, **local}` / `dict(base, **local)` and every definition of `local` that reaches it
    is a display with constant keys (or empty): the cases, each written out as `{**base, key: value, ...}`.  None when the
    definition is not of that form."""
    v = strip_cast(d.value) if d.value is not None else None
    base, poured = None, None
    if isinstance(v, ast.Dict) and len(v.keys) == 2 and v.keys[0] is None and v.keys[1] is None:
        base, poured = v.values
    elif isinstance(v, ast.Call) and isinstance(v.func, ast.Name) and v.func.id == "dict" and len(v.args) == 1 and len(v.keywords) == 1 and v.keywords[0].arg is None:
        base, poured = v.args[0], v.keywords[0].value
    elif isinstance(v, ast.BinOp) and isinstance(v.op, ast.BitOr):
        base, poured = v.left, v.right
    poured = strip_cast(poured) if poured is not None else None
    if not isinstance(poured, ast.Name):
        return None
    ds = fa.df.reaching(d.node, poured.id)
    if not ds:
        return None
    arms = []

    def branches(x, lits):
        x = strip_cast(x)
        if isinstance(x, ast.IfExp):
            return branches(x.body, lits + ((A.norm(x.test), True),)) + branches(x.orelse, lits + ((A.norm(x.test), False),))
        return [(x, lits)]

    for dd in ds:
        if dd.kind != "assign" or dd.value is None or getattr(dd, "guard", ()):
            return None
        for (x, lits) in branches(dd.value, ()):
            got = _merge_arm(fa, d, dd, v, base, x, lits)
            if got is None:
                return None
            arms.append(got)
    return arms


def _merge_arm(fa, d, dd, v, base, x, lits):
    if isinstance(x, ast.Call) and isinstance(x.func, ast.Name) and x.func.id == "dict" and not x.args and all(k.arg is not None for k in x.keywords):
        keys, vals = [ast.Constant(value=k.arg) for k in x.keywords], [k.value for k in x.keywords]
    elif isinstance(x, ast.Dict) and all(k is not None and A.const_str(k) is not None for k in x.keys):
        keys, vals = list(x.keys), list(x.values)
    else:
        return None
    # the values are read where the display is made: nothing they are made of may change on the way to the merge
    for val in vals:
        for n in ast.walk(val):
            nm = _ref_name(n) if isinstance(n, (ast.Name, ast.Attribute)) else None
            if nm is not None and {(q.node, q.name) for q in fa.df.reaching(dd.node, nm)} != {(q.node, q.name) for q in fa.df.reaching(d.node, nm)}:
                return None
    merged = ast.Dict(keys=[None] + keys, values=[base] + vals)
    ast.copy_location(merged, v)
    ast.fix_missing_locations(merged)
    cases = set()
    for cj in conds(fa, dd.node):
        full = frozenset(set(cj) | set(canon_conj(lits)))
        if not any((t, not p_) in full for (t, p_) in full):
            cases.add(full)
    return _Arm(d, merged, cases, dd.node)


def reserved_key_clause(fl):
    """C16.R1 / C04.R3: the context args are put on the hash input under the reserved key, before the hash is taken,
    exactly when they are non-empty.  Returns (ok, where, stores, shapes, n_sites)."""
    init = fl.fa
    hks, ek = fl.hks, fl.ek
    # where the reserved key is put on a mapping: subscript stores, and entries of the expression that creates the
    # hash input (`{**effective, KEY: context_args}`, `dict(effective, KEY=context_args)`, ...), one per case
    stores = []     # (statement, mapping expression, value expression)
    for s in init.stmts(ast.Assign):
        for t in s.targets:
            if isinstance(t, ast.Subscript) and A.const_str(init.expand(t.slice, init.nodes(s)[0]) if init.nodes(s) else t.slice) == RESERVED:
                stores.append((s, t.value, s.value))
    for s in init.stmts(ast.Expr):
        c = s.value
        if not (isinstance(c, ast.Call) and isinstance(c.func, ast.Attribute) and init.nodes(s)):
            continue
        if c.func.attr in ("__setitem__", "setdefault") and len(c.args) == 2 and A.const_str(init.expand(c.args[0], init.nodes(s)[0])) == RESERVED:
            stores.append((s, c.func.value, c.args[1]))
        elif c.func.attr == "update":
            # m.update({KEY: v}) / m.update(KEY=v)
            sh = map_shape(c.args[0]) if len(c.args) == 1 and not c.keywords else ((None, [(k.arg, k.value) for k in c.keywords if k.arg], False) if not c.args else None)
            if sh is not None and sh[0] is None:
                stores += [(s, c.func.value, v) for (k, v) in sh[1] if k == RESERVED]
    cases = []
    for d in hks:
        cases += _merge_arms(init, d) or [d]
    shapes = [(d, map_shape(d.value)) for d in cases]
    inline = [(d, v) for (d, sh) in shapes if sh is not None for (k, v) in sh[1] if k == RESERVED]
    n_sites = len(stores) + len(inline)
    ok = bool(hks) and n_sites >= 1 and not any(sh is not None and sh[2] for (d, sh) in shapes)
    where_r = init.where(stores[0][0]) if stores else (init.where(inline[0][0].stmt) if inline and inline[0][0].stmt is not None else init.where())
    if ok:
        ca_txt = {"self.context_args"}
        ds = init.df.reaching(fl.exit, "self.context_args")
        fin = {(d_.node, d_.name) for d_ in ds}
        raw = set()
        for d_ in ds:
            if d_.value is None:
                continue
            if len(ds) == 1:
                ca_txt.add(init.xnorm(d_.value, d_.node))
                ca_txt.add(A.norm(d_.value))
            raw |= {x[len("param:"):] for x in init.deps(d_.value, d_.node) if x.startswith("param:") and x != "param:self"}
        if len(raw) == 1:
            # the raw argument is empty exactly when its normalised form is
            ca_txt |= raw
        base = conds(init, fl.hash_def.node)
        after_hash = init.cfg.reach([fl.hash_at], include_start=False)
        cs = set()
        for (s, m, v) in stores:
            at = init.nodes(s)[0]
            # on the hash input, holding the (normalised) context args
            ok = ok and fl.denotes_any(m, at, hks)
            ok = ok and fl.reads_final(v, at, "context_args")
            # before the hash is taken
            ok = ok and not (set(init.nodes(s)) & after_hash) and fl.hash_at in init.cfg.reach(init.nodes(s))
            cs |= relative(conds(init, s), base)
        for (d, v) in inline:
            ok = ok and fl.reads_final(v, getattr(d, "at", d.node), "context_args")
            ok = ok and d.node not in after_hash and fl.hash_at in init.cfg.reach([d.node])
            cs |= relative(getattr(d, "cases", None) or case_conds(init, d), base)
        # exactly when non-empty
        ok = ok and holds_iff_nonempty(cs, ca_txt)
    return bool(ok), where_r, stores, shapes, n_sites


# ------------------------------------------------------------------------------------------------
# R7: the recursive context holds what was attached.  The class that carries the recursive fields is small and
# closed (constructor, copy, update): its methods are READ for model values (nothing of the repository is imported or
# executed): the attached value is a token of which only "is it None" / "is it empty" is known, the fields of the
# receiving context are opaque tokens, attribute dictionaries are written out.  Whatever way the new context is built
# (patching the attribute dictionary of a copy, through the constructor with the fields spread in, a display, a
# loop over the items), the clause is decided on what the returned object's fields hold.
# ------------------------------------------------------------------------------------------------
class _Sym:
    """a value of which at most `none` (is it None) and `truth` are known; `src` = the token it is a copy of"""
    def __init__(self, name, none=None, truth=None, src=None):
        self.name, self.none, self.truth, self.src = name, none, truth, src

    def root(self):
        return self.src.root() if self.src is not None else self


class _MObj:
    """an instance of a class whose methods are read: `d` is its attribute dictionary"""
    def __init__(self, ci):
        self.ci, self.d = ci, {}


class _MCls:
    def __init__(self, ci):
        self.ci = ci


class _MBound:
    def __init__(self, kind, recv, name):
        self.kind, self.recv, self.name = kind, recv, name


class _MMod:
    """an imported module / an imported function, by dotted origin ('copy', 'copy:deepcopy')"""
    def __init__(self, origin):
        self.origin = origin


class _MRaise(Exception):
    """the path being read ends in an exception"""


class _MReturn(Exception):
    def __init__(self, value):
        self.value = value


class _MSuper:
    def __init__(self, obj, after):
        self.obj, self.after = obj, after


def _mroot(v):
    return v.root() if isinstance(v, _Sym) else v


class ObjReader:
    """One path through the methods of a small class, read on model values.  A test whose outcome is not known takes
    the next entry of `choices` (True first when there is none): `explore` replays with every alternative."""

    def __init__(self, ck, choices, what):
        self.ck, self.repo = ck, ck.repo
        self.choices, self.trace = list(choices), []
        self.facts = {}      # id(root token) -> {"none": bool, "truth": bool} learnt on this path
        self.alias = set()   # (id, id) of values this path has taken to be the same
        self.what = what
        self.depth = 0
        self.steps = 0

    # -- failing closed
    def cant(self, node, why=""):
        raise AnalysisError("%s: `%s` cannot be read for the values a recursive context holds%s" % (
            self.what, A.short(node, 60) if isinstance(node, ast.AST) else node, (" (%s)" % why) if why else ""))

    # -- facts
    def _fact(self, v, what):
        r = _mroot(v)
        own = getattr(r, what)
        if own is not None:
            return own
        return self.facts.get(id(r), {}).get(what)

    def decide(self, v, what):
        """the fact `what` ('none' / 'truth') about v on this path; forks when it is open"""
        r = _mroot(v)
        k = self._fact(v, what)
        if k is None and what == "truth" and self._fact(v, "none") is True:
            k = False
        if k is None and what == "none" and self._fact(v, "truth") is True:
            k = False
        if k is not None:
            return k
        i = len(self.trace)
        k = self.choices[i] if i < len(self.choices) else True
        if what == "none" and k and self.facts.get(id(r), {}).get("truth") is True:
            k = False
        self.trace.append(k)
        self.facts.setdefault(id(r), {})[what] = k
        if what == "none" and k:
            self.facts[id(r)]["truth"] = False
        if what == "truth" and k:
            self.facts[id(r)]["none"] = False
        return k

    def truth(self, v):
        if isinstance(v, _Sym):
            return self.decide(v, "truth")
        if isinstance(v, (_MObj, _MCls, _MBound)):
            return True
        if isinstance(v, (dict, list, tuple, str, int, float, bool, type(None))):
            return bool(v)
        self.cant("truth of %r" % (v,))

    def is_none(self, v):
        if isinstance(v, _Sym):
            return self.decide(v, "none")
        return v is None

    def denotes(self, got, v):
        """does `got` hold the value v (v itself, a copy of it, or what this path has found to be the same)"""
        if v is None:
            return got is None or (isinstance(got, _Sym) and self._fact(got, "none") is True)
        return _mroot(got) is v or (id(got), id(v)) in self.alias

    def known_truth(self, v):
        """the truth of v as far as this path knows it (never forks): True / False / None"""
        if isinstance(v, _Sym):
            k = self._fact(v, "truth")
            return False if k is None and self._fact(v, "none") is True else k
        if v is _UNKNOWN:
            return None
        return self.truth(v)

    # -- classes
    def class_default(self, ci, attr):
        for c in self.repo.mro(ci):
            for s in c.node.body:
                tg = s.targets if isinstance(s, ast.Assign) else ([s.target] if isinstance(s, ast.AnnAssign) and s.value is not None else [])
                for t in tg:
                    if isinstance(t, ast.Name) and t.id == attr:
                        if isinstance(s.value, ast.Constant):
                            return s.value.value
                        self.cant(s, "class attribute")
        return _UNKNOWN

    def method(self, ci, name, after=None):
        mro = self.repo.mro(ci)
        if after is not None:
            mro = mro[[c.qual for c in mro].index(after.qual) + 1:]
        for c in mro:
            if name in c.methods:
                return c.methods[name]
        return None

    def getattr_(self, o, attr, node):
        if isinstance(o, _MObj):
            if attr == "__dict__":
                return o.d
            if attr == "__class__":
                return _MCls(o.ci)
            if attr in o.d:
                return o.d[attr]
            m = self.method(o.ci, attr)
            if m is not None:
                if "property" in m.decorators:
                    return self.call_fn(m, [o], {}, node)
                return _MBound("method", o, m)
            v = self.class_default(o.ci, attr)
            if v is _UNKNOWN:
                raise _MRaise()      # AttributeError
            return v
        if isinstance(o, dict) and attr in ("update", "copy", "items", "keys", "values", "get", "__setitem__", "pop", "setdefault", "__contains__"):
            return _MBound("dict", o, attr)
        if isinstance(o, _Sym) and attr in ("copy", "items", "keys", "values"):
            return _MBound("sym", o, attr)
        if isinstance(o, _MSuper):
            if attr == "__setattr__":
                return _MBound("rawset", o.obj, attr)
            m = self.method(o.obj.ci, attr, after=o.after)
            if m is None:
                if attr == "__init__":
                    return _MBound("noop", None, attr)
                self.cant(node)
            return _MBound("method", o.obj, m)
        if isinstance(o, str) and attr == "format":
            return _MBound("opaque", None, attr)
        if isinstance(o, _MMod) and ":" not in o.origin:
            return _MMod(o.origin + ":" + attr)
        self.cant(node)

    def setattr_(self, o, attr, v, node):
        if not isinstance(o, _MObj):
            self.cant(node)
        m = self.method(o.ci, "__setattr__")
        if m is not None:
            self.call_fn(m, [o, attr, v], {}, node)
            return
        dc = self._dataclass(o.ci)
        if dc is not None and dc[0]:
            raise _MRaise()      # frozen
        o.d[attr] = v

    # -- calls
    def call_fn(self, fi, args, kwargs, node):
        self.depth += 1
        if self.depth > 12:
            self.cant(node, "recursion")
        try:
            a = fi.node.args
            if a.posonlyargs:
                self.cant(node)
            names = [x.arg for x in a.args]
            env = {}
            if len(args) > len(names):
                if a.vararg is None:
                    raise _MRaise()
                env[a.vararg.arg] = tuple(args[len(names):])
                args = args[:len(names)]
            elif a.vararg is not None:
                env[a.vararg.arg] = ()
            for n_, v in zip(names, args):
                env[n_] = v
            extra = {}
            konly = [x.arg for x in a.kwonlyargs]
            for k, v in kwargs.items():
                if k in env and k in names:
                    raise _MRaise()      # given twice
                if k in names or k in konly:
                    env[k] = v
                elif a.kwarg is not None:
                    extra[k] = v
                else:
                    raise _MRaise()      # unexpected keyword argument
            if a.kwarg is not None:
                env[a.kwarg.arg] = extra
            defaults = dict(zip(names[len(names) - len(a.defaults):], a.defaults))
            defaults.update({k: d for k, d in zip(konly, a.kw_defaults) if d is not None})
            for n_ in names + konly:
                if n_ not in env:
                    if n_ not in defaults:
                        raise _MRaise()
                    env[n_] = self.ev(defaults[n_], {}, fi)
            try:
                self.block(fi.node.body, env, fi)
            except _MReturn as r:
                return r.value
            return None
        finally:
            self.depth -= 1

    def _dataclass(self, ci):
        """None, or (frozen) when the class is a dataclass"""
        for d in ci.node.decorator_list:
            f = d.func if isinstance(d, ast.Call) else d
            if A.norm(f) in ("dataclass", "dataclasses.dataclass"):
                frozen = isinstance(d, ast.Call) and any(k.arg == "frozen" and isinstance(k.value, ast.Constant) and k.value.value for k in d.keywords)
                return (bool(frozen),)
        return None

    def construct(self, ci, args, kwargs, node):
        o = _MObj(ci)
        m = self.method(ci, "__init__")
        dc = self._dataclass(ci)
        if m is not None and (dc is None or "__init__" in ci.methods):
            self.call_fn(m, [o] + list(args), kwargs, node)
            return o
        if dc is not None:
            # the constructor a dataclass is given: its annotated fields in order, with their defaults
            if any(self._dataclass(c) is None and any(isinstance(s_, ast.AnnAssign) for s_ in c.node.body) for c in self.repo.mro(ci)[1:]):
                self.cant(node, "dataclass with an annotated base")
            names, defaults = [], {}
            for s_ in ci.node.body:
                if isinstance(s_, ast.AnnAssign) and isinstance(s_.target, ast.Name) and "ClassVar" not in A.norm(s_.annotation):
                    names.append(s_.target.id)
                    if s_.value is not None:
                        if not isinstance(s_.value, ast.Constant):
                            self.cant(s_, "field default")
                        defaults[s_.target.id] = s_.value.value
            if len(args) > len(names):
                raise _MRaise()
            given = dict(zip(names, args))
            for k, v in kwargs.items():
                if k in given or k not in names:
                    raise _MRaise()
                given[k] = v
            for n_ in names:
                if n_ not in given:
                    if n_ not in defaults:
                        raise _MRaise()
                    given[n_] = defaults[n_]
                o.d[n_] = given[n_]
            pi = self.method(ci, "__post_init__")
            if pi is not None:
                self.call_fn(pi, [o], {}, node)
            return o
        if ci.node.decorator_list or any(c is not ci and self.method(c, "__new__") for c in self.repo.mro(ci)):
            self.cant(node, "how the class is constructed")
        if args or kwargs:
            raise _MRaise()
        return o

    def copy_of(self, v, node):
        if isinstance(v, dict):
            return dict(v)
        if isinstance(v, (list, tuple)):
            return type(v)(v)
        if isinstance(v, _Sym):
            if self.is_none(v):
                return None
            return _Sym("copy of " + v.name, src=v)
        if isinstance(v, _MObj):
            m = self.method(v.ci, "__copy__")
            if m is not None:
                return self.call_fn(m, [v], {}, node)
            o = _MObj(v.ci)
            o.d = dict(v.d)
            return o
        if v is None or isinstance(v, (str, int, float, bool)):
            return v
        self.cant(node)

    def mapping_of(self, v, node):
        """the entries of v where it is spread / poured into a mapping"""
        if isinstance(v, dict):
            return v
        if isinstance(v, _Sym):
            if self.is_none(v):
                raise _MRaise()
        self.cant(node, "entries of a value that is not written out")

    def call(self, e, env, fi):
        f = e.func
        args = []
        for a in e.args:
            if isinstance(a, ast.Starred):
                v = self.ev(a.value, env, fi)
                if not isinstance(v, (list, tuple)):
                    self.cant(e)
                args += list(v)
            else:
                args.append(self.ev(a, env, fi))
        kwargs = {}
        sym_spread = None
        for k in e.keywords:
            v = self.ev(k.value, env, fi)
            if k.arg is None:
                if isinstance(v, _Sym) and isinstance(f, ast.Name) and f.id == "dict" and not e.args and len(e.keywords) == 1:
                    sym_spread = v
                    continue
                for k2, v2 in self.mapping_of(v, e).items():
                    if not isinstance(k2, str):
                        self.cant(e)
                    if k2 in kwargs:
                        raise _MRaise()
                    kwargs[k2] = v2
            else:
                kwargs[k.arg] = v
        if isinstance(f, ast.Name) and f.id not in env:
            n = f.id
            if n == "dict":
                if sym_spread is not None:
                    return self.copy_of(sym_spread, e) if not self.is_none(sym_spread) else self._raise()
                if len(args) > 1:
                    raise _MRaise()
                if args and isinstance(args[0], _Sym):
                    if kwargs:
                        self.cant(e)
                    if self.is_none(args[0]):
                        raise _MRaise()
                    return self.copy_of(args[0], e)
                out = dict(self.mapping_of(args[0], e)) if args else {}
                out.update(kwargs)
                return out
            if n == "vars" and len(args) == 1 and isinstance(args[0], _MObj):
                return args[0].d
            if n == "type" and len(args) == 1 and isinstance(args[0], _MObj):
                return _MCls(args[0].ci)
            if n == "cast" and len(e.args) == 2:
                return args[1]
            if n == "super" and not args and fi.cls is not None and "self" in env:
                return _MSuper(env["self"], fi.cls)
            if n == "bool" and len(args) == 1:
                return self.truth(args[0])
            if n == "len" and len(args) == 1 and isinstance(args[0], (dict, list, tuple, str)):
                return len(args[0])
            if n == "len" and len(args) == 1 and isinstance(args[0], _Sym):
                if self.is_none(args[0]):
                    raise _MRaise()
                return 1 if self.truth(args[0]) else 0
            if n == "isinstance" and len(args) == 2 and isinstance(args[0], _MObj) and isinstance(args[1], _MCls):
                return any(c.qual == args[1].ci.qual for c in self.repo.mro(args[0].ci))
            if n in ("list", "tuple") and len(args) == 1 and isinstance(args[0], (list, tuple)):
                return (list if n == "list" else tuple)(args[0])
            if n in ("repr", "str", "id", "hash"):
                return _Sym(n + "(...)", none=False)
            if n == "setattr" and len(args) == 3 and isinstance(args[1], str):
                self.setattr_(args[0], args[1], args[2], e)
                return None
            if n == "getattr" and len(args) in (2, 3) and isinstance(args[1], str):
                try:
                    return self.getattr_(args[0], args[1], e)
                except _MRaise:
                    if len(args) == 3:
                        return args[2]
                    raise
            if n == "hasattr" and len(args) == 2 and isinstance(args[1], str) and isinstance(args[0], _MObj):
                try:
                    self.getattr_(args[0], args[1], e)
                    return True
                except _MRaise:
                    return False
            ci = self._class_named(n, fi)
            if ci is not None:
                return self.construct(ci, args, kwargs, e)
            if n not in fi.module.imports:
                self.cant(e)
        if A.norm(f) in ("object.__setattr__",) and len(args) == 3 and isinstance(args[0], _MObj) and isinstance(args[1], str):
            args[0].d[args[1]] = args[2]
            return None
        fv = self.ev(f, env, fi)
        if isinstance(fv, _MMod):
            if fv.origin in ("copy:copy", "copy:deepcopy") and len(args) in (1, 2) and not kwargs:
                return self.copy_of(args[0], e)
            if fv.origin == "typing:cast" and len(args) == 2:
                return args[1]
            if fv.origin == "dataclasses:replace" and len(args) == 1 and isinstance(args[0], _MObj) and self._dataclass(args[0].ci) is not None:
                return self.construct(args[0].ci, [], dict(args[0].d, **kwargs), e)
            self.cant(e)
        if isinstance(fv, _MCls):
            return self.construct(fv.ci, args, kwargs, e)
        if isinstance(fv, _MBound):
            return self.bound(fv, args, kwargs, e)
        self.cant(e)

    def _raise(self):
        raise _MRaise()

    def _class_named(self, name, fi):
        for ci in fi.module.all_classes():
            if ci.name == name and ci.outer is None:
                return ci
        return None

    def bound(self, b, args, kwargs, e):
        if b.kind == "method":
            return self.call_fn(b.name, [b.recv] + args, kwargs, e)
        if b.kind == "noop":
            return None
        if b.kind == "opaque":
            return _Sym("text", none=False)
        if b.kind == "rawset":
            if len(args) == 2 and isinstance(args[0], str):
                b.recv.d[args[0]] = args[1]
                return None
            self.cant(e)
        if b.kind == "sym":
            if b.name == "copy" and not args:
                if self.is_none(b.recv):
                    raise _MRaise()
                return self.copy_of(b.recv, e)
            self.cant(e, "entries of a value that is not written out")
        d = b.recv
        n = b.name
        if n == "update":
            if len(args) > 1:
                raise _MRaise()
            if args:
                d.update(self.mapping_of(args[0], e))
            d.update(kwargs)
            return None
        if n == "copy" and not args:
            return dict(d)
        if n == "items" and not args:
            return [(k, v) for k, v in d.items()]
        if n == "keys" and not args:
            return list(d.keys())
        if n == "values" and not args:
            return list(d.values())
        if n == "__setitem__" and len(args) == 2 and isinstance(args[0], str):
            d[args[0]] = args[1]
            return None
        if n == "__contains__" and len(args) == 1 and isinstance(args[0], str):
            return args[0] in d
        if n == "get" and len(args) in (1, 2) and isinstance(args[0], str):
            return d.get(args[0], args[1] if len(args) == 2 else None)
        if n == "pop" and len(args) in (1, 2) and isinstance(args[0], str):
            if args[0] in d:
                return d.pop(args[0])
            if len(args) == 2:
                return args[1]
            raise _MRaise()
        if n == "setdefault" and len(args) == 2 and isinstance(args[0], str):
            return d.setdefault(args[0], args[1])
        self.cant(e)

    # -- expressions
    def same(self, a, b, identity):
        """a is b / a == b; None when it is not known"""
        if a is None or b is None:
            o = b if a is None else a
            return self.is_none(o)
        if isinstance(a, _Sym) or isinstance(b, _Sym):
            if a is b:
                return True
            if _mroot(a) is _mroot(b) and (not identity or (id(_mroot(a)), id(_mroot(b))) in self.alias):
                return True
            if (id(a), id(b)) in self.alias:
                return True
            for w in ("none", "truth"):
                fa_, fb_ = (self._fact(x, w) if isinstance(x, _Sym) else ((x is None) if w == "none" else None) for x in (a, b))
                if fa_ is not None and fb_ is not None and fa_ != fb_:
                    return False
            i = len(self.trace)
            k = self.choices[i] if i < len(self.choices) else True
            self.trace.append(k)
            if k:
                self.alias |= {(id(a), id(b)), (id(b), id(a))}
                for w in ("none", "truth"):     # what is known of one holds for the other
                    for x, y in ((a, b), (b, a)):
                        known = self._fact(x, w) if isinstance(x, _Sym) else ((x is None) if w == "none" else None)
                        if known is not None and isinstance(y, _Sym) and self._fact(y, w) is None:
                            self.facts.setdefault(id(_mroot(y)), {})[w] = known
            return k
        if isinstance(a, (_MObj, dict, list)) or isinstance(b, (_MObj, dict, list)):
            return a is b if identity or isinstance(a, _MObj) or isinstance(b, _MObj) else a == b
        return a == b if not identity else (a is b or (type(a) is type(b) and a == b))

    def ev(self, e, env, fi):
        self.steps += 1
        if self.steps > 20000:
            self.cant(e, "too long")
        if isinstance(e, ast.Constant):
            return e.value
        if isinstance(e, ast.Name):
            if e.id in env:
                return env[e.id]
            ci = self._class_named(e.id, fi)
            if ci is not None:
                return _MCls(ci)
            if e.id in fi.module.imports:
                return _MMod(fi.module.imports[e.id])
            self.cant(e)
        if isinstance(e, ast.NamedExpr) and isinstance(e.target, ast.Name):
            env[e.target.id] = v = self.ev(e.value, env, fi)
            return v
        if isinstance(e, ast.Attribute):
            return self.getattr_(self.ev(e.value, env, fi), e.attr, e)
        if isinstance(e, ast.Call):
            return self.call(e, env, fi)
        if isinstance(e, ast.JoinedStr):
            return _Sym("text", none=False, truth=True)
        if isinstance(e, ast.UnaryOp) and isinstance(e.op, ast.Not):
            return not self.truth(self.ev(e.operand, env, fi))
        if isinstance(e, ast.BoolOp):
            v = None
            for x in e.values:
                v = self.ev(x, env, fi)
                if self.truth(v) != isinstance(e.op, ast.And):
                    return v
            return v
        if isinstance(e, ast.IfExp):
            return self.ev(e.body if self.truth(self.ev(e.test, env, fi)) else e.orelse, env, fi)
        if isinstance(e, ast.Compare) and len(e.ops) == 1:
            l, r = self.ev(e.left, env, fi), self.ev(e.comparators[0], env, fi)
            op = e.ops[0]
            if isinstance(op, (ast.Is, ast.IsNot, ast.Eq, ast.NotEq)):
                s = self.same(l, r, isinstance(op, (ast.Is, ast.IsNot)))
                return s if isinstance(op, (ast.Is, ast.Eq)) else not s
            if isinstance(op, (ast.In, ast.NotIn)) and isinstance(r, (dict, list, tuple)) and isinstance(l, (str, int)):
                return (l in r) if isinstance(op, ast.In) else (l not in r)
            if isinstance(op, (ast.Gt, ast.GtE, ast.Lt, ast.LtE)) and isinstance(l, int) and isinstance(r, int):
                return {ast.Gt: l > r, ast.GtE: l >= r, ast.Lt: l < r, ast.LtE: l <= r}[type(op)]
            self.cant(e)
        if isinstance(e, ast.Dict):
            out = {}
            for k, v in zip(e.keys, e.values):
                if k is None:
                    m = self.ev(v, env, fi)
                    if isinstance(m, _Sym) and len(e.keys) == 1:
                        if self.is_none(m):
                            raise _MRaise()
                        return self.copy_of(m, e)
                    out.update(self.mapping_of(m, e))
                else:
                    kk = self.ev(k, env, fi)
                    if not isinstance(kk, str):
                        self.cant(e)
                    out[kk] = self.ev(v, env, fi)
            return out
        if isinstance(e, ast.DictComp) and len(e.generators) == 1:
            g = e.generators[0]
            out = {}
            for item in self.iterate(self.ev(g.iter, env, fi), e):
                env2 = dict(env)
                self.bind(g.target, item, env2, fi)
                if all(self.truth(self.ev(c, env2, fi)) for c in g.ifs):
                    kk = self.ev(e.key, env2, fi)
                    if not isinstance(kk, str):
                        self.cant(e)
                    out[kk] = self.ev(e.value, env2, fi)
            return out
        if isinstance(e, (ast.Tuple, ast.List)) and not any(isinstance(x, ast.Starred) for x in e.elts):
            v = [self.ev(x, env, fi) for x in e.elts]
            return tuple(v) if isinstance(e, ast.Tuple) else v
        if isinstance(e, ast.Subscript):
            b, k = self.ev(e.value, env, fi), self.ev(e.slice, env, fi)
            if isinstance(b, dict) and isinstance(k, str):
                if k not in b:
                    raise _MRaise()
                return b[k]
            if isinstance(b, (list, tuple)) and isinstance(k, int):
                return b[k]
            self.cant(e)
        self.cant(e)

    def iterate(self, v, node):
        if isinstance(v, dict):
            return list(v.keys())
        if isinstance(v, (list, tuple)):
            return list(v)
        self.cant(node, "loop over a value that is not written out")

    def bind(self, t, v, env, fi):
        if isinstance(t, ast.Name):
            env[t.id] = v
        elif isinstance(t, (ast.Tuple, ast.List)) and isinstance(v, (tuple, list)) and len(v) == len(t.elts):
            for t_, v_ in zip(t.elts, v):
                self.bind(t_, v_, env, fi)
        elif isinstance(t, ast.Subscript):
            b, k = self.ev(t.value, env, fi), self.ev(t.slice, env, fi)
            if not (isinstance(b, dict) and isinstance(k, str)):
                self.cant(t)
            b[k] = v
        elif isinstance(t, ast.Attribute):
            self.setattr_(self.ev(t.value, env, fi), t.attr, v, t)
        else:
            self.cant(t)

    # -- statements
    def block(self, body, env, fi):
        for s in body:
            self.stmt(s, env, fi)

    def stmt(self, s, env, fi):
        if isinstance(s, ast.Expr):
            if isinstance(s.value, ast.Constant):
                return
            c = s.value
            if isinstance(c, ast.Call) and isinstance(c.func, ast.Attribute) and A.root_name(c.func) in ("log", "logging", "logger", "warnings"):
                return
            self.ev(c, env, fi)
        elif isinstance(s, ast.Assign):
            v = self.ev(s.value, env, fi)
            for t in s.targets:
                self.bind(t, v, env, fi)
        elif isinstance(s, ast.AnnAssign):
            if s.value is not None:
                self.bind(s.target, self.ev(s.value, env, fi), env, fi)
        elif isinstance(s, ast.Return):
            raise _MReturn(self.ev(s.value, env, fi) if s.value is not None else None)
        elif isinstance(s, ast.Raise):
            raise _MRaise()
        elif isinstance(s, ast.Pass):
            return
        elif isinstance(s, ast.Import):
            for a in s.names:
                env[a.asname or a.name.split(".")[0]] = _MMod(a.name if a.asname else a.name.split(".")[0])
        elif isinstance(s, ast.ImportFrom) and s.module and not s.level:
            for a in s.names:
                env[a.asname or a.name] = _MMod(s.module + ":" + a.name)
        elif isinstance(s, ast.If):
            self.block(s.body if self.truth(self.ev(s.test, env, fi)) else s.orelse, env, fi)
        elif isinstance(s, ast.Assert):
            if not self.truth(self.ev(s.test, env, fi)):
                raise _MRaise()
        elif isinstance(s, ast.For) and not s.orelse:
            for item in self.iterate(self.ev(s.iter, env, fi), s):
                self.bind(s.target, item, env, fi)
                for x in s.body:
                    if isinstance(x, (ast.Break, ast.Continue)) or any(isinstance(y, (ast.Break, ast.Continue)) for y in ast.walk(x)):
                        self.cant(s)
                    self.stmt(x, env, fi)
        elif isinstance(s, ast.Delete):
            for t in s.targets:
                if isinstance(t, ast.Subscript):
                    b, k = self.ev(t.value, env, fi), self.ev(t.slice, env, fi)
                    if not (isinstance(b, dict) and isinstance(k, str)):
                        self.cant(s)
                    if k not in b:
                        raise _MRaise()
                    del b[k]
                elif isinstance(t, ast.Name):
                    env.pop(t.id, None)
                else:
                    self.cant(s)
        else:
            self.cant(s)


def explore(ck, what, scenario, cap=256):
    """every path of `scenario(reader)`: [(result or _RAISES, reader)]"""
    out = []
    pending = [[]]
    while pending:
        pre = pending.pop()
        rd = ObjReader(ck, pre, what)
        try:
            r = scenario(rd)
        except _MRaise:
            r = _RAISES
        out.append((r, rd))
        for i in range(len(pre), len(rd.trace)):
            pending.append(rd.trace[:i] + [not rd.trace[i]])
        if len(out) > cap:
            raise AnalysisError("%s: too many cases when the class is read for the values a recursive context holds" % what)
    return out


RC_Q = "context.RecursiveContext"


def _describe(v, rd=None):
    if v is None:
        return "None"
    if isinstance(v, _Sym):
        return v.name
    if isinstance(v, dict):
        return "a mapping written in the class"
    if isinstance(v, _MObj):
        return "a %s" % v.ci.name
    return repr(v)


def context_holds_what_is_attached(ck, rule):
    """R7.  Returns {'update': bool} (the verdict on update() for the replace clause of R2)."""
    ci = ck.repo.cls(RC_Q)
    upd = ck.repo.find_method(ci, "update")
    init = ck.repo.find_method(ci, "__init__")
    ck.need(upd is not None and init is not None, "RecursiveContext: update / __init__ not found")
    ck.functions_analysed.add(upd.qual)
    ck.functions_analysed.add(init.qual)
    ufa, ifa = FA(ck, upd), FA(ck, init)
    # the fields of a recursive context: what a default construction stores
    base = explore(ck, RC_Q, lambda rd: rd.construct(ci, [], {}, ci.node))
    fields = None
    for r, _rd in base:
        if r is not _RAISES:
            fields = list(r.d) if fields is None else [f for f in fields if f in r.d]
    ck.need(fields, "RecursiveContext: a default construction stores no field")
    CA, PF = "context_args", "prevent_further_calls"

    def attached(kind):
        if kind == "none":
            return None
        return _Sym({"empty": "an empty context-args mapping ({})", "full": "the attached context args",
                     "true": "True", "false": "False"}[kind], none=False, truth=kind in ("full", "true"))

    def read(rd, o, f):
        try:
            return rd.getattr_(o, f, ci.node)
        except _MRaise:
            return _UNKNOWN

    # (a) the constructor keeps what it is given
    bad_c = []
    for f, kinds in ((CA, ("none", "empty", "full")), (PF, ("true", "false"))):
        for kind in kinds:
            v = attached(kind)
            runs = explore(ck, RC_Q, lambda rd: rd.construct(ci, [], {f: v}, ci.node))
            fine = any(r is not _RAISES for r, _ in runs)
            why = "the construction fails"
            for r, rd in runs:
                if r is _RAISES:
                    continue
                got = read(rd, r, f)
                if f == PF:
                    if rd.known_truth(got) is not (kind == "true"):
                        fine, why = False, "the context holds %s" % _describe(got)
                elif not rd.denotes(got, v):
                    fine, why = False, "the context holds %s" % _describe(got)
            if not fine:
                bad_c.append((f, kind, _describe(v), why))
    okc = not bad_c
    ck.ob(rule, ifa.key(None, "constructor-keeps-what-it-is-given"), okc,
          "a recursive context built with context args / the prevent flag holds exactly them (None, empty and non-empty kept apart)" if okc else
          "RecursiveContext(%s=%s): %s - 'not set' (None) and 'set' (an empty mapping included) are no longer kept apart, so a call that attaches "
          "that value is read as %s by memento_run_batch" % (bad_c[0][0], bad_c[0][2], bad_c[0][3],
                                                            "one that inherits its caller's context args" if bad_c[0][1] != "none" else "one that has its own"),
          ifa.where())

    # (b) update(key, value) answers a new context that holds `value` under `key` and the receiver's values elsewhere
    bad_u = []
    for f, kinds in ((CA, ("none", "empty", "full")), (PF, ("true", "false"))):
        for kind in kinds:
            v = attached(kind)
            olds = {g: _Sym("the receiver's " + g) for g in fields}

            def scenario(rd, f=f, v=v, olds=olds):
                me = _MObj(ci)
                me.d = dict(olds)
                return (me, rd.call_fn(upd, [me, f, v], {}, upd.node))
            runs = explore(ck, RC_Q, scenario)
            if not any(r is not _RAISES for r, _ in runs):
                bad_u.append((f, _describe(v), "no context is answered"))
                continue
            for r, rd in runs:
                if r is _RAISES:
                    continue
                me, new = r
                if not isinstance(new, _MObj) or new is me:
                    bad_u.append((f, _describe(v), "the receiver itself is answered (updated in place)" if new is me else "no new context is answered"))
                    break
                if me.d != olds:
                    bad_u.append((f, _describe(v), "the receiver is changed"))
                    break
                got = read(rd, new, f)
                if f == PF:
                    good = rd.known_truth(got) is (kind == "true")
                else:
                    good = rd.denotes(got, v)
                if not good:
                    bad_u.append((f, _describe(v), "the new context holds %s under %s" % (_describe(got), f)))
                    break
                for g in fields:
                    if g != f and _mroot(read(rd, new, g)) is not olds[g]:
                        bad_u.append((f, _describe(v), "the new context holds %s under %s instead of the receiver's value" % (_describe(read(rd, new, g)), g)))
                        break
                else:
                    continue
                break
    oku = not bad_u
    ck.ob(rule, ufa.key(None, "update-holds-the-value"), oku,
          "update(key, value) answers a new context that holds the value under the key (None, empty and non-empty kept apart) and the receiver's values elsewhere" if oku else
          "RecursiveContext.update(%r, %s): %s - what with_context_args / with_prevent_further_calls attach is not what nested calls see "
          "(an override that comes out as None is inherited from the caller instead of replacing it)" % bad_u[0],
          ufa.where())
    # (c) InvocationContext.update_recursive / update_local answer a new invocation context in which the addressed part holds the
    # value and the other part is the receiver's (read the same way; where the class cannot be read the shape rule of R2 decides)
    out = {"update": oku}
    try:
        out["scopes"] = _scope_updates_model(ck, ci, fields, attached, read)
    except AnalysisError:
        out["scopes"] = None
    return out


def _scope_updates_model(ck, rci, rfields, attached, read):
    ici = ck.repo.cls("context.InvocationContext")
    lci = ck.repo.cls("context.LocalContext")
    CA = "context_args"
    lbase = [r for r, _ in explore(ck, lci.qual, lambda rd: rd.construct(lci, [], {}, lci.node)) if r is not _RAISES]
    if not lbase or not lbase[0].d:
        raise AnalysisError("LocalContext: a default construction stores no field")
    lfields = list(lbase[0].d)
    verdict = {}
    for meth, part, other, pci, pfields, key in (("update_recursive", "recursive", "local", rci, rfields, CA if CA in rfields else rfields[0]),
                                                  ("update_local", "local", "recursive", lci, lfields, lfields[0])):
        m = ck.repo.find_method(ici, meth)
        if m is None:
            raise AnalysisError("InvocationContext.%s not found" % meth)
        ok = True
        for kind in ("none", "empty", "full"):
            v = attached(kind)

            def scenario(rd, v=v):
                me = _MObj(ici)
                parts = {}
                for nm_, c_, fs_ in (("recursive", rci, rfields), ("local", lci, lfields)):
                    o = _MObj(c_)
                    o.d = {g: _Sym("the receiver's %s.%s" % (nm_, g)) for g in fs_}
                    parts[nm_] = o
                me.d = dict(parts)
                snap = {n_: dict(o.d) for n_, o in parts.items()}
                return me, parts, snap, rd.call_fn(m, [me, key, v], {}, m.node)
            runs = explore(ck, ici.qual, scenario)
            if not any(r is not _RAISES for r, _ in runs):
                ok = False
            for r, rd in runs:
                if r is _RAISES:
                    continue
                me, parts, snap, new = r
                if not isinstance(new, _MObj) or new is me or new.ci is not ici or me.d != parts or any(parts[n_].d != snap[n_] for n_ in parts):
                    ok = False
                    continue
                np_, no_ = read(rd, new, part), read(rd, new, other)
                if not (isinstance(np_, _MObj) and np_.ci is pci and np_ is not parts[part] and rd.denotes(read(rd, np_, key), v)
                        and all(read(rd, np_, g) is snap[part][g] for g in pfields if g != key)):
                    ok = False
                if not (isinstance(no_, _MObj) and (no_ is parts[other] or (no_.ci is parts[other].ci and no_.d == snap[other]))):
                    ok = False
        verdict[meth] = ok
    return verdict


def element_rows(target, it):
    """The element variable of a loop / comprehension over the references, with the rows written out: `for ref in refs` ->
    ('ref', refs, {}); `for a, b, c in ((ref.x, ref.y, ref.z) for ref in refs)` (a list comprehension / list display of the
    rows alike) -> ('ref', refs, {'a': ref.x, 'b': ref.y, 'c': ref.z}).  None when it is neither."""
    if isinstance(target, ast.Name):
        return target.id, it, {}
    if isinstance(target, (ast.Tuple, ast.List)) and all(isinstance(x, ast.Name) for x in target.elts):
        inner = strip_cast(it)
        if isinstance(inner, ast.Call) and isinstance(inner.func, ast.Name) and inner.func.id in ("list", "tuple", "iter") and len(inner.args) == 1 and not inner.keywords:
            inner = inner.args[0]
        if isinstance(inner, (ast.GeneratorExp, ast.ListComp)) and len(inner.generators) == 1 and not inner.generators[0].ifs \
                and isinstance(inner.generators[0].target, ast.Name) and isinstance(inner.elt, (ast.Tuple, ast.List)) \
                and len(inner.elt.elts) == len(target.elts) and not any(isinstance(x, ast.Starred) for x in inner.elt.elts):
            names = [x.id for x in target.elts]
            if len(set(names)) == len(names) and inner.generators[0].target.id not in names:
                return inner.generators[0].target.id, inner.generators[0].iter, dict(zip(names, inner.elt.elts))
    return None


def subst_names(e, table):
    """`e` with the names of `table` replaced by the expressions they stand for"""
    if not table or e is None:
        return e

    class T(ast.NodeTransformer):
        def visit_Name(self, n):
            return copy.deepcopy(table[n.id]) if isinstance(n.ctx, ast.Load) and n.id in table else n
    return ast.fix_missing_locations(T().visit(copy.deepcopy(e)))


def _hands_on_its_argument(ck, f, value, field):
    """is `value` (an expression of modifier `f`, locals written out) the modifier's argument for every kind of argument: None,
    an empty and a non-empty mapping as themselves or copied (context args); true / false with the same truth (the prevent flag)"""
    params = f.fi.params[1:]
    if value is None or not params:
        return False
    kinds = (("none", None, None), ("empty", False, False), ("full", False, True)) if field == "context_args" else (("true", False, True), ("false", False, False))
    try:
        for p_ in params:
            fine = True
            for kind, none, truth in kinds:
                v = None if kind == "none" else _Sym("the argument", none=none, truth=truth)
                runs = explore(ck, f.qual, lambda rd: rd.ev(value, {q: (v if q == p_ else _Sym("another argument")) for q in params}, f.fi))
                for r, rd in runs:
                    if r is _RAISES:
                        fine = False
                    elif field == "context_args":
                        fine = fine and rd.denotes(r, v)
                    else:
                        fine = fine and rd.known_truth(r) is truth
            if fine:
                return True
    except AnalysisError:
        return False
    return False


def check(ck):
    from .memo import check_new_memo_tables
    ck.run(check_new_memo_tables, ck, "C16.M1", ('reference', 'base', 'runner_local', 'call_stack', 'context'))
    R1, R2, R3, R4, R5 = ("C16.R%d" % i for i in range(1, 6))
    ck.rule(R1, "the hash input contains the context args under the reserved key iff non-empty; the body is called "
                "with the effective kwargs without them", 4)
    ck.rule(R2, "inherit iff unset; replace, never merge: the caller's context args are copied only when the call has "
                "none; references are rebuilt with the updated context; no dict merge of context args", 4)
    ck.rule(R3, "the stack frame is built from the updated context's recursive part; with_context_args / "
                "with_prevent_further_calls clone with the updated context", 4)
    ck.rule(R4, "the prevent_further_calls raise dominates the dispatch to the runner", 1)
    ck.rule(R5, "sibling agreement: every keyed reference construction in base.py passes self.context.recursive.context_args", 6)
    R7 = "C16.R7"
    ck.rule(R7, "the recursive context holds what was attached: through RecursiveContext's constructor, copy and update 'not set' (None) "
                "and 'set' (an empty mapping included) stay apart, the other fields keep the receiver's values, the receiver is not changed", 2)
    held = ck.run(context_holds_what_is_attached, ck, R7)

    # ---- R1: decided on the constructor with its private helpers flattened in
    fl = FlatInit(ck)
    init = fl.fa
    HK_Q = FRA + "._compute_effective_kwargs_with_context_args"
    hks, ek = fl.hks, fl.ek
    ok, where_r, stores, shapes, n_sites = reserved_key_clause(fl)
    ck.ob(R1, HK_Q + "::reserved-key", bool(ok), "context args enter the hash under %r iff non-empty" % RESERVED if ok else
          "context args are not added to the hash input under %r exactly when non-empty" % RESERVED, where_r)
    # the reserved key shares a mapping with the bound parameters: a function with a parameter of that name must be refused
    # before the hash is taken, or its parameter is overwritten by the context args in the hash input (D51)
    from .effects import Assume

    def _collides(e):
        if isinstance(e, ast.Compare) and len(e.ops) == 1 and isinstance(e.ops[0], (ast.In, ast.NotIn)) and A.const_str(e.left) == RESERVED:
            return isinstance(e.ops[0], ast.In)
        if isinstance(e, ast.Call) and A.call_attr(e) in ("__contains__", "get") and e.args and A.const_str(e.args[0]) == RESERVED:
            return True
        return None
    hits = [n_ for n_ in init.cfg.nodes if n_.kind == "test" and n_.ast is not None and any(_collides(x) is not None for x in ast.walk(init.expand(n_.ast, n_.id)))]
    asm = Assume(init, _collides)
    live = asm.reach()
    okp = bool(hits) and fl.hash_at not in live
    ck.ob(R1, HK_Q + "::reserved-key-not-a-parameter", okp, "a parameter called %r is refused before the hash is taken" % RESERVED if okp else
          "the context args are hashed under %r in the same mapping as the bound parameters and nothing refuses a parameter of that name: "
          "for such a function the context args overwrite the parameter in the hash input, so f(p1) and f(p2) under the same context "
          "args share one stored result" % RESERVED, where_r)
    # every case of the hash input starts from a copy of the finished effective kwargs
    okc = bool(hks) and ek is not None
    # (a case in which the hash input is the effective kwargs themselves is as good as a copy as long as the reserved
    # key is never stored on a mapping that may be them)
    leaky = any(any(same_def(o, ek) for o in (origins(init, m, init.nodes(s)[0]) or [ek])) for (s, m, v) in stores)
    n_copies = 0
    for (d, sh) in shapes:
        if same_def(d, ek):
            okc = okc and not leaky
            continue
        n_copies += 1
        okc = okc and sh is not None and sh[0] is not None and fl.denotes(sh[0], d.node, ek)
    okc = okc and n_copies >= 1
    if okc:
        # the copy is taken from the finished mapping, and the reserved key never lands in the mapping the body receives
        ek_names = fl.aliases_of(ek)
        after_copy = init.cfg.reach([d.node for d in hks if not same_def(d, ek)], include_start=False)
        for s in init.stmts((ast.Assign, ast.AugAssign, ast.Expr)):
            ids = init.nodes(s)
            if not ids:
                continue
            muts = []
            if isinstance(s, ast.Assign):
                muts = [t.value for t in s.targets if isinstance(t, ast.Subscript)]
            elif isinstance(s, ast.AugAssign):
                muts = [s.target.value] if isinstance(s.target, ast.Subscript) else ([s.target] if isinstance(s.op, ast.BitOr) else [])
            elif isinstance(s, ast.Expr) and isinstance(s.value, ast.Call) and A.call_attr(s.value) in ("update", "setdefault", "pop", "clear", "popitem", "__setitem__"):
                muts = [A.call_recv(s.value)] if A.call_recv(s.value) is not None else []
            for m in muts:
                if _ref_name(m) in ek_names and fl.denotes(m, ids[0], ek) and set(ids) & after_copy:
                    okc = False
    hk0 = hks[0] if hks else None
    ck.ob(R1, HK_Q + "::copy", bool(okc), "the hash input is a copy: effective_kwargs itself stays free of context args" if okc else
          "the hash input is not a copy of effective_kwargs (context args would leak into the body's parameters)", init.where(hk0.stmt) if hk0 is not None and hk0.stmt is not None else init.where())
    ah = fl.hash_def.stmt
    okh = fl.hash_call is not None and bool(hks) and n_sites >= 1 and all(fl.denotes_any(m, init.nodes(s)[0], hks) for (s, m, v) in stores)
    ck.ob(R1, init.key(ah), okh, "arg_hash = hash(effective kwargs + context args)" if okh else
          "arg_hash is not computed from effective_kwargs_with_context_args", init.where(ah))
    # the context args that key the call are the ones given to this construction (an argument of the constructor,
    # normalised), never something kept from an earlier construction
    p_ca = "context_args" if "context_args" in init.fi.params else (init.fi.params[4] if len(init.fi.params) > 4 else "")
    oko, why_o, st_o = own_argument_field(fl, "context_args", p_ca)
    ck.ob(R1, init.key(None, "context-args-of-this-call"), oko, "self.context_args is made from the context args given to this construction only" if oko else why_o,
          init.where(st_o) if st_o is not None else init.where())
    rl = FA(ck, "runner_local.memento_run_local")
    bfa, body = body_call(ck, rl)
    p_ref = "fn_reference_with_args" if "fn_reference_with_args" in rl.fi.params else (rl.fi.params[1] if len(rl.fi.params) > 1 else "")
    okb = not body.args and len(body.keywords) == 1 and body.keywords[0].arg is None and bool(bfa.nodes(body))
    if okb:
        # what is spread into the call: the effective kwargs of the reference this invocation was given (read off the
        # parameter, or off a record / method object of the invocation that was constructed with it), or a plain copy
        at_b = bfa.nodes(body)[0]
        e_ = strip_cast(resolve_object_fields(ck, bfa, bfa.expand(body.keywords[0].value, at_b), at_b))
        while is_copy_of(e_) is not None:
            e_ = strip_cast(is_copy_of(e_))
        okb = A.norm(e_) == p_ref + ".effective_kwargs"
        if bfa is rl:
            okb = okb and all(d.kind == "param" for d in rl.df.reaching(at_b, p_ref))
        else:
            # a free variable of the inner function: the parameter of memento_run_local, which nothing re-binds
            okb = okb and p_ref not in bfa.fi.params and not bfa.df.reaching(at_b, p_ref) \
                and not any(isinstance(n_, ast.Name) and n_.id == p_ref and isinstance(n_.ctx, (ast.Store, ast.Del)) for n_ in ast.walk(rl.node))
    ck.ob(R1, rl.key(body, "body-args"), okb, "the body receives exactly the effective kwargs (no context args)" if okb else
          "the body is not called with **fn_reference_with_args.effective_kwargs", bfa.where(body))

    # ---- R2
    rb = FA(ck, "runner_local.memento_run_batch")
    prm = rb.fi.params
    P_CTX = "context" if "context" in prm else prm[0]
    P_REFS = "fn_reference_with_args" if "fn_reference_with_args" in prm else prm[1]
    INHERITED = FRAME + ".recursive_context.context_args"
    UNSET = (P_CTX + ".recursive.context_args is None", True)
    disps = rb.some([c for c in rb.calls("batch_run")], "runner.batch_run dispatch")
    dnodes = {id(d): rb.nodes(d) for d in disps}
    all_dn = [i for d in disps for i in dnodes[id(d)]]

    def upd_key(c):
        return A.const_str(A.arg_or_kw(c, 0, "key"))

    _runs = {}

    def model_run(kind):
        if kind not in _runs:
            _runs[kind] = ModelRun(rb, _model_frames()[kind], P_CTX)
        return _runs[kind]

    def is_inherited(expr, at):
        """`expr` at node `at` is the calling frame's context args: by its expansion, or — when a local on the way is
        bound differently per case — by its value on every path that gets there with a calling frame"""
        if ctx_text(rb, expr, at) == INHERITED:
            return True
        vals = model_run("free").values(expr, at)
        return bool(vals) and all(v is INHERITED_CA for v in vals)

    upcalls = [c for c in rb.calls("update_recursive")]
    # a recursive field updated under a name that is computed (taken from a table, a loop variable): which field a call
    # updates is then not written where the call is, and neither is when -- no verdict rather than "nothing is inherited"
    dyn = [c for c in upcalls if upd_key(c) is None and rb.nodes(c)]
    ck.need(not dyn, "memento_run_batch: update_recursive is called with a field name that is not a literal (`%s`)" % (A.short(dyn[0], 60) if dyn else ""))
    ups = [c for c in upcalls if upd_key(c) == "context_args"]
    ok2 = len(ups) == 1 and bool(rb.nodes(ups[0]))
    un = rb.nodes(ups[0]) if ok2 else []
    if ok2:
        u = ups[0]
        val = A.arg_or_kw(u, 1, "value")
        ok2 = val is not None and is_inherited(val, un[0]) and ("param:" + P_CTX) in rb.deps(A.call_recv(u), un[0])
        cu = conds(rb, un[0])
        refs = [c for c in upcalls if upd_key(c) in ("correlation_id", "retry_on_remote_call") and rb.nodes(c) and rb.nodes(c)[0] != un[0]]
        if refs:
            # inherited together with the caller's other recursive fields, and then exactly when unset
            cr = conds(rb, rb.nodes(refs[0])[0])
            ok2 = ok2 and cu == {frozenset(c | {UNSET}) for c in cr}
        else:
            okx = bool(cu)
            for c in cu:
                okx = okx and UNSET in c and all(l == UNSET or FRAME in l[0] or l[0].isidentifier() for l in c)
            ok2 = ok2 and okx
    ck.ob(R2, rb.key(ups[0] if ups else None, "inherit-iff-unset"), bool(ok2),
          "the caller's context args are inherited only when the call attached none" if ok2 else
          "context args are not inherited exactly when the call has none of its own (guard or source changed)", rb.where())
    rebuilt = [c for c in rb.calls("FunctionReferenceWithArguments")]
    # (a reference made by the function given to map(): `refs = list(map(lambda ref: Reference(...), refs))`)
    mapped = {}
    for st_ in rb.stmts(ast.Assign):
        v_ = strip_cast(st_.value)
        m_ = v_.args[0] if isinstance(v_, ast.Call) and A.call_attr(v_) == "list" and len(v_.args) == 1 and not v_.keywords else None
        if isinstance(m_, ast.Call) and isinstance(m_.func, ast.Name) and m_.func.id == "map" and len(m_.args) == 2 and not m_.keywords and isinstance(m_.args[0], ast.Lambda) \
                and isinstance(m_.args[0].body, ast.Call) and A.call_attr(m_.args[0].body) == "FunctionReferenceWithArguments" and rb.nodes(st_):
            mapped[id(m_.args[0].body)] = (st_, v_, m_, m_.args[0])
            rebuilt.append(m_.args[0].body)
    ok3 = len(rebuilt) == 1 and len(ups) == 1 and bool(un) and (bool(rb.nodes(rebuilt[0])) or id(rebuilt[0]) in mapped)
    if ok3:
        c = rebuilt[0]
        at = rb.nodes(c)[0] if rb.nodes(c) else rb.nodes(mapped[id(c)][0])[0]
        par = mapped[id(c)][3] if id(c) in mapped else rb.pm.get(c)
        cv = src = None
        rows = {}
        made, heads = [], []
        through = []      # nodes every inheriting path must pass: where the list is rebuilt
        holders = set()   # (node, name) definitions that hold the rebuilt list
        if isinstance(par, (ast.ListComp, ast.GeneratorExp)) and par.elt is c and len(par.generators) == 1 and not par.generators[0].ifs \
                and element_rows(par.generators[0].target, par.generators[0].iter) is not None:
            outer = par
            if isinstance(par, ast.GeneratorExp):
                pp = rb.pm.get(par)
                outer = pp if isinstance(pp, ast.Call) and A.call_attr(pp) == "list" and pp.args == [par] else None
            st = rb.stmt_of(c)
            if outer is not None and isinstance(st, ast.Assign) and st.value is outer and len(st.targets) == 1 and isinstance(st.targets[0], ast.Name):
                cv, src, rows = element_rows(par.generators[0].target, par.generators[0].iter)
                through = rb.nodes(st)
                holders = {(i, st.targets[0].id) for i in rb.nodes(st)}
                made = [d_ for i in rb.nodes(st) for d_ in rb.df.gen.get(i, []) if d_.name == st.targets[0].id]
                heads = through
        elif isinstance(par, ast.Lambda) and par.body is c and len(par.args.args) == 1 and not par.args.defaults and par.args.vararg is None \
                and par.args.kwarg is None and not par.args.kwonlyargs and not getattr(par.args, "posonlyargs", []):
            # list(map(lambda ref: Reference(...), refs)): one element made for each element, in order - the comprehension by another name
            st, outer, mp, _lam = mapped.get(id(c), (None, None, None, None))
            tgt = ast.Name(id=par.args.args[0].arg, ctx=ast.Store())
            if mp is not None and element_rows(tgt, mp.args[1]) is not None:
                if outer is not None and isinstance(st, ast.Assign) and st.value is outer and len(st.targets) == 1 and isinstance(st.targets[0], ast.Name):
                    cv, src, rows = element_rows(tgt, mp.args[1])
                    through = rb.nodes(st)
                    holders = {(i, st.targets[0].id) for i in rb.nodes(st)}
                    made = [d_ for i in rb.nodes(st) for d_ in rb.df.gen.get(i, []) if d_.name == st.targets[0].id]
                    heads = through
        elif isinstance(par, ast.Call) and A.call_attr(par) == "append" and par.args == [c] and isinstance(A.call_recv(par), ast.Name):
            st = rb.stmt_of(c)
            loop = rb.enclosing(st, (ast.For, ast.While))
            if isinstance(loop, ast.For) and element_rows(loop.target, loop.iter) is not None and not loop.orelse and A.sig_stmts(loop.body) == [st] \
                    and isinstance(st, ast.Expr) and st.value is par:
                lname = A.call_recv(par).id
                heads = [n.id for n in rb.cfg.nodes if n.kind == "for" and n.ast is loop]
                ld = single_def(rb, lname, heads[0]) if heads else None
                if ld is not None and A.norm(ld.value) in ("[]", "list()"):
                    cv, src, rows = element_rows(loop.target, loop.iter)
                    through = heads
                    holders = {(ld.node, lname)}
                    made = [ld]
        if cv is not None and made:
            # other names the rebuilt list is handed on under (`refs = rebuilt`)
            for s in rb.stmts(ast.Assign):
                if len(s.targets) == 1 and isinstance(s.targets[0], ast.Name) and rb.nodes(s) and isinstance(strip_cast(s.value), ast.Name) \
                        and any(same_def(origin(rb, s.value, rb.nodes(s)[0]), m_) for m_ in made) and set(rb.nodes(s)) & rb.cfg.reach(heads, include_start=False):
                    holders |= {(i, s.targets[0].id) for i in rb.nodes(s)}
        ok3 = cv is not None and isinstance(src, ast.Name) and src.id == P_REFS and all(d.kind == "param" for d in rb.df.reaching(through[0], P_REFS))
        if ok3:
            a = [A.arg_or_kw(c, i, n) for i, n in enumerate(("fn_reference", "args", "kwargs", "context_args"))]
            ok3 = all(x is not None for x in a) and [A.norm(subst_names(x, rows)) for x in a[:3]] == [cv + ".fn_reference", cv + ".args", cv + ".kwargs"] \
                and is_inherited(a[3], at)
            if ok3 and id(c) in mapped:
                # (read in the enclosing function: nothing in it is the function's own parameter)
                ok3 = not any(isinstance(n_, ast.Name) and n_.id == par.args.args[0].arg for n_ in ast.walk(a[3]))
        # built after the update, on every inheriting path, and it is what is dispatched
        _same = []

        def same_cases():
            # the list is rebuilt in exactly the cases in which the context args are inherited, and after that: read off the
            # path conditions (the two steps may sit under two tests of the same thing — the call's own context args taken
            # before and after updates that do not touch them)
            if not _same:
                from .keys import dnf_equivalent
                b_ = set()
                for i_ in through:
                    b_ |= conds(rb, i_)
                _same.append(dnf_equivalent(conds(rb, un[0]), b_) is True and all(i_ in rb.cfg.reach(un, include_start=False) for i_ in through)
                             and not any(set(un) & rb.cfg.reach([i_], include_start=False) for i_ in through))
            return _same[0]

        def rebuilt_whenever_inherited(dn_, cx_, name_):
            # the function walked with a calling frame: wherever the dispatch is reached with a context that holds the
            # INHERITED context args, the list handed over is no longer the one the function was given
            given = _Tok("the references the function was given")
            run_ = ModelRun(rb, _model_frames()["free"], P_CTX, seed={P_REFS: given})
            probe = ast.Attribute(value=ast.Attribute(value=cx_, attr="recursive", ctx=ast.Load()), attr="context_args", ctx=ast.Load())
            envs_ = run_.envs.get(dn_, [])
            return bool(envs_) and not any(_mev(probe, env_, run_.frame) is INHERITED_CA and env_.get(name_) is given for env_ in envs_)

        ok3 = ok3 and (all(rb.cfg.must_pass(un, i) for i in through) or same_cases())
        if ok3:
            after = rb.cfg.reach(un, include_start=False)
            for d in disps:
                for dn in dnodes[id(d)]:
                    if dn not in after:
                        continue
                    r = A.arg_or_kw(d, 2, "fn_reference_with_args")
                    if not isinstance(r, ast.Name):
                        ok3 = False
                        continue
                    hn = {i for (i, nm) in holders if nm == r.id}
                    ok3 = ok3 and bool(hn) and ((rb.cfg.always_reaches(un[0], hn, [dn]) and rb.cfg.always_reaches(un[0], through, [dn]))
                                                or (same_cases() and any((df.node, df.name) in holders for df in rb.df.reaching(dn, r.id))
                                                    and A.arg_or_kw(d, 0, "context") is not None and rebuilt_whenever_inherited(dn, A.arg_or_kw(d, 0, "context"), r.id)))
                    ok3 = ok3 and all((df.node, df.name) in holders or df.kind == "param" or df.node not in after for df in rb.df.reaching(dn, r.id))
    ck.ob(R2, rb.key(None, "rebuild"), bool(ok3), "references are rebuilt with the inherited context args" if ok3 else
          "after inheriting, the call references are not rebuilt from (fn_reference, args, kwargs, updated context args)", rb.where())
    after = rb.cfg.reach(un, include_start=False) if un else set()
    for d in disps:
        okd = bool(dnodes[id(d)])
        for dn in dnodes[id(d)]:
            cx = A.arg_or_kw(d, 0, "context")
            rf = A.arg_or_kw(d, 2, "fn_reference_with_args")
            if cx is None or rf is None or not isinstance(strip_cast(cx), ast.Name) or not isinstance(strip_cast(rf), ast.Name):
                # what is dispatched is the (updated) context and the (rebuilt) list themselves, not something computed from them
                okd = False
                continue
            dp = rb.deps(cx, dn)
            rdp = set(rb.deps(rf, dn))
            made_ = origin(rb, rf, dn)
            if made_ is not None:
                # a list that is created empty and filled: what is put into it is what it is made of
                for c_ in rb.calls():
                    if A.call_attr(c_) in ("append", "extend", "insert") and A.call_recv(c_) is not None and rb.nodes(c_) and c_.args \
                            and same_def(origin(rb, A.call_recv(c_), rb.nodes(c_)[0]), made_):
                        rdp |= rb.deps(c_.args[-1], rb.nodes(c_)[0])
            okd = okd and ("param:" + P_CTX) in dp and ("param:" + P_REFS) in rdp
            if dn in after:
                okd = okd and "call:update_recursive" in dp and "const:'context_args'" in dp
        ck.ob(R2, rb.key(d, "dispatch-args"), okd, "the updated context and references are dispatched" if okd else
              "the dispatch does not pass the updated context / references", rb.where(d))
    merges = []
    for modname in ("runner_local", "base", "context"):
        for fi in ck.repo.module(modname).all_funcs():
            for n in A.walk_body(fi.node):
                txt = A.norm(n) if isinstance(n, (ast.Call, ast.Dict, ast.BinOp)) else ""
                if "context_args" not in txt:
                    continue
                if isinstance(n, ast.Call) and A.call_attr(n) == "update" and "context_args" in A.norm(A.call_recv(n)):
                    merges.append((fi, n))
                # a display that pours a context-args mapping in together with something else ({**a.context_args, **b} /
                # {**a.context_args, 'k': v}); context args stored as ONE value under a key are not a merge
                if isinstance(n, ast.Dict) and len(n.values) > 1 and any(k is None and "context_args" in A.norm(v) for k, v in zip(n.keys, n.values)):
                    merges.append((fi, n))
                if isinstance(n, ast.BinOp) and isinstance(n.op, ast.BitOr) and "context_args" in A.norm(n.left) and "context_args" in A.norm(n.right):
                    merges.append((fi, n))
    ck.ob(R2, "no-merge", not merges, "context args are never merged" if not merges else
          "caller and callee context args are merged at %s (%s)" % (A.loc(merges[0][0], merges[0][1]), A.short(merges[0][1], 50)),
          A.loc(merges[0][0], merges[0][1]) if merges else "")
    # RecursiveContext.update replaces the field on a copy, and the copy is what it returns
    ru = FA(ck, "context.RecursiveContext.update")
    rp = ru.fi.params
    oku = False
    # where one entry of an object's __dict__ is set: (statement, object, key expr, value expr) —
    # obj.__dict__[k] = v / obj.__dict__.update({k: v}) / obj.__dict__.__setitem__(k, v) / object.__setattr__(obj, k, v)
    def dict_of(e):
        """the object whose attribute dictionary `e` is: X.__dict__ / vars(X); else None"""
        e = strip_cast(e)
        if isinstance(e, ast.Attribute) and e.attr == "__dict__":
            return e.value
        if isinstance(e, ast.Call) and isinstance(e.func, ast.Name) and e.func.id == "vars" and len(e.args) == 1 and not e.keywords:
            return e.args[0]
        return None

    sets = []
    merged_pours = set()
    for s in ru.stmts((ast.Assign, ast.Expr)):
        if not ru.nodes(s):
            continue
        if isinstance(s, ast.Assign):
            for t in s.targets:
                if isinstance(t, ast.Subscript) and dict_of(t.value) is not None:
                    sets.append((s, dict_of(t.value), t.slice, s.value))
            continue
        c = s.value
        if not isinstance(c, ast.Call):
            continue
        recv = A.call_recv(c)
        owner = dict_of(recv) if recv is not None else None
        if owner is not None and A.call_attr(c) == "update" and len(c.args) == 1 and not c.keywords and isinstance(c.args[0], ast.Dict) \
                and len(c.args[0].keys) == 1 and c.args[0].keys[0] is not None and A.norm(owner) != "self":
            sets.append((s, owner, c.args[0].keys[0], c.args[0].values[0]))
        elif owner is not None and A.call_attr(c) == "__setitem__" and len(c.args) == 2:
            sets.append((s, owner, c.args[0], c.args[1]))
        elif owner is not None and A.call_attr(c) == "update" and len(c.args) == 1 and not c.keywords and A.norm(owner) != "self":
            # <new object's dict>.update(<merged>), merged = {**<self's dict>, key: value} built beforehand: poured in and
            # replaced in one go (the display puts the entries in that order)
            d_ = strip_cast(ru.expand(c.args[0], ru.nodes(s)[0]))
            if isinstance(d_, ast.Dict) and len(d_.keys) == 2 and d_.keys[0] is None and d_.keys[1] is not None \
                    and dict_of(d_.values[0]) is not None and A.norm(dict_of(d_.values[0])) == "self":
                sets.append((s, owner, d_.keys[1], d_.values[1]))
                merged_pours.add(id(s))
        elif A.norm(c.func) == "object.__setattr__" and len(c.args) == 3:
            sets.append((s, c.args[0], c.args[1], c.args[2]))
    if len(sets) == 1 and len(rp) >= 3:
        (s0, o_expr, k_expr, v_expr) = sets[0]
        at = ru.nodes(s0)[0]
        obj = origin(ru, o_expr, at)
        oku = ru.xnorm(k_expr, at) == rp[1] and ru.xnorm(v_expr, at) == rp[2] and obj is not None and isinstance(strip_cast(obj.value), ast.Call) \
            and A.root_name(o_expr) != "self"
        if oku:
            mk = strip_cast(obj.value)

            def pours_self_in(c_):
                # <the new object's dict>.update(<self's dict>), before the entry is set
                owner_ = dict_of(A.call_recv(c_)) if A.call_recv(c_) is not None else None
                src_ = dict_of(c_.args[0]) if len(c_.args) == 1 and not c_.keywords else None
                return owner_ is not None and src_ is not None and A.norm(src_) == "self" and bool(ru.nodes(c_)) \
                    and same_def(origin(ru, owner_, ru.nodes(c_)[0]), obj) and at in ru.cfg.reach(ru.nodes(c_), include_start=False)

            copied = (A.call_attr(mk) in ("copy", "deepcopy") and "self" in A.names_in(mk)) or any(pours_self_in(c_) for c_ in ru.calls("update")) \
                or id(s0) in merged_pours
            rets = ru.returns()
            oku = copied and bool(rets) and all(r.value is not None and same_def(origin(ru, r.value, ru.nodes(r)[0]), obj) for r in rets if ru.nodes(r))
    if not sets:
        # entries handed over as `**<a mapping built at run time>`: which entry is set is not written in the call
        # (the class read for the values it holds decides what the answered context holds then: R7)
        spread = [c for c in ru.calls() if any(k.arg is None for k in c.keywords) and ru.nodes(c)]
        if spread and held is not None:
            oku = held["update"]
        else:
            ck.need(not spread, "RecursiveContext.update: an entry is set through the ** of a computed mapping (`%s`)" % (A.short(spread[0], 60) if spread else ""))
    ck.ob(R2, ru.key(None, "replace"), oku, "update() replaces the field on a copy" if oku else
          "RecursiveContext.update no longer sets result[key] = value on a copy", ru.where())

    def pure_update(f, changed, kept, idx):
        """every return is InvocationContext(<self.changed.update(key, value)>, <self.kept>) (in the constructor's order)"""
        p = f.fi.params
        rets = [r for r in f.returns() if f.nodes(r)]
        if len(p) < 3 or not rets:
            return False
        for r in rets:
            e = strip_cast(f.expand(r.value, f.nodes(r)[0])) if r.value is not None else None
            if not (isinstance(e, ast.Call) and A.norm(e.func) in ("InvocationContext", "type(self)", "self.__class__")):
                return False
            # (the two parts handed over as `**<a mapping built at run time>`: not written in the call, no verdict)
            if (any(k.arg is None for k in e.keywords) or any(isinstance(a_, ast.Starred) for a_ in e.args)) and held is not None and held.get("scopes"):
                # read for the values the two parts hold (R7 (c))
                return bool(held["scopes"].get(f.fi.node.name))
            ck.need(not any(k.arg is None for k in e.keywords) and not any(isinstance(a_, ast.Starred) for a_ in e.args),
                    "%s: the new context is built from the */** of a computed collection (`%s`)" % (f.qual, A.short(e, 60)))
            a0, a1 = A.arg_or_kw(e, 0, "recursive"), A.arg_or_kw(e, 1, "local")
            got = (A.norm(a0), A.norm(a1))
            upd = "self.%s.update(%s, %s)" % (changed, p[1], p[2])
            want = (upd, "self." + kept) if idx == 0 else ("self." + kept, upd)
            if got != want:
                return False
        return True

    ic_r = FA(ck, "context.InvocationContext.update_recursive")
    ic_l = FA(ck, "context.InvocationContext.update_local")
    okr = pure_update(ic_r, "recursive", "local", 0)
    okl = pure_update(ic_l, "local", "recursive", 1)
    ck.ob(R2, ic_r.key(None, "pure"), okr and okl, "context updates build a new context and touch only their own scope" if okr and okl else
          "update_recursive / update_local no longer return a new context that changes only their own scope", ic_r.where())
    # ---- R3
    sf = rl.one(rl.calls("StackFrame"), "StackFrame(...) construction")
    lp = rl.fi.params
    l_ctx = "context" if "context" in lp else lp[0]
    a0, a2 = A.arg_or_kw(sf, 0, "fn_reference_with_args"), A.arg_or_kw(sf, 2, "recursive_context")
    okf = a0 is not None and a2 is not None and ctx_text(rl, a2, rl.nodes(sf)[0]) == l_ctx + ".recursive" and rl.xnorm(a0, rl.nodes(sf)[0]) == p_ref
    ck.ob(R3, rl.key(sf, "frame-context"), okf, "the frame carries the (updated) recursive context" if okf else
          "the stack frame is not built from context.recursive of the context the runner received", rl.where(sf))
    br = FA(ck, "runner_local.LocalRunnerBackend.batch_run")
    b_ctx = "context" if "context" in br.fi.params else br.fi.params[1]
    for c in br.calls("memento_run_local"):
        cx = A.arg_or_kw(c, 0, "context")
        okc = cx is not None and bool(br.nodes(c)) and ("param:" + b_ctx) in br.deps(cx, br.nodes(c)[0]) and \
            isinstance(strip_cast(cx), (ast.Name, ast.Attribute))
        ck.ob(R3, br.key(c, "context-forwarded"), okc, "batch_run forwards the context it received" if okc else
              "batch_run does not forward its context to memento_run_local", br.where(c))
    for name, field in (("with_context_args", "context_args"), ("with_prevent_further_calls", "prevent_further_calls")):
        f = FA(ck, "base.MementoFunctionBase." + name)
        cl = [c for c in f.calls("clone_with") if f.nodes(c)]
        okw = len(cl) == 1 and A.kwarg(cl[0], "context") is not None
        if okw:
            e = strip_cast(f.expand(A.kwarg(cl[0], "context"), f.nodes(cl[0])[0]))
            if isinstance(e, ast.Call) and A.norm(e.func) == "InvocationContext" and A.norm(A.arg_or_kw(e, 1, "local")) == "self.context.local":
                # update_recursive written out: InvocationContext(self.context.recursive.update(k, v), self.context.local)
                r0 = A.arg_or_kw(e, 0, "recursive")
                if isinstance(r0, ast.Call) and A.call_attr(r0) == "update" and A.norm(A.call_recv(r0)) == "self.context.recursive":
                    e = ast.Call(func=ast.Attribute(value=ast.parse("self.context", mode="eval").body, attr="update_recursive", ctx=ast.Load()),
                                 args=list(r0.args), keywords=list(r0.keywords))
            okw = isinstance(e, ast.Call) and A.call_attr(e) == "update_recursive" and A.norm(A.call_recv(e)) == "self.context" \
                and A.const_str(A.arg_or_kw(e, 0, "key")) == field and (A.norm(strip_cast(A.arg_or_kw(e, 1, "value"))) in f.fi.params[1:] or _hands_on_its_argument(ck, f, A.arg_or_kw(e, 1, "value"), field)) \
                and len([c for c in f.calls("update_recursive") if A.const_str(A.arg_or_kw(c, 0, "key")) == field]) <= 1
            # and the clone is what the modifier returns
            okw = okw and any(r.value is not None and "call:clone_with" in f.deps(r.value) for r in f.returns() if f.nodes(r))
        ck.ob(R3, f.key(None, "clone-with-updated-context"), okw, "%s clones with the updated context" % name if okw else
              "%s does not clone the function with context.update_recursive(%r, <argument>)" % (name, field), f.where())
    cw = FA(ck, "memento.MementoFunction.clone_with")
    ctor = cw.one(cw.calls("MementoFunction"), "MementoFunction(...) in clone_with")
    kc = A.kwarg(ctor, "context")
    if kc is None and cw.nodes(ctor):
        # the constructor arguments may be handed over as a spread mapping written from a table of (requested, fallback) rows
        for k_ in ctor.keywords:
            if k_.arg is None:
                ent = spread_entries(cw, k_.value, cw.nodes(ctor)[0])
                if ent is not None and "context" in ent:
                    kc = ent["context"]
    okk = kc is not None and "context" in cw.fi.params and _default_or(cw, kc, cw.nodes(ctor)[0], "context", "self.context")
    ck.ob(R3, cw.key(ctor, "context-param"), okk, "clone_with passes the given context to the clone" if okk else
          "clone_with does not pass `context or self.context` to the clone", cw.where(ctor))

    # ---- R4: no path on which the calling frame prevents further calls reaches the dispatch (or returns normally),
    # and such a path raises RuntimeError
    ok4 = all(_all_unprevented(conds(rb, dn)) for dn in all_dn) and bool(all_dn)
    if ok4:
        ex = rb.conditions(rb.cfg.exit)
        ok4 = ex is None or _all_unprevented({canon_conj(c) for c in ex})
    if ok4:
        raises = [r for r in rb.stmts(ast.Raise) if r.exc is not None and rb.nodes(r) and
                  A.norm(r.exc.func if isinstance(r.exc, ast.Call) else r.exc) == "RuntimeError"]
        ok4 = False
        for r in raises:
            cs = conds(rb, rb.nodes(r)[0])
            if cs and all(any(_lit_truth(lit_expr(t, p)[0], lit_expr(t, p)[1], _prevented, None) for (t, p) in conj if lit_expr(t, p)[0] is not None) for conj in cs):
                ok4 = True
    if not ok4 and all_dn:
        # the same clause with the guards read for each kind of calling frame: with a frame that prevents further
        # calls no path reaches the dispatch or the normal exit, and a RuntimeError is raised for such a frame only
        M = _frame_models()
        reach_ = [c for dn in all_dn for c in conds(rb, dn)]
        ex = rb.conditions(rb.cfg.exit)
        reach_ += [canon_conj(c) for c in (ex or [])]
        ok4 = not any(_feasible_for(c, M["prevented"]) for c in reach_)
        if ok4:
            ok4 = False
            for r in [r for r in rb.stmts(ast.Raise) if r.exc is not None and rb.nodes(r) and A.norm(r.exc.func if isinstance(r.exc, ast.Call) else r.exc) == "RuntimeError"]:
                cs = conds(rb, rb.nodes(r)[0])
                if cs and any(_feasible_for(c, M["prevented"]) for c in cs) and not any(_feasible_for(c, M["none"]) or _feasible_for(c, M["free"]) for c in cs):
                    ok4 = True
    if not ok4 and all_dn:
        # the same clause once more, now with the function walked for each kind of calling frame (locals that are bound
        # differently per case, e.g. `caller_context = None` / `= calling_frame.recursive_context`, carry their values)
        runs = {k: ModelRun(rb, fr, P_CTX) for k, fr in _model_frames().items()}
        rt = [n for r in rb.stmts(ast.Raise) if r.exc is not None and A.norm(r.exc.func if isinstance(r.exc, ast.Call) else r.exc) == "RuntimeError" for n in rb.nodes(r)]
        ok4 = not runs["prevented"].reached(all_dn) and not runs["prevented"].reached([rb.cfg.exit]) and runs["prevented"].reached(rt) \
            and not runs["none"].reached(rt) and not runs["free"].reached(rt) and runs["free"].reached(all_dn) and runs["none"].reached(all_dn)
    ck.ob(R4, rb.key(None, "prevent-dominates-dispatch"), ok4, "a prevented call raises before anything is dispatched" if ok4 else
          "the prevent_further_calls check does not dominate the dispatch to the runner", rb.where())

    # ---- R5
    sibling_reference_sites(ck, R5)

    # ---- R6: the calling frame is what nested calls inherit context args and the prevent flag from, so a frame must not
    # outlive its invocation: once it is pushed, every way out of memento_run_local (an exception that memento lets
    # escape included) passes the pop, and what is pushed is the frame built for this invocation.  This is the push /
    # pop typestate of the call stack, decided by reachability on the graph in which every call may raise
    # (c10._r2: try/finally, a scope class, an exit stack, a generator context manager written out are all read).
    R6 = "C16.R6"
    ck.rule(R6, "the frame that carries a call's recursive context is on the thread's call stack for the duration of that call "
                "only: once pushed, no way out of memento_run_local (exceptions included) misses the pop", 3)
    from .c10 import _r2 as frame_typestate
    n0 = len(ck.obs)
    ck.run(frame_typestate, ck, R6)
    for o in ck.obs[n0:]:
        if o.rule == R6 and o.verdict == "violation":
            o.msg += (": the frame stays on the thread's call stack with its recursive context, so the next call on that thread takes it for "
                      "its caller - it inherits the finished call's context args (and is keyed and stored under them) or is refused because "
                      "further calls were prevented")
