"""C15 — batch evaluation equals element-wise evaluation, in order (structural part).

Decides: exactly one result slot per element on every path, in input order, returned unfiltered
(R1); pre-check alignment (R2); call_batch / map_over_range ordering (R3); non-served elements go
through the shared single-flight path (R4).
"""
import ast

from .. import astutil as A
from ..fa import FA
from .valeq import check_typed_identity

RL = "runner_local"


def _one_append_per_iteration(ck, fa: FA, loop_node, list_name, rule, tag):
    """Every path loop-head(T) -> loop-head performs exactly one <list_name>.append."""
    cfg = fa.cfg
    apps = [c for c in fa.calls("append") if A.dotted(A.call_recv(c)) == list_name and fa.inside(c, loop_node.ast)]
    app_nodes = set(fa.nodes_all(apps))
    h = loop_node.id
    starts = [d for (d, l) in cfg.succ[h] if l == "T"]
    # (a) at least one: walk without passing through an append node normally (its exception
    # edges may be followed: the append did not happen)
    seen = set()
    stack = list(starts)
    miss = False
    while stack:
        n = stack.pop()
        if n in seen:
            continue
        seen.add(n)
        if n == h:
            miss = True
            break
        for (d, l) in cfg.succ[n]:
            if n in app_nodes and l != "exc":
                continue
            stack.append(d)
    ck.paths_enumerated += 1
    ck.ob(rule, fa.key(loop_node.ast, tag + "-at-least-one"), not miss and bool(apps),
          "every iteration appends a result" if not miss and apps else
          "an iteration can reach the next element without appending a result: later results shift to wrong positions", fa.where(loop_node.ast))
    # (b) at most one: after a completed append no other append before the loop head
    twice = None
    for a in app_nodes:
        seen = set()
        stack = [d for (d, l) in cfg.succ[a] if l != "exc"]
        while stack:
            n = stack.pop()
            if n in seen or n == h:
                continue
            seen.add(n)
            if n in app_nodes:
                twice = n
                break
            for (d, l) in cfg.succ[n]:
                stack.append(d)
    ck.ob(rule, fa.key(loop_node.ast, tag + "-at-most-one"), twice is None,
          "no iteration appends twice" if twice is None else
          "an iteration can append two results for one element", fa.where(loop_node.ast))
    return apps


def _is_input_seq(fa, expr, at, param):
    """Does `expr` (a loop's sequence) denote the input list itself, in order?"""
    e = expr
    if isinstance(e, ast.Call) and A.call_attr(e) == "tqdm" and e.args:
        e = e.args[0]
    if isinstance(e, ast.Name) and e.id == param:
        return True
    if isinstance(e, ast.Name):
        ds = fa.df.reaching(at, e.id)
        return bool(ds) and all(d.value is not None and d.kind == "assign" and _is_input_seq(fa, d.value, d.node, param) for d in ds)
    return False


def _index_is_input_position(fa, idx_expr, stmt, param):
    """Is `idx_expr` (in `results[idx_expr] = ...`) a position in the input list?"""
    if isinstance(idx_expr, ast.Name):
        loop = fa.enclosing(stmt, ast.For)
        while loop is not None:
            tg = loop.target
            it = loop.iter
            nodes = fa.nodes(loop)
            at = nodes[0] if nodes else fa.cfg.entry
            if isinstance(tg, ast.Tuple) and tg.elts and isinstance(tg.elts[0], ast.Name) and tg.elts[0].id == idx_expr.id \
                    and isinstance(it, ast.Call) and A.call_attr(it) == "enumerate" and it.args:
                return _is_input_seq(fa, it.args[0], at, param)
            if isinstance(tg, ast.Name) and tg.id == idx_expr.id and isinstance(it, ast.Call) and A.call_attr(it) == "range":
                return A.norm(it) in ("range(0, len(%s))" % param, "range(len(%s))" % param)
            loop = fa.enclosing(loop, ast.For)
        return False
    if isinstance(idx_expr, ast.Subscript) and isinstance(idx_expr.value, ast.Name):
        # positions[j] where positions = [i for i in range(len(param)) if ...]
        for i in fa.nodes(stmt):
            ds = fa.df.reaching(i, idx_expr.value.id)
            if ds and all(isinstance(d.value, ast.ListComp) and A.norm(d.value.generators[0].iter) in ("range(0, len(%s))" % param, "range(len(%s))" % param)
                          and A.norm(d.value.elt) == A.norm(d.value.generators[0].target) for d in ds):
                return True
    return False


def _check_index_fills(ck, fa, R, param, result_name, tag):
    fills = []
    for st in fa.stmts(ast.Assign):
        for t in st.targets:
            if isinstance(t, ast.Subscript) and isinstance(t.value, ast.Name) and t.value.id == result_name:
                fills.append((st, t.slice))
    for (st, idx) in fills:
        ok = _index_is_input_position(fa, idx, st, param)
        ck.ob(R, fa.key(st, tag + "-slot-index"), ok, "the slot index is the element's position in the input" if ok else
              "`%s` fills slot `%s`, which is not the element's position in the input list (it counts another sequence): results are "
              "attributed to the wrong calls" % (A.short(st, 50), A.norm(idx)), fa.where(st))
    return fills


def check_slots(ck, R1):
    """One result slot per input element, at the element's position (batch runner and the
    cache/store merge of get_mementos)."""
    ck.rule(R1, "one slot per element: every path through one iteration of the batch loop (and of the cache/store merge) "
                "fills exactly one result slot, at the element's input position; the list is returned unfiltered and unsorted", 5)
    br = FA(ck, RL + ".LocalRunnerBackend.batch_run")
    inp = "fn_reference_with_args"
    # the result list is whatever local batch_run returns (its name does not matter)
    rets0 = br.returns()
    RES = rets0[0].value.id if len(rets0) == 1 and isinstance(rets0[0].value, ast.Name) else "results"
    fills = _check_index_fills(ck, br, R1, inp, RES, "batch")
    loops = [n for n in br.cfg.nodes if n.kind == "for" and isinstance(n.ast.iter, ast.Call) and A.call_attr(n.ast.iter) == "enumerate"
             and n.ast.iter.args and _is_input_seq(br, n.ast.iter.args[0], n.id, inp)]
    if len(loops) != 1:
        ck.ob(R1, br.key(None, "batch-loop"), False, "batch_run has %d loops enumerating the input list" % len(loops), br.where())
        return None, br
    loop = loops[0]
    if not fills:
        _one_append_per_iteration(ck, br, loop, RES, R1, "batch")
    else:
        # indexed form: every iteration assigns its slot or hands the element on unchanged; an
        # element that is deferred must be filled by a later loop at its own position (checked above)
        appends = [c for c in br.calls("append") if A.dotted(A.call_recv(c)) == RES]
        ck.ob(R1, br.key(loop.ast, "batch-no-mixed-forms"), not appends, "slots are filled by index only" if not appends else
              "results are filled both by index and by append", br.where(loop.ast))
    rets = br.returns()
    okr = len(rets) == 1 and isinstance(rets[0].value, ast.Name)
    ck.ob(R1, br.key(None, "returned-as-is"), okr, "results are returned unfiltered, in slot order" if okr else
          "batch_run does not return the plain results list", br.where())
    muts = [c for c in br.calls() if A.dotted(A.call_recv(c)) == RES and A.call_attr(c) in ("sort", "reverse", "insert", "pop", "remove", "extend", "clear")]
    ck.ob(R1, br.key(None, "no-reordering"), not muts, "results is only filled, never reordered" if not muts else
          "results is reordered or edited (%s)" % A.short(muts[0], 40), br.where(muts[0] if muts else None))
    # the element handler turns an exception into that element's slot
    trs = [t for t in br.stmts(ast.Try) if any(A.call_attr(c) == "memento_run_local" for b in t.body for c in A.calls_in(b))]
    okh = False
    for t in trs:
        for h in t.handlers:
            if h.type is not None and A.norm(h.type) == "Exception" and h.name:
                st_ = [n for n in A.walk_local(h) if (isinstance(n, ast.Call) and A.call_attr(n) == "append" and n.args and A.norm(n.args[0]) == h.name)
                       or (isinstance(n, ast.Assign) and isinstance(n.targets[0], ast.Subscript) and A.norm(n.targets[0].value) == RES and A.norm(n.value) == h.name)]
                if st_:
                    okh = True
    ck.ob(R1, br.key(loop.ast, "failure-in-slot"), okh, "a failing element's exception (of any class) is stored in its own slot" if okh else
          "an element's exception is not caught as `Exception` and stored in its slot: an error raised while running one element aborts or shifts the batch", br.where(loop.ast))
    # ---- merge in get_mementos
    gm = FA(ck, "storage_base.StorageBackendBase.get_mementos")
    # roles: RESG = the returned list; QR = what the metadata source answered for QF; QF = the list of
    # misses; CACHE = the per-position cache answers; the cursor is the counter indexing QR
    gr = gm.returns()
    rnames = sorted({r.value.id for r in gr if isinstance(r.value, ast.Name)})
    RESG = rnames[0] if len(rnames) == 1 else "results"
    qcalls = [c for c in gm.calls("get_mementos") if A.norm(A.call_recv(c)) == "self._metadata_source"]
    gm.some(qcalls, "metadata-source get_mementos call")
    bound = [c for c in qcalls if isinstance(gm.stmt_of(c), ast.Assign) and gm.stmt_of(c).value is c and isinstance(gm.stmt_of(c).targets[0], ast.Name)]
    qcall = bound[0] if len(bound) == 1 else None
    QF = qcall.args[0].id if qcall is not None and qcall.args and isinstance(qcall.args[0], ast.Name) else None
    QR = gm.stmt_of(qcall).targets[0].id if qcall is not None else None
    ccalls = [c for c in gm.calls("get_mementos") if A.norm(A.call_recv(c)) == "self._memory_cache"]
    cst = gm.stmt_of(ccalls[0]) if ccalls else None
    CACHE = cst.targets[0].id if isinstance(cst, ast.Assign) and isinstance(cst.targets[0], ast.Name) else None
    gfills = _check_index_fills(ck, gm, R1, "fns", RESG, "merge")
    mloops = [n for n in gm.cfg.nodes if n.kind == "for" and not isinstance(gm.pm.get(n.ast), ast.comprehension) and A.norm(n.ast.iter) in ("range(0, len(fns))", "range(len(fns))")]
    if not gfills:
        if len(mloops) != 1:
            ck.ob(R1, gm.key(None, "merge-loop"), False, "get_mementos has no single merge loop over the input positions", gm.where())
        else:
            ml = mloops[0]
            lv = ml.ast.target.id if isinstance(ml.ast.target, ast.Name) else None
            _one_append_per_iteration(ck, gm, ml, RESG, R1, "merge")
            uses = [n for n in A.walk_local(ml.ast) if isinstance(n, ast.Subscript) and A.norm(n.value) == QR and isinstance(n.slice, ast.Name)]
            cursor = uses[0].slice.id if uses else None
            incs = [s_ for s_ in gm.stmts(ast.AugAssign) if isinstance(s_.target, ast.Name) and s_.target.id == cursor
                    and isinstance(s_.op, ast.Add) and A.norm(s_.value) == "1"]
            oki = len(incs) == 1 and QR is not None and CACHE is not None
            if oki:
                g_inc = gm.enclosing(incs[0], ast.If)
                g_use = gm.enclosing(uses[0], ast.If) if uses else None
                miss_test = g_inc is not None and isinstance(g_inc.test, ast.Compare) and isinstance(g_inc.test.ops[0], ast.Is) \
                    and A.norm(g_inc.test.comparators[0]) == "None" and gm.xnorm(g_inc.test.left, gm.nodes(g_inc.test)[0]) == "%s[%s]" % (CACHE, lv)
                oki = bool(uses) and g_inc is g_use and g_inc is not None and incs[0] in g_inc.body and miss_test \
                    and all(gm.cfg.must_pass(gm.nodes(uses[0]), i) for i in gm.nodes(incs[0]))
            ck.ob(R1, gm.key(None, "miss-counter"), oki, "the store-result cursor advances exactly on cache misses" if oki else
                  "the cursor into the store results does not advance exactly once per cache miss: results are attributed to the wrong calls", gm.where())
            qf = [s_ for s_ in gm.stmts(ast.Assign) if QF is not None and any(isinstance(t, ast.Name) and t.id == QF for t in s_.targets)]
            okq = False
            if len(qf) == 1 and isinstance(qf[0].value, ast.ListComp) and len(qf[0].value.generators) == 1:
                g_ = qf[0].value.generators[0]
                cv = g_.target.id if isinstance(g_.target, ast.Name) else None
                okq = A.norm(g_.iter) in ("range(0, len(fns))", "range(len(fns))") and [A.norm(c) for c in g_.ifs] == ["%s[%s] is None" % (CACHE, cv)] \
                    and A.norm(qf[0].value.elt) == "fns[%s]" % cv
            ck.ob(R1, gm.key(None, "miss-list"), okq, "the store is queried for exactly the cache misses, in order" if okq else
                  "the list of store queries is not exactly the cache misses in input order", gm.where())
    return loop, br


def check_batch_goes_through_runner(ck, R):
    """call_batch / call decide nothing themselves: every element is handed to memento_run_batch, and an
    outcome (value or failure) is only ever taken from what that call returned.  A front end that asks the
    store first (a fail-fast on memoized failures, a shortcut for memoized values) raises / returns for
    one element before the earlier ones were computed — not what element-wise calls in order give."""
    for q in ("base.MementoFunctionBase.call_batch", "base.MementoFunctionBase.call"):
        fa = FA(ck, q)
        runs = fa.nodes_all(fa.calls("memento_run_batch"))
        ck.need(runs, "%s: memento_run_batch call not found" % q)
        store_calls = [c for c in fa.calls() if isinstance(c.func, ast.Attribute) and (A.dotted(c.func.value) or "").split(".")[0] in ("storage_backend", "storage")
                       or A.call_attr(c) == "process_existing_memento"]
        ck.ob(R, fa.key(None, "no-store-access-in-front-end"), not store_calls,
              "the front end does not consult the store itself" if not store_calls else
              "`%s`: %s consults the store outside the runner, so an element can be answered (or a memoized failure raised) before the elements "
              "in front of it were computed" % (A.short(store_calls[0], 60), q.split(".")[-1]), fa.where(store_calls[0]) if store_calls else fa.where())
        for r in fa.stmts(ast.Raise):
            if r.exc is None or (isinstance(r.exc, ast.Call) and isinstance(r.exc.func, ast.Name) and r.exc.func.id[:1].isupper()):
                continue  # argument validation raises a freshly constructed error
            ok = all(fa.cfg.must_pass(runs, i) for i in fa.nodes(r)) and any(x.startswith("call:memento_run_batch") for x in fa.deps(r.exc))
            ck.ob(R, fa.key(r, "raise-after-run"), ok, "an element's exception is raised only after the whole batch went through the runner" if ok else
                  "`%s` can run before / without memento_run_batch: the exception raised is not the first one of an in-order evaluation"
                  % A.short(r, 50), fa.where(r))


def check(ck):
    from .memo import check_new_memo_tables
    ck.run(check_new_memo_tables, ck, "C15.M1", ('runner_local', 'base', 'storage_base'))
    ck.rule("C15.R6", "call / call_batch hand every element to memento_run_batch and take outcomes only from its result", 4)
    ck.run(check_batch_goes_through_runner, ck, "C15.R6")
    R1, R2, R3, R4 = ("C15.R%d" % i for i in range(1, 5))
    ck.rule(R2, "alignment: the bulk pre-check is a comprehension over the same sequence, in the same order, that the "
                "loop enumerates; existing mementos are indexed with the loop index", 3)
    ck.rule(R3, "call_batch builds one reference per kwargs in order and raises the first exception; map_over_range "
                "pairs values and results by the same index", 4)
    ck.rule(R4, "an element without a valid served result goes through memento_run_local", 1)

    loop, br = check_slots(ck, R1)
    if loop is None:
        return

    # ---- R2
    pre = br.one([c for c in br.calls("get_mementos")], "bulk get_mementos call")
    arg = pre.args[0] if pre.args else None
    ok2 = isinstance(arg, ast.ListComp) and len(arg.generators) == 1 and not arg.generators[0].ifs \
        and A.norm(arg.generators[0].iter) == "fn_reference_with_args" and A.norm(arg.elt) == "%s.fn_reference_with_arg_hash()" % A.norm(arg.generators[0].target)
    ck.ob(R2, br.key(pre, "precheck-sequence"), ok2, "pre-check covers every element, in input order" if ok2 else
          "the bulk pre-check is not a plain comprehension over the input sequence (filtered, sorted or reordered)", br.where(pre))
    it = loop.ast.iter
    seq = it.args[0] if isinstance(it, ast.Call) and it.args else None
    src = set()
    if seq is not None:
        for i in [loop.id]:
            ch = br.df.deps(seq, i)
            src = ch
    ok3 = "param:fn_reference_with_args" in src and not any(d in src for d in ("call:sorted", "call:reversed", "call:set", "call:filter"))
    ck.ob(R2, br.key(loop.ast, "loop-sequence"), ok3, "the loop enumerates the input sequence (optionally wrapped for progress display)" if ok3 else
          "the loop does not enumerate the input sequence in order", br.where(loop.ast))
    idx = loop.ast.target.elts[0].id if isinstance(loop.ast.target, ast.Tuple) else None
    pst = br.stmt_of(pre)
    EM = pst.targets[0].id if isinstance(pst, ast.Assign) and isinstance(pst.targets[0], ast.Name) and pst.value is pre else None  # the bulk answer
    subs = [n for n in A.walk_local(loop.ast) if isinstance(n, ast.Subscript) and EM is not None and A.norm(n.value) == EM]
    ok4 = bool(subs) and all(A.norm(s.slice) == idx for s in subs)
    ck.ob(R2, br.key(loop.ast, "indexing"), ok4, "existing mementos are read at the loop index" if ok4 else
          "existing mementos are not indexed with the loop index", br.where(loop.ast))
    emr = [c for c in br.calls("process_existing_memento")]
    ok5 = bool(emr) and idx is not None and all(len(c.args) >= 2 and br.xnorm(c.args[1], br.nodes(c)[0]).startswith("storage_backend.get_mementos(")
                                                and br.xnorm(c.args[1], br.nodes(c)[0]).endswith(")[%s]" % idx) for c in emr)
    ck.ob(R2, br.key(None, "served-from-own-memento"), ok5, "an element is served from its own memento" if ok5 else
          "process_existing_memento is not given the element's own memento", br.where())

    # ---- R3
    cb = FA(ck, "base.MementoFunctionBase.call_batch")
    fns = [s for s in cb.stmts(ast.Assign) if isinstance(s.value, ast.ListComp) and any(A.call_attr(c) == "FunctionReferenceWithArguments" for c in A.calls_in(s.value))]
    ok6 = len(fns) == 1 and A.norm(fns[0].value.generators[0].iter) == "kwargs_list" and not fns[0].value.generators[0].ifs
    if ok6:
        ctor = [c for c in A.calls_in(fns[0].value) if A.call_attr(c) == "FunctionReferenceWithArguments"][0]
        kw = A.kwarg(ctor, "kwargs") or (ctor.args[2] if len(ctor.args) > 2 else None)
        ok6 = kw is not None and A.norm(kw) == A.norm(fns[0].value.generators[0].target)
    ck.ob(R3, cb.key(fns[0] if fns else None, "refs-in-order"), ok6, "one reference per kwargs, in order" if ok6 else
          "call_batch does not build exactly one reference per kwargs in input order", cb.where())
    run = cb.one(cb.calls("memento_run_batch"), "memento_run_batch call")
    okb = A.kwarg(run, "fn_reference_with_args") is not None and A.norm(A.kwarg(run, "fn_reference_with_args")) == (A.norm(fns[0].targets[0]) if fns else "")
    ck.ob(R3, cb.key(run, "dispatch"), okb, "the whole list is dispatched as one batch" if okb else
          "call_batch does not dispatch the list it built", cb.where(run))
    raises = [r for r in cb.stmts(ast.Raise) if r.exc is not None and isinstance(r.exc, ast.Name)]
    ok7 = False
    for r in raises:
        lp = cb.enclosing(r, ast.For)
        g = cb.enclosing(r, ast.If)
        outer = cb.enclosing(lp, ast.If) if lp is not None else None
        if lp is not None and cb.xnorm(lp.iter, cb.nodes(lp)[0]).startswith("memento_run_batch(") and g is not None and A.norm(g.test) == "isinstance(%s, Exception)" % r.exc.id \
                and A.norm(lp.target) == r.exc.id \
                and outer is not None and A.norm(outer.test) == "raise_first_exception":
            ok7 = True
    ck.ob(R3, cb.key(None, "first-exception"), ok7, "with raise_first_exception the first exception in input order is raised" if ok7 else
          "call_batch does not raise the first exception (in input order) iff raise_first_exception", cb.where())
    rv = cb.returns()
    ok8 = bool(rv) and all(r.value is not None and cb.xnorm(r.value).startswith("memento_run_batch(") for r in rv)
    ck.ob(R3, cb.key(None, "returns-batch-result"), ok8, "the batch result list is returned as is" if ok8 else
          "call_batch does not return the runner's result list unchanged", cb.where())
    mr = FA(ck, "base.MementoFunctionBase.map_over_range")
    ret = mr.one(mr.returns(), "return")
    ok9 = False
    if isinstance(ret.value, ast.DictComp) and len(ret.value.generators) == 1 and isinstance(ret.value.generators[0].target, ast.Name) \
            and isinstance(ret.value.key, ast.Subscript) and isinstance(ret.value.value, ast.Subscript) \
            and isinstance(ret.value.key.value, ast.Name) and isinstance(ret.value.value.value, ast.Name):
        iv = ret.value.generators[0].target.id
        VL, RL_ = ret.value.key.value.id, ret.value.value.value.id   # the evaluated values / their results
        at = mr.nodes(ret)[0]
        ok9 = A.norm(ret.value.key.slice) == iv and A.norm(ret.value.value.slice) == iv and not ret.value.generators[0].ifs \
            and A.norm(ret.value.generators[0].iter) in ("range(0, len(%s))" % VL, "range(len(%s))" % VL)
        # RL_ is call_batch(<one kwargs per element of VL, in order>), VL a list made once from the input
        rd = mr.df.reaching(at, RL_)
        vd = mr.df.reaching(at, VL)
        ok9 = ok9 and len(rd) == 1 and isinstance(rd[0].value, ast.Call) and A.call_attr(rd[0].value) == "call_batch" and len(vd) == 1 \
            and isinstance(vd[0].value, ast.Call) and A.norm(vd[0].value.func) == "list"
        if ok9:
            arg = rd[0].value.args[0] if rd[0].value.args else None
            te = mr.df.reaching(rd[0].node, arg.id) if isinstance(arg, ast.Name) else []
            lc = te[0].value if len(te) == 1 else arg
            ok9 = isinstance(lc, ast.ListComp) and len(lc.generators) == 1 and A.norm(lc.generators[0].iter) == VL and not lc.generators[0].ifs
    ck.ob(R3, mr.key(None, "pairing"), ok9, "values and results are paired by the same index" if ok9 else
          "map_over_range does not pair value_list[i] with result_list[i] for the list it evaluated", mr.where(ret))

    # ---- R4
    runs = br.calls("memento_run_local")
    vt = [n.id for n in br.cfg.nodes if n.kind == "test" and A.norm(n.ast).endswith(".valid_result")]
    # on the not-valid edge every path to the next iteration passes memento_run_local
    ok10 = bool(runs) and bool(vt)
    if ok10:
        rn = set(br.nodes_all(runs))
        for t in vt:
            starts = [d for (d, l) in br.cfg.succ[t] if l == "F"]
            live = br.cfg.reach(starts, removed=rn)
            if loop.id in live:
                ok10 = False
    ck.ob(R4, br.key(loop.ast, "not-served-runs"), ok10, "a non-served element runs through memento_run_local (per-call mutex, re-check)" if ok10 else
          "an element without a valid served result can skip memento_run_local", br.where(loop.ast))
    rl = FA(ck, RL + ".memento_run_local")
    lk = rl.calls("get_memento")
    okl = bool(lk) and all(rl.unconditional(c) for c in lk) and all(rl.cfg.must_pass(rl.nodes_all(lk), i) for i in rl.nodes_all(rl.calls("_filter_call")))
    ck.ob(R4, rl.key(None, "recheck-unconditional"), okl, "memento_run_local looks the call up again, unconditionally, before running the body" if okl else
          "memento_run_local can skip its own store lookup (it trusts an earlier bulk query): an element memoized by an earlier element of the "
          "same batch (duplicate, or a callee) runs its body again", rl.where(lk[0] if lk else None))
    for c in runs:
        okc = A.kwarg(c, "fn_reference_with_args") is not None and A.norm(A.kwarg(c, "fn_reference_with_args")) == A.norm(loop.ast.target.elts[1])
        ck.ob(R4, br.key(c, "element"), okc, "memento_run_local receives the loop element" if okc else
              "memento_run_local is not called with the current element", br.where(c))
    ck.run(check_typed_identity, ck, "C15.R5", ("base", "runner_local"))
