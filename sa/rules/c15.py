"""C15 — batch evaluation equals element-wise evaluation, in order (structural part).

Decides: exactly one result slot per element on every path, in input order, returned unfiltered
(R1); pre-check alignment (R2); call_batch / map_over_range ordering (R3); non-served elements go
through the shared single-flight path (R4).

The rules are phrased over *roles*, not spellings: a sequence is classified by where it comes from
("the input list", "the bulk answer for the input list", "the cache's answer"), a loop by what it walks
("one iteration per input position, in order" — `for i in range(len(xs))`, `for x in xs`, `enumerate`,
`zip` alike), an expression by which sequence's element of the current position it denotes, a branch
edge by the fact it establishes ("this element was a cache miss", "there is no calling frame").
"""
import ast
import copy

from .. import astutil as A
from ..fa import FA
from ..loader import AnalysisError
from .valeq import check_typed_identity

RL = "runner_local"
MUTATORS = ("sort", "reverse", "insert", "pop", "remove", "extend", "clear")


# =================================================================================================
# role-based helpers (shared with c10)
# =================================================================================================

def expand_alias(fa, expr, at, depth=12, _stack=()):
    """Like FA.expand, but a name that was updated in place (`x |= ...`, `x += ...`) after its one plain
    assignment still expands to that assignment's value — it still denotes the same mutable object — and the
    root may be a Store-context name (an augmented assignment's target)."""
    bound = set()
    for x in ast.walk(expr):
        if isinstance(x, ast.comprehension):
            bound |= {n.id for n in ast.walk(x.target) if isinstance(n, ast.Name)}
        if isinstance(x, ast.Lambda):
            bound |= {a.arg for a in x.args.args + x.args.kwonlyargs + x.args.posonlyargs}

    class T(ast.NodeTransformer):
        def visit_Name(self, n):
            if n.id in bound or depth <= 0:
                return n
            ds = [d for d in fa.df.reaching(at, n.id) if d.kind != "aug"]
            if len(ds) != 1:
                return n
            d = ds[0]
            if d.kind != "assign" or d.value is None or (d.node, d.name) in _stack:
                return n
            return expand_alias(fa, d.value, d.node, depth - 1, _stack + ((d.node, d.name),))

    e = copy.deepcopy(expr)
    for x in ast.walk(e):
        if isinstance(x, ast.Name):
            x.ctx = ast.Load()
    return T().visit(e)


def alias_text(fa, expr, at):
    return A.norm(expand_alias(fa, expr, at))


def origins(fa, expr, at, _seen=None, depth=12):
    """What `expr` (evaluated at CFG node `at`) may denote: [(leaf expression, node id)], following local names
    through ALL their reaching plain assignments and conditional expressions through both arms.  A name bound
    otherwise (parameter, loop / with / except / unpacking target, augmented) is its own leaf."""
    seen = _seen if _seen is not None else set()
    e = expr
    if isinstance(e, ast.IfExp):
        return origins(fa, e.body, at, seen, depth) + origins(fa, e.orelse, at, seen, depth)
    if isinstance(e, ast.Name) and depth > 0:
        ds = fa.df.reaching(at, e.id)
        if ds and all(d.kind == "assign" and d.value is not None for d in ds):
            out = []
            for d in ds:
                if (d.node, d.name) in seen:
                    continue
                seen.add((d.node, d.name))
                out += origins(fa, d.value, d.node, seen, depth - 1)
            return out
    return [(e, at)]


def ast_atoms(t, positive=True):
    """A branch test taken with the given polarity as a list of facts: ('none', expr, b) = "(expr is None) == b",
    ('truth', expr, b) = "bool(expr) == b".  A conjunction taken true / a disjunction taken false splits into its
    parts; a conjunction taken false establishes nothing about its parts (it stays one opaque fact)."""
    if isinstance(t, ast.UnaryOp) and isinstance(t.op, ast.Not):
        return ast_atoms(t.operand, not positive)
    if isinstance(t, ast.NamedExpr):
        return ast_atoms(t.value, positive)   # `(x := E)` is tested for what E is
    if isinstance(t, ast.BoolOp):
        if (isinstance(t.op, ast.And) and positive) or (isinstance(t.op, ast.Or) and not positive):
            out = []
            for v in t.values:
                out += ast_atoms(v, positive)
            return out
        return [("truth", t, positive)]
    if isinstance(t, ast.Compare) and len(t.ops) == 1 and isinstance(t.ops[0], (ast.Is, ast.IsNot, ast.Eq, ast.NotEq)):
        l, r = t.left, t.comparators[0]
        if A.is_none(l):
            l, r = r, l
        if A.is_none(r):
            is_ = isinstance(t.ops[0], (ast.Is, ast.Eq))
            if isinstance(l, ast.NamedExpr):
                l = l.value
            return [("none", l, positive if is_ else not positive)]
    return [("truth", t, positive)]


def edges_implying(fa, pred):
    """{(test node id, 'T'|'F')}: the branch edges on which some established fact satisfies
    pred(kind, expr, value, node id)."""
    out = set()
    for n in fa.cfg.nodes:
        if n.kind != "test" or n.ast is None:
            continue
        for lab, pos in (("T", True), ("F", False)):
            for (k, e, b) in ast_atoms(n.ast, pos):
                try:
                    if pred(k, e, b, n.id):
                        out.add((n.id, lab))
                        break
                except AnalysisError:
                    continue
    return out


def absent_edges(fa, is_it):
    """Edges establishing that the object `is_it(expr, node)` recognises is absent (None / falsy)."""
    return edges_implying(fa, lambda k, e, b, n: ((k == "none" and b) or (k == "truth" and not b)) and is_it(e, n))


def present_edges(fa, is_it):
    return edges_implying(fa, lambda k, e, b, n: ((k == "none" and not b) or (k == "truth" and b)) and is_it(e, n))


def not_edges(edges):
    return lambda s, d, l: (s, l) not in edges


FRAME = "CallStack.get().get_calling_frame()"


def is_calling_frame(fa):
    def f(e, n):
        return fa.xnorm(e, n) == FRAME
    return f


def single_item(e):
    """x for a one-element list / tuple display [x] / (x,)."""
    if isinstance(e, (ast.List, ast.Tuple)) and len(e.elts) == 1 and not isinstance(e.elts[0], ast.Starred):
        return e.elts[0]
    return None


def rebinds_local(fa, st):
    """Was the augmented assignment `st` (on a plain local) written `x = x <op> e` in the source?  The canonical form
    turns that spelling into `x <op>= e`, but for a list / set the two differ: `x |= e` grows the object `x` names —
    the caller's own set, when `x` is an alias of it — while `x = x | e` builds a new object and only rebinds the
    local.  Decided on the syntax tree of the module as written (same position, an Assign there)."""
    if not (isinstance(st, ast.AugAssign) and isinstance(st.target, ast.Name) and hasattr(st, "lineno")):
        return False
    mod = fa.fi.module
    idx = mod.__dict__.get("_raw_assign_index")
    if idx is None:
        idx = {}
        try:
            for n in ast.walk(ast.parse(mod.source)):
                if isinstance(n, (ast.Assign, ast.AugAssign)):
                    idx.setdefault((n.lineno, n.col_offset), n)
        except SyntaxError:
            pass
        mod.__dict__["_raw_assign_index"] = idx
    raw = idx.get((st.lineno, st.col_offset))
    return isinstance(raw, ast.Assign) and len(raw.targets) == 1 and isinstance(raw.targets[0], ast.Name) and raw.targets[0].id == st.target.id


def unwrap_copy(e):
    """X for a plain copy of a collection: list(X), set(X), tuple(X), frozenset(X), sorted(X), X.copy()."""
    while True:
        if isinstance(e, ast.Call) and isinstance(e.func, ast.Name) and e.func.id in ("list", "set", "tuple", "frozenset", "sorted") and len(e.args) == 1 \
                and not e.keywords and not isinstance(e.args[0], ast.Starred):
            e = e.args[0]
        elif isinstance(e, ast.Call) and isinstance(e.func, ast.Attribute) and e.func.attr == "copy" and not e.args and not e.keywords:
            e = e.func.value
        else:
            return e


def choose(fa, e, at, atom, _depth=0):
    """(expression, node) that `e` denotes at `at` when the atomic tests have the values `atom` gives them: locals bound
    once are followed, a conditional expression is resolved to the arm its test selects."""
    while _depth < 12:
        _depth += 1
        if isinstance(e, ast.IfExp):
            v = eval3(fa, e.test, at, atom)
            if v is None:
                return e, at
            e = e.body if v else e.orelse
            continue
        if isinstance(e, ast.Name):
            e2, at2 = bound_value(fa, e, at, depth=1)
            if e2 is e:
                return e, at
            e, at = e2, at2
            continue
        break
    return e, at


def presence_atom(is_it, val):
    """Atom: tests of the object `is_it(expr, node)` recognises — truthiness, `is None`, `is not None` — say it is
    present (val=True) / absent (val=False)."""
    def f(t, n):
        nt = none_test(t)
        x, v = (nt[0], (not nt[1]) == val) if nt is not None else (t, val)
        if isinstance(x, ast.NamedExpr):
            x = x.value
        try:
            if isinstance(x, (ast.Name, ast.Attribute, ast.Call)) and is_it(x, n):
                return v
        except AnalysisError:
            pass
        return None
    return f


class Push:
    """One place that puts exactly one more element at the end of a list: `r.append(x)`, `r += [x]`, `r.extend([x])`,
    `r.insert(len(r), x)`.  node = the call / the augmented assignment (what obligations are keyed on and where the
    CFG evaluates it), recv = the list expression, elem = the element expression."""
    __slots__ = ("node", "recv", "elem")

    def __init__(self, node, recv, elem):
        self.node, self.recv, self.elem = node, recv, elem


def pushes(fa, name=None):
    """Every Push of the function (on the local list `name`, when given)."""
    out = []
    for c in fa.calls():
        f = c.func
        if not isinstance(f, ast.Attribute) or c.keywords or any(isinstance(a, ast.Starred) for a in c.args):
            continue
        if f.attr == "append" and len(c.args) == 1:
            out.append(Push(c, f.value, c.args[0]))
        elif f.attr == "extend" and len(c.args) == 1 and single_item(c.args[0]) is not None:
            out.append(Push(c, f.value, single_item(c.args[0])))
        elif f.attr == "insert" and len(c.args) == 2 and isinstance(c.args[0], ast.Call) and isinstance(c.args[0].func, ast.Name) \
                and c.args[0].func.id == "len" and len(c.args[0].args) == 1 and A.norm(c.args[0].args[0]) == A.norm(f.value):
            out.append(Push(c, f.value, c.args[1]))
    for st in fa.stmts(ast.AugAssign):
        if isinstance(st.op, ast.Add) and single_item(st.value) is not None and not rebinds_local(fa, st):
            out.append(Push(st, st.target, single_item(st.value)))
    if name is not None:
        out = [p for p in out if A.dotted(p.recv) == name]
    return [p for p in out if fa.nodes(p.node)]


def other_edits(fa, name):
    """Statements that change the local list `name` otherwise than by one Push: other method calls that edit a list,
    `name += <several>`, stores into / deletions of its slots."""
    own = {id(p.node) for p in pushes(fa, name)}
    out = [c for c in fa.calls() if A.dotted(A.call_recv(c)) == name and id(c) not in own and A.call_attr(c) in MUTATORS + ("append",)]
    for st in fa.stmts((ast.Assign, ast.AugAssign, ast.Delete)):
        if isinstance(st, ast.AugAssign) and A.dotted(st.target) == name and id(st) not in own:
            out.append(st)
        for t in (st.targets if isinstance(st, (ast.Assign, ast.Delete)) else [st.target]):
            if isinstance(t, ast.Subscript) and A.dotted(t.value) == name:
                out.append(st)
    return out


class Sense:
    """Reachability that keeps track of what is known about a few locals along the way — None / not None / truthy /
    falsy-but-not-None — so that two tests of the same local (or of a local and the one it was copied from) are not
    taken against each other:  `rec = None ... if hit: rec = stored ... if rec is None: continue`.
    The locals tracked are those some branch test reads directly; anything else about the path is ignored, so what is
    reachable here is a superset of what can really happen and a subset of plain CFG reachability."""

    N, Z, T, NN, U = "none", "falsy", "truthy", "notnone", "unknown"

    def __init__(self, fa, limit=8):
        self.fa = fa
        names = set()
        for nd in fa.cfg.nodes:
            if nd.kind == "test" and nd.ast is not None:
                for pos in (True, False):
                    for (_k, e, _b) in ast_atoms(nd.ast, pos):
                        if isinstance(e, ast.Name):
                            names.add(e.id)
        # only locals whose bindings say something: at least one binding to a constant / another tracked local
        self.names = sorted(names)[:limit] if len(names) <= limit else []
        self.index = {n: i for i, n in enumerate(self.names)}

    # ---- abstract values ------------------------------------------------------------------------------------
    def value_of(self, e, env):
        if isinstance(e, ast.Constant):
            return self.N if e.value is None else (self.T if e.value else self.Z)
        if isinstance(e, ast.Name) and e.id in self.index:
            return env[self.index[e.id]]
        if isinstance(e, ast.NamedExpr):
            return self.value_of(e.value, env)
        if isinstance(e, (ast.List, ast.Tuple, ast.Set, ast.Dict)):
            n = len(e.keys) if isinstance(e, ast.Dict) else len(e.elts)
            return self.T if n else self.Z
        if isinstance(e, ast.Call) and isinstance(e.func, ast.Name) and e.func.id[:1].isupper():
            return self.NN      # an instance
        if isinstance(e, (ast.Compare, ast.JoinedStr, ast.Lambda, ast.ListComp, ast.SetComp, ast.DictComp, ast.GeneratorExp)):
            return self.NN
        if isinstance(e, ast.IfExp):
            a, b = self.value_of(e.body, env), self.value_of(e.orelse, env)
            if a == b:
                return a
            return self.NN if {a, b} <= {self.T, self.Z, self.NN} else self.U
        return self.U

    def truth(self, e, env):
        """Three-valued truth of a test under `env`."""
        def atom(t, _n):
            nt = none_test(t)
            if nt is not None:
                v = self.value_of(nt[0], env) if isinstance(nt[0], (ast.Name, ast.NamedExpr)) else self.U
                if v == self.N:
                    return nt[1]
                if v in (self.Z, self.T, self.NN):
                    return not nt[1]
                return None
            if isinstance(t, (ast.Name, ast.NamedExpr)):
                v = self.value_of(t, env)
                return True if v == self.T else (False if v in (self.N, self.Z) else None)
            return None
        return _eval3_plain(e, atom)

    def refine(self, test, positive, env):
        env = list(env)
        for (k, e, b) in ast_atoms(test, positive):
            if not (isinstance(e, ast.Name) and e.id in self.index):
                continue
            i = self.index[e.id]
            v = env[i]
            if k == "none":
                env[i] = self.N if b else (self.NN if v == self.U else v)
            elif b:
                env[i] = self.T
            else:
                env[i] = self.Z if v == self.NN else v
        return tuple(env)

    def after(self, n, env):
        """Environment after node `n` ran."""
        ds = [d for d in self.fa.df.gen.get(n, []) if d.name in self.index]
        if not ds:
            return env
        new = list(env)
        for d in ds:
            new[self.index[d.name]] = self.value_of(d.value, env) if d.kind == "assign" and d.value is not None else self.U
        return tuple(new)

    # ---- exploration -----------------------------------------------------------------------------------------
    def reach(self, starts, removed=(), edge_ok=None, include_start=True):
        cfg = self.fa.cfg
        if not self.names:
            return cfg.reach(starts, removed=removed, edge_ok=edge_ok, include_start=include_start)
        removed = set(removed)
        top = tuple(self.U for _ in self.names)
        seen = set()
        stack = []

        def step(n, env):
            nd = cfg.node(n)
            is_test = nd.kind == "test" and nd.ast is not None
            # bindings made by the test itself (walrus) happen before the branch is taken
            out_env = self.after(n, env)
            for (d, l) in cfg.succ[n]:
                if d in removed or (edge_ok is not None and not edge_ok(n, d, l)):
                    continue
                e2 = out_env
                if is_test and l in ("T", "F"):
                    v = self.truth(nd.ast, out_env)
                    if v is not None and v != (l == "T"):
                        continue
                    e2 = self.refine(nd.ast, l == "T", out_env)
                if (d, e2) not in seen:
                    stack.append((d, e2))
        for s_ in starts:
            if include_start:
                if s_ not in removed:
                    stack.append((s_, top))
            else:
                step(s_, top)
        while stack:
            st = stack.pop()
            if st in seen:
                continue
            seen.add(st)
            step(*st)
        return {n for (n, _e) in seen}


def _eval3_plain(t, atom):
    v = atom(t, None)
    if v is not None:
        return v
    if isinstance(t, ast.UnaryOp) and isinstance(t.op, ast.Not):
        x = _eval3_plain(t.operand, atom)
        return None if x is None else not x
    if isinstance(t, ast.BoolOp):
        vs = [_eval3_plain(x, atom) for x in t.values]
        dom = isinstance(t.op, ast.Or)
        if any(x is dom for x in vs):
            return dom
        return (not dom) if all(x is (not dom) for x in vs) else None
    return None


def sense(fa):
    """The function's Sense (one per FA)."""
    s_ = fa.__dict__.get("_sense")
    if s_ is None:
        s_ = fa.__dict__["_sense"] = Sense(fa)
    return s_


def none_test(t):
    """(X, b) for a comparison that says "(X is None) == b", else None."""
    if isinstance(t, ast.Compare) and len(t.ops) == 1 and isinstance(t.ops[0], (ast.Is, ast.IsNot, ast.Eq, ast.NotEq)):
        l, r = t.left, t.comparators[0]
        if A.is_none(l):
            l, r = r, l
        if A.is_none(r):
            return l, isinstance(t.ops[0], (ast.Is, ast.Eq))
    return None


def all_defs(fa, name):
    """Every binding of a local name in the function (one per binding statement)."""
    out = {}
    for ds in fa.df.gen.values():
        for d in ds:
            if d.name == name:
                out.setdefault(id(d.stmt), d)
    return list(out.values())


def heads_of(fa, loop_ast):
    """All CFG nodes of one `for` statement (flag threading may have split it)."""
    live = fa.cfg.reachable_nodes()
    return [n.id for n in fa.cfg.nodes if n.kind == "for" and n.ast is loop_ast and n.id in live]


def body_starts(fa, heads):
    return [d for h in heads for (d, l) in fa.cfg.succ[h] if l == "T"]


def spread_copy(e):
    """xs for `[*xs]` / `(*xs,)` / `[x for x in xs]`: a new list / tuple of the elements of xs, in order."""
    if isinstance(e, (ast.List, ast.Tuple)) and isinstance(e.ctx, ast.Load) and len(e.elts) == 1 and isinstance(e.elts[0], ast.Starred):
        return e.elts[0].value
    if isinstance(e, ast.ListComp) and len(e.generators) == 1 and not e.generators[0].ifs and not e.generators[0].is_async \
            and isinstance(e.elt, ast.Name) and isinstance(e.generators[0].target, ast.Name) and e.elt.id == e.generators[0].target.id:
        return e.generators[0].iter
    return None


class Seqs:
    """Classifies sequences of one function by origin.  role(e, at) is None (unknown / not aligned with the input)
    or the name of a sequence that has exactly one element per input position, in input order:
    'input' (the input parameter itself, possibly wrapped for progress display / copied with list()),
    'blank' ([const] * len(aligned)), 'aligned' (an unfiltered comprehension over an aligned sequence), or whatever
    `call_role(seqs, call, at)` answers for a call (e.g. 'bulk' for the bulk store answer)."""

    WRAPPERS = ("tqdm", "list", "tuple")

    def __init__(self, fa, param, call_role=None):
        self.fa = fa
        self.param = param
        self.call_role = call_role
        self._busy = set()

    @staticmethod
    def _merge(roles):
        roles = set(roles)
        if None in roles or not roles:
            return None
        if len(roles) > 1:
            roles.discard("blank")
        return roles.pop() if len(roles) == 1 else "aligned"

    def unwrap(self, e, names=WRAPPERS):
        while True:
            if isinstance(e, ast.Call) and A.call_attr(e) in names and len(e.args) == 1 and not isinstance(e.args[0], ast.Starred):
                e = e.args[0]
            elif spread_copy(e) is not None and ("tuple" if isinstance(e, ast.Tuple) else "list") in names:
                e = spread_copy(e)      # [*xs] is list(xs), (*xs,) is tuple(xs)
            else:
                return e

    def role(self, e, at, _seen=frozenset()):
        key = (id(e), at)
        if key in self._busy:
            return None
        self._busy.add(key)
        try:
            return self._role(e, at, _seen)
        finally:
            self._busy.discard(key)

    def _role(self, e, at, _seen):
        fa = self.fa
        if (isinstance(e, ast.Call) or spread_copy(e) is not None) and self.call_role:
            r = self.call_role(self, e, at)
            if r:
                return r
        e = self.unwrap(e)
        if isinstance(e, ast.Name):
            ds = fa.df.reaching(at, e.id)
            roles = []
            for d in ds:
                if d.kind == "param":
                    roles.append("input" if e.id == self.param else None)
                elif d.kind == "assign" and d.value is not None:
                    if (d.node, d.name) in _seen:
                        continue
                    roles.append(self.role(d.value, d.node, _seen | {(d.node, d.name)}))
                else:
                    roles.append(None)
            return self._merge(roles)
        if isinstance(e, ast.IfExp):
            taken = eval3(fa, e.test, at, self.assume) if getattr(self, "assume", None) is not None else None
            if taken is not None:
                return self.role(e.body if taken else e.orelse, at, _seen)
            return self._merge([self.role(e.body, at, _seen), self.role(e.orelse, at, _seen)])
        if isinstance(e, ast.BinOp) and isinstance(e.op, ast.Mult):
            for (l, r) in ((e.left, e.right), (e.right, e.left)):
                if isinstance(l, ast.List) and len(l.elts) == 1 and isinstance(l.elts[0], ast.Constant) \
                        and isinstance(r, ast.Call) and A.call_attr(r) == "len" and len(r.args) == 1 and self.role(r.args[0], at, _seen):
                    return "blank"
            return None
        if isinstance(e, ast.ListComp) and len(e.generators) == 1 and not e.generators[0].ifs:
            p = pos_iter(self, e.generators[0].target, e.generators[0].iter, at)
            if p is None:
                return None
            if isinstance(e.elt, ast.Constant):
                return "blank"      # [None for _ in xs] is [None] * len(xs)
            return (self.call_role(self, e, at) if self.call_role else None) or "aligned"
        if isinstance(e, ast.Call) and self.call_role:
            return self.call_role(self, e, at)
        return None


class PosIter:
    """An iteration that visits every input position once, in input order.  pos = the name holding the position
    (or None), elems = {name: role of the sequence whose element of the current position it holds}."""

    def __init__(self, loop_ast=None):
        self.pos = None
        self.elems = {}
        self.loop_ast = loop_ast  # the For statement (None: a comprehension's generator)

    def _bound_here(self, fa, name, at):
        if self.loop_ast is None:
            return True
        ds = fa.df.reaching(at, name)
        return bool(ds) and all(d.kind == "for" and fa.cfg.node(d.node).ast is self.loop_ast for d in ds)

    def elem_role(self, seqs, e, at, _depth=0):
        """Role of the sequence whose element at the current position `e` denotes (None: something else)."""
        fa = seqs.fa
        if isinstance(e, ast.Name):
            if e.id in self.elems and self._bound_here(fa, e.id, at):
                return self.elems[e.id]
            if self.loop_ast is None:
                return None
            ds = fa.df.reaching(at, e.id)
            if ds and _depth < 8 and all(d.kind == "assign" and d.value is not None for d in ds):
                # "nothing for this element" (None) next to the element itself: where the value is used as an element
                # it is the element
                some = [d for d in ds if not A.is_none(d.value)] or ds
                rs = {self.elem_role(seqs, d.value, d.node, _depth + 1) for d in some}
                return rs.pop() if len(rs) == 1 else None
            return None
        if isinstance(e, ast.Subscript) and isinstance(e.slice, ast.Name) and self.pos is not None and e.slice.id == self.pos \
                and self._bound_here(fa, self.pos, at):
            return seqs.role(e.value, at)
        if isinstance(e, ast.Call) and isinstance(e.func, ast.Name) and e.func.id == "next" and len(e.args) == 1 and not e.keywords \
                and self.loop_ast is not None:
            return self._in_step(seqs, e, at)
        return None

    def _in_step(self, seqs, call, at):
        """`next(it)` for an iterator made once, before the loop, from an aligned sequence and advanced exactly once in
        every iteration of this loop (and nowhere else): the element of that sequence at the current position."""
        fa = seqs.fa
        lv = origins(fa, call.args[0], at)
        if len(lv) != 1:
            return None
        mk, mk_at = lv[0]
        if not (isinstance(mk, ast.Call) and isinstance(mk.func, ast.Name) and mk.func.id == "iter" and len(mk.args) == 1 and not mk.keywords):
            return None
        if fa.inside(mk, self.loop_ast) or fa.enclosing(mk, (ast.For, ast.While)) is not None or fa.enclosing(self.loop_ast, (ast.For, ast.While)) is not None:
            return None
        role = seqs.role(mk.args[0], mk_at)
        if role is None:
            return None
        # every use of the iterator object is such a next() ...
        names = {d.name for ds in fa.df.gen.values() for d in ds if d.kind == "assign" and d.value is mk}
        uses = [n for n in A.walk_body(fa.node) if isinstance(n, ast.Name) and isinstance(n.ctx, ast.Load) and n.id in names]
        nexts = [c for c in fa.calls("next") if isinstance(c.func, ast.Name) and len(c.args) == 1 and isinstance(c.args[0], ast.Name) and c.args[0].id in names]
        if len(uses) != len(nexts) or any(len(all_defs(fa, nm)) != 1 for nm in names) or not all(fa.inside(c, self.loop_ast) and fa.nodes(c) for c in nexts):
            return None
        # ... executed exactly once per iteration
        skip, twice = iteration_counts(fa, heads_of(fa, self.loop_ast), fa.nodes_all(nexts))
        if skip or twice or not all(fa.unconditional(c) for c in nexts):
            return None
        return role


def bound_value(fa, e, at, depth=8):
    """(expression, node id) a local stands for when it was bound exactly once, by a plain assignment, on every
    path reaching `at` (followed through chains of such locals); anything else stands for itself."""
    while isinstance(e, ast.Name) and depth > 0:
        ds = fa.df.reaching(at, e.id)
        if len(ds) != 1 or ds[0].kind != "assign" or ds[0].value is None:
            break
        e, at, depth = ds[0].value, ds[0].node, depth - 1
    return e, at


def pos_iter(seqs, target, it, at, loop_ast=None):
    """PosIter for `for target in it` / a comprehension generator, or None when the iteration is not "once per
    input position, in input order"."""
    it = seqs.unwrap(it, ("tqdm",))
    p = PosIter(loop_ast)
    if isinstance(it, ast.Name) and isinstance(target, ast.Name):
        # `positions = range(len(xs))` ... (`positions = tqdm(positions)`) ... `for i in positions`
        def ranged(e, n, seen):
            e = seqs.unwrap(e, ("tqdm",))
            if isinstance(e, ast.Name):
                ds = seqs.fa.df.reaching(n, e.id)
                fresh = [d for d in ds if (d.node, d.name) not in seen]
                return bool(ds) and all(d.kind == "assign" and d.value is not None for d in ds) and \
                    all(ranged(d.value, d.node, seen | {(d.node, d.name)}) for d in fresh) and (bool(fresh) or bool(seen))
            if isinstance(e, ast.Call) and A.call_attr(e) == "range" and isinstance(e.func, ast.Name):
                q = pos_iter(seqs, ast.Name(id="_", ctx=ast.Store()), e, n)
                return q is not None and q.pos == "_"
            return False
        if ranged(it, at, frozenset()):
            p.pos = target.id
            return p
    if isinstance(it, ast.Call) and A.call_attr(it) == "range" and isinstance(it.func, ast.Name) and not it.keywords:
        a = it.args
        if len(a) == 2 and isinstance(a[0], ast.Constant) and a[0].value == 0:
            a = a[1:]
        if len(a) == 1 and isinstance(target, ast.Name):
            # the bound may be held in a local (`n = len(xs)` ... `range(n)`): it is the length the list had there
            n, n_at = bound_value(seqs.fa, a[0], at)
            if isinstance(n, ast.Call) and A.call_attr(n) == "len" and isinstance(n.func, ast.Name) and len(n.args) == 1 and not n.keywords \
                    and seqs.role(n.args[0], n_at):
                p.pos = target.id
                return p
        return None
    if isinstance(it, ast.Call) and A.call_attr(it) == "enumerate" and isinstance(it.func, ast.Name) and it.args:
        start = A.arg_or_kw(it, 1, "start")
        if start is not None and not (isinstance(start, ast.Constant) and start.value == 0):
            return None
        if not (isinstance(target, ast.Tuple) and len(target.elts) == 2 and isinstance(target.elts[0], ast.Name)):
            return None
        sub = pos_iter(seqs, target.elts[1], it.args[0], at, loop_ast)
        if sub is None or sub.pos is not None:
            return None
        sub.pos = target.elts[0].id
        return sub
    if isinstance(it, ast.Call) and A.call_attr(it) == "zip" and isinstance(it.func, ast.Name) and it.args and not it.keywords:
        if not (isinstance(target, ast.Tuple) and len(target.elts) == len(it.args)):
            return None
        for t, s in zip(target.elts, it.args):
            r = seqs.role(s, at)
            if r is None or not isinstance(t, ast.Name):
                return None
            p.elems[t.id] = r
        return p
    r = seqs.role(it, at)
    if r is not None and isinstance(target, ast.Name):
        p.elems[target.id] = r
        return p
    return None


def position_loops(fa, seqs):
    """[(For statement, PosIter)] for the function's own `for` statements that walk the input positions."""
    out = []
    seen = set()
    for n in fa.cfg.nodes:
        if n.kind != "for" or id(n.ast) in seen or not fa.nodes(n.ast):
            continue
        seen.add(id(n.ast))
        p = pos_iter(seqs, n.ast.target, n.ast.iter, fa.nodes(n.ast)[0], n.ast)
        if p is not None:
            out.append((n.ast, p))
    return out


def enclosing_position(fa, loops, node):
    """The innermost position loop (For, PosIter) lexically around `node`."""
    lp = fa.enclosing(node, ast.For)
    while lp is not None:
        for (l, p) in loops:
            if l is lp:
                return (l, p)
        lp = fa.enclosing(lp, ast.For)
    return None


def iteration_counts(fa, heads, nodes):
    """(may_skip, may_repeat): can an iteration reach the next one without executing one of `nodes` to completion /
    execute two of them."""
    cfg = fa.cfg
    H = set(heads)
    nodes = set(nodes)
    sn = sense(fa)
    # a node of `nodes` counts as executed when it is left normally (an exception out of it goes on looking)
    skip = bool(H & sn.reach(body_starts(fa, heads), edge_ok=lambda s_, d, l: not (s_ in nodes and l != "exc")))
    twice = False
    for a in nodes:
        nxt = [d for (d, l) in cfg.succ[a] if l != "exc" and d not in H]
        if nodes & sn.reach(nxt, removed=H):
            twice = True
    return skip, twice


def exactly_on(fa, heads, nodes, on_edges, off_edges):
    """Within one iteration, `nodes` execute only after an edge of `on_edges` was taken, and every path to the next
    iteration either took an edge of `off_edges` or executed one of `nodes`."""
    H = set(heads)
    st = body_starts(fa, heads)
    r1 = sense(fa).reach(st, removed=H, edge_ok=not_edges(on_edges))
    if set(nodes) & r1:
        return False
    r2 = sense(fa).reach(st, removed=set(nodes), edge_ok=not_edges(off_edges))
    return not (H & r2)


def per_element(seqs, expr, at, _depth=0):
    """If `expr` is a list holding exactly one element per input position, in input order — an unfiltered
    comprehension over an aligned sequence, or an empty list filled by exactly one append per iteration of a position
    loop and not touched otherwise — the list of (element expression, node id, PosIter); else None."""
    fa = seqs.fa
    e = seqs.unwrap(expr, ("list", "tuple"))
    if isinstance(e, (ast.ListComp, ast.GeneratorExp)) and (isinstance(e, ast.ListComp) or e is not expr):
        if len(e.generators) != 1 or e.generators[0].ifs:
            return None
        p = pos_iter(seqs, e.generators[0].target, e.generators[0].iter, at)
        return [(e.elt, at, p)] if p is not None else None
    if not isinstance(e, ast.Name) or _depth > 6:
        return None
    ds = [d for d in fa.df.reaching(at, e.id)]
    if len(ds) != 1 or ds[0].kind != "assign" or ds[0].value is None:
        return None
    d = ds[0]
    v = d.value
    name = e.id
    if seqs.role(v, d.node) == "blank" and isinstance(seqs.unwrap(v, ("list",)), ast.BinOp):
        # `xs = [None] * len(aligned)` ... `xs[i] = E` once in every iteration of a loop over the positions
        if len(all_defs(fa, name)) != 1 or name in fa.df.params or pushes(fa, name):
            return None
        edits = other_edits(fa, name)
        fills = [st for st in edits if isinstance(st, ast.Assign) and len(st.targets) == 1 and isinstance(st.targets[0], ast.Subscript)
                 and A.dotted(st.targets[0].value) == name and fa.nodes(st)]
        loops = position_loops(fa, seqs)
        homes = [enclosing_position(fa, loops, st) for st in fills]
        if not fills or len(fills) != len(edits) or any(h is None or h[0] is not homes[0][0] for h in homes):
            return None
        loop, p = homes[0]
        use_stmt = fa.cfg.node(at).ast
        if fa.enclosing(loop, (ast.For, ast.While)) is not None or (use_stmt is not None and fa.inside(use_stmt, loop)):
            return None
        if not all(isinstance(st.targets[0].slice, ast.Name) and p.pos == st.targets[0].slice.id and p._bound_here(fa, p.pos, fa.nodes(st)[0]) for st in fills):
            return None
        skip, twice = iteration_counts(fa, heads_of(fa, loop), fa.nodes_all(fills))
        if skip or twice:
            return None
        return [(st.value, fa.nodes(st)[0], p) for st in fills]
    if not (isinstance(v, ast.List) and not v.elts):
        return per_element(seqs, v, d.node, _depth + 1)
    if len(all_defs(fa, name)) != 1 or name in fa.df.params:
        return None
    if other_edits(fa, name):
        return None
    apps = pushes(fa, name)
    loops = position_loops(fa, seqs)
    homes = {id(enclosing_position(fa, loops, c.node)[0]) if enclosing_position(fa, loops, c.node) else None for c in apps}
    if not apps or len(homes) != 1 or None in homes:
        return None
    loop, p = enclosing_position(fa, loops, apps[0].node)
    if fa.enclosing(loop, (ast.For, ast.While)) is not None:
        return None
    use_stmt = fa.cfg.node(at).ast
    if use_stmt is not None and fa.inside(use_stmt, loop):
        return None
    skip, twice = iteration_counts(fa, heads_of(fa, loop), fa.nodes_all(c.node for c in apps))
    if skip or twice:
        return None
    return [(c.elem, fa.nodes(c.node)[0], p) for c in apps]


# =================================================================================================
# local normal forms: constructs the rules do not read are written as the plain statements they stand for
# =================================================================================================

_FUNCS = (ast.FunctionDef, ast.AsyncFunctionDef)


def _own_nodes(node):
    """Nodes below `node`, not entering nested function / class bodies (lambdas are entered)."""
    stack = list(ast.iter_child_nodes(node))
    while stack:
        n = stack.pop()
        yield n
        if not isinstance(n, _FUNCS + (ast.ClassDef,)):
            stack.extend(ast.iter_child_nodes(n))


def _blocks_of(node):
    """Every statement list of the function (its own, not those of nested defs)."""
    out = []
    for n in [node] + list(_own_nodes(node)):
        if n is not node and isinstance(n, _FUNCS + (ast.ClassDef,)):
            continue
        for fld in ("body", "orelse", "finalbody"):
            b = getattr(n, fld, None)
            if isinstance(b, list) and b and isinstance(b[0], ast.stmt):
                out.append(b)
        for h in getattr(n, "handlers", []) or []:
            out.append(h.body)
    return out


def _pure_arg(e):
    return isinstance(e, (ast.Name, ast.Constant)) or (isinstance(e, ast.Attribute) and _pure_arg(e.value))


def _apply_lambda(lam, call):
    """The body of `lam` with its parameters replaced by the arguments of `call`, or None when that is not a plain
    substitution (defaults, *args, arguments with effects used more than once ...)."""
    a = lam.args
    if a.vararg or a.kwarg or a.kwonlyargs or a.defaults or a.posonlyargs or call.keywords or len(a.args) != len(call.args) \
            or any(isinstance(x, ast.Starred) for x in call.args):
        return None
    params = [x.arg for x in a.args]
    uses = {p_: sum(1 for n in ast.walk(lam.body) if isinstance(n, ast.Name) and n.id == p_) for p_ in params}
    if any(not _pure_arg(v) and uses[p_] > 1 for p_, v in zip(params, call.args)):
        return None
    if any(isinstance(n, (ast.Lambda, ast.ListComp, ast.SetComp, ast.DictComp, ast.GeneratorExp, ast.NamedExpr)) for n in ast.walk(lam.body)):
        return None     # inner scopes could capture / shadow a parameter name

    class T(ast.NodeTransformer):
        def visit_Name(self, n):
            if n.id in params and isinstance(n.ctx, ast.Load):
                return ast.copy_location(copy.deepcopy(call.args[params.index(n.id)]), n)
            return n
    return T().visit(copy.deepcopy(lam.body))


def _stores(node):
    out = {}
    for n in _own_nodes(node):
        if isinstance(n, ast.Name) and isinstance(n.ctx, (ast.Store, ast.Del)):
            out[n.id] = out.get(n.id, 0) + 1
    for n in ast.walk(node):
        if isinstance(n, (ast.Nonlocal, ast.Global)):
            for nm in n.names:
                out[nm] = out.get(nm, 0) + 2
    for a_ in node.args.posonlyargs + node.args.args + node.args.kwonlyargs + [x for x in (node.args.vararg, node.args.kwarg) if x is not None]:
        out[a_.arg] = out.get(a_.arg, 0) + 1
    return out


def _replace_expr(root, old, new):
    for n in ast.walk(root):
        for fld, val in ast.iter_fields(n):
            if val is old:
                setattr(n, fld, new)
                return True
            if isinstance(val, list):
                for i, x in enumerate(val):
                    if x is old:
                        val[i] = new
                        return True
    return False


def _nf_maps(node):
    """`map(f, xs)` is `(f(x) for x in xs)`; `list(map(f, xs))` is `[f(x) for x in xs]`."""
    n_ = [0]
    changed = False
    for c in [c for c in _own_nodes(node) if isinstance(c, ast.Call)]:
        inner = c
        as_list = False
        if isinstance(c.func, ast.Name) and c.func.id in ("list", "tuple") and len(c.args) == 1 and not c.keywords and isinstance(c.args[0], ast.Call):
            inner, as_list = c.args[0], c.func.id == "list"
        if not (isinstance(inner.func, ast.Name) and inner.func.id == "map" and len(inner.args) == 2 and not inner.keywords
                and isinstance(inner.args[0], (ast.Name, ast.Attribute, ast.Lambda)) and not isinstance(inner.args[1], ast.Starred)):
            continue
        if inner is c and any(isinstance(p_, ast.Call) and isinstance(p_.func, ast.Name) and p_.func.id in ("list", "tuple") and p_.args and p_.args[0] is c
                              for p_ in _own_nodes(node)):
            continue    # handled together with its list(...) wrapper
        n_[0] += 1
        v = "item__m%d" % n_[0]
        elt = ast.Call(func=inner.args[0], args=[ast.Name(id=v, ctx=ast.Load())], keywords=[])
        gens = [ast.comprehension(target=ast.Name(id=v, ctx=ast.Store()), iter=inner.args[1], ifs=[], is_async=0)]
        comp = ast.ListComp(elt=elt, generators=gens) if as_list else ast.GeneratorExp(elt=elt, generators=gens)
        ast.copy_location(comp, c)
        ast.copy_location(elt, c)
        target = c if as_list else inner
        if _replace_expr(node, target, comp):
            changed = True
    return changed


def _nf_lambdas(node):
    """A lambda that is called on the spot, or bound once to a local that is only ever called, is its body with the
    arguments in place of the parameters."""
    changed = True
    any_change = False
    while changed:
        changed = False
        st = _stores(node)
        # name = lambda ...   (bound once, every mention is the callee of a call)
        for blk in _blocks_of(node):
            for s_ in list(blk):
                if isinstance(s_, ast.Assign) and len(s_.targets) == 1 and isinstance(s_.targets[0], ast.Name) and isinstance(s_.value, ast.Lambda) \
                        and st.get(s_.targets[0].id, 0) == 1:
                    nm = s_.targets[0].id
                    mentions = [n for n in ast.walk(node) if isinstance(n, ast.Name) and n.id == nm and n is not s_.targets[0]]
                    calls = [c for c in ast.walk(node) if isinstance(c, ast.Call) and isinstance(c.func, ast.Name) and c.func.id == nm]
                    if not mentions or len(mentions) != len(calls):
                        continue
                    bodies = [(c, _apply_lambda(s_.value, c)) for c in calls]
                    if any(b is None for (_c, b) in bodies):
                        continue
                    for (c, b) in bodies:
                        _replace_expr(node, c, b)
                    blk.remove(s_)
                    if not blk:
                        blk.append(ast.copy_location(ast.Pass(), s_))
                    changed = any_change = True
                    break
            if changed:
                break
        if changed:
            continue
        # name = (lambda ...) if C else (lambda ...): each call statement becomes the if statement it stands for
        for blk in _blocks_of(node):
            for s_ in list(blk):
                if not (isinstance(s_, ast.Assign) and len(s_.targets) == 1 and isinstance(s_.targets[0], ast.Name) and isinstance(s_.value, ast.IfExp)
                        and isinstance(s_.value.body, ast.Lambda) and isinstance(s_.value.orelse, ast.Lambda) and st.get(s_.targets[0].id, 0) == 1):
                    continue
                nm = s_.targets[0].id
                mentions = [n for n in ast.walk(node) if isinstance(n, ast.Name) and n.id == nm and n is not s_.targets[0]]
                calls = [c for c in ast.walk(node) if isinstance(c, ast.Call) and isinstance(c.func, ast.Name) and c.func.id == nm]
                homes = [next(((bl, x) for bl in _blocks_of(node) for x in bl if _simple_holder(x) and x.value is c), None) for c in calls]
                if not mentions or len(mentions) != len(calls) or any(h is None for h in homes):
                    continue
                arms = [(_apply_lambda(s_.value.body, c), _apply_lambda(s_.value.orelse, c)) for c in calls]
                if any(a is None or b is None for (a, b) in arms):
                    continue
                cond = s_.value.test
                if isinstance(cond, ast.Name) and st.get(cond.id, 0) <= 1:
                    blk.remove(s_)
                    if not blk:
                        blk.append(ast.copy_location(ast.Pass(), s_))
                else:
                    tmp = "chosen__%s" % nm
                    blk[blk.index(s_)] = ast.copy_location(ast.Assign(targets=[ast.Name(id=tmp, ctx=ast.Store())], value=cond), s_)
                    cond = ast.Name(id=tmp, ctx=ast.Load())
                for (c, (bl, holder), (a, b)) in zip(calls, homes, arms):
                    h1, h2 = copy.deepcopy(holder), copy.deepcopy(holder)
                    h1.value, h2.value = a, b
                    bl[bl.index(holder)] = ast.copy_location(ast.If(test=copy.deepcopy(cond), body=[h1], orelse=[h2]), holder)
                changed = any_change = True
                break
            if changed:
                break
        if changed:
            continue
        for c in [c for c in _own_nodes(node) if isinstance(c, ast.Call) and isinstance(c.func, ast.Lambda)]:
            b = _apply_lambda(c.func, c)
            if b is not None and _replace_expr(node, c, b):
                changed = any_change = True
                break
    return any_change


def _simple_holder(blk_stmt):
    return isinstance(blk_stmt, (ast.Expr, ast.Assign, ast.AnnAssign, ast.AugAssign, ast.Return)) and getattr(blk_stmt, "value", None) is not None


def _evaluated_once(stmt, expr):
    """Is `expr` evaluated exactly once, unconditionally, whenever the simple statement `stmt` runs?"""
    pm = A.parent_map(stmt)
    n = expr
    while n is not stmt and n is not None:
        p_ = pm.get(n)
        if isinstance(p_, ast.IfExp) and n is not p_.test:
            return False
        if isinstance(p_, ast.BoolOp) and n is not p_.values[0]:
            return False
        if isinstance(p_, (ast.ListComp, ast.SetComp, ast.DictComp, ast.GeneratorExp)) and not (p_.generators and n is p_.generators[0] and False):
            if not (p_.generators and any(n is p_.generators[0].iter or n is x for x in [p_.generators[0].iter])):
                return False
        if isinstance(p_, ast.Lambda):
            return False
        n = p_
    return n is stmt


def _nf_dispatch(node):
    """A call through a constant table of functions is the chain of tests it stands for:

        table = {True: f, False: g}                      if cond:  x = f(a)
        x = table[bool(cond)](a)              ==>        else:     x = g(a)

    (also with the chosen function first bound to a local that is only called).  The table is bound once to a dict
    display with constant keys and is used for nothing else."""
    changed = False
    st = _stores(node)
    n_ = [0]
    for blk in _blocks_of(node):
        for s_ in list(blk):
            if not (isinstance(s_, ast.Assign) and len(s_.targets) == 1 and isinstance(s_.targets[0], ast.Name) and isinstance(s_.value, ast.Dict)
                    and s_.value.keys and all(isinstance(k, ast.Constant) for k in s_.value.keys)
                    and all(isinstance(v, (ast.Name, ast.Attribute, ast.Lambda)) for v in s_.value.values) and st.get(s_.targets[0].id, 0) == 1):
                continue
            D = s_.targets[0].id
            keys = [k.value for k in s_.value.keys]
            if len(set(map(repr, keys))) != len(keys):
                continue
            mentions = [n for n in ast.walk(node) if isinstance(n, ast.Name) and n.id == D and n is not s_.targets[0]]
            subs = [n for n in ast.walk(node) if isinstance(n, ast.Subscript) and isinstance(n.value, ast.Name) and n.value.id == D and isinstance(n.ctx, ast.Load)]
            if not mentions or len(mentions) != len(subs):
                continue
            # every selection is called directly, or bound to a local that is only called
            plans = []
            ok = True
            for sub in subs:
                call = next((c for c in ast.walk(node) if isinstance(c, ast.Call) and c.func is sub), None)
                if call is not None:
                    plans.append((sub, [call], None))
                    continue
                bind = next((b for bl in _blocks_of(node) for b in bl if isinstance(b, ast.Assign) and b.value is sub and len(b.targets) == 1
                             and isinstance(b.targets[0], ast.Name)), None)
                if bind is None or st.get(bind.targets[0].id, 0) != 1:
                    ok = False
                    break
                h = bind.targets[0].id
                hm = [n for n in ast.walk(node) if isinstance(n, ast.Name) and n.id == h and n is not bind.targets[0]]
                hc = [c for c in ast.walk(node) if isinstance(c, ast.Call) and isinstance(c.func, ast.Name) and c.func.id == h]
                if not hm or len(hm) != len(hc):
                    ok = False
                    break
                plans.append((sub, hc, bind))
            if not ok:
                continue
            # each call sits in a simple statement and is evaluated once there
            sites = []
            for (sub, calls, bind) in plans:
                for call in calls:
                    home = next(((bl, x) for bl in _blocks_of(node) for x in bl if _simple_holder(x) and any(c is call for c in ast.walk(x))), None)
                    if home is None or not _evaluated_once(home[1], call):
                        ok = False
                    sites.append((sub, call, bind, home))
            if not ok:
                continue
            for (sub, call, bind, (bl, holder)) in sites:
                n_[0] += 1
                K = sub.slice
                as_bool = set(map(repr, keys)) == {"True", "False"}
                pre = []
                if as_bool and isinstance(K, ast.Call) and isinstance(K.func, ast.Name) and K.func.id == "bool" and len(K.args) == 1 and not K.keywords:
                    K = K.args[0]
                if not _pure_arg(K) or bind is not None:
                    tmp = "selector__t%d" % n_[0]
                    asg = ast.copy_location(ast.Assign(targets=[ast.Name(id=tmp, ctx=ast.Store())], value=K), bind or holder)
                    if bind is not None:
                        for b2 in _blocks_of(node):
                            if bind in b2:
                                b2[b2.index(bind)] = asg
                    else:
                        pre = [asg]
                    K = ast.Name(id=tmp, ctx=ast.Load())

                def branch(fn_expr):
                    h2 = copy.deepcopy(holder)
                    # locate the copy of `call` by position in the walk
                    idx = [i for i, c in enumerate(ast.walk(holder)) if c is call][0]
                    c2 = list(ast.walk(h2))[idx]
                    c2.func = copy.deepcopy(fn_expr)
                    return h2
                table = dict(zip(map(repr, keys), s_.value.values))
                if as_bool:
                    chain = ast.If(test=copy.deepcopy(K), body=[branch(table["True"])], orelse=[branch(table["False"])])
                else:
                    chain = ast.Raise(exc=ast.Call(func=ast.Name(id="KeyError", ctx=ast.Load()), args=[copy.deepcopy(K)], keywords=[]), cause=None)
                    for k_, v_ in reversed(list(zip(s_.value.keys, s_.value.values))):
                        chain = ast.If(test=ast.Compare(left=copy.deepcopy(K), ops=[ast.Eq()], comparators=[copy.deepcopy(k_)]), body=[branch(v_)], orelse=[chain])
                ast.copy_location(chain, holder)
                i = bl.index(holder)
                bl[i:i + 1] = pre + [chain]
            blk.remove(s_)
            if not blk:
                blk.append(ast.copy_location(ast.Pass(), s_))
            changed = True
    return changed


def _nf_comprehension_loops(node, resolves):
    """A list comprehension whose element calls a helper that can be written out becomes the loop it abbreviates
    (`acc = []; for x in xs: acc.append(E)`), so that the helper's statements can take the place of the call."""
    changed = False
    n_ = [0]
    st = _stores(node)
    for blk in _blocks_of(node):
        i = 0
        while i < len(blk):
            s_ = blk[i]
            i += 1
            if not _simple_holder(s_):
                continue
            comps = [c for c in ast.walk(s_.value) if isinstance(c, ast.ListComp) and len(c.generators) == 1 and not c.generators[0].is_async
                     and any(isinstance(x, ast.Call) and resolves(x) for x in ast.walk(c.elt)) and _evaluated_once(s_, c)]
            if not comps:
                continue
            comp = comps[0]
            gen = comp.generators[0]
            n_[0] += 1
            # the comprehension's variables are its own: give them names nothing else in the function uses
            ren = {}
            for t in ast.walk(gen.target):
                if isinstance(t, ast.Name) and st.get(t.id, 0) > 0:
                    ren[t.id] = "%s__c%d" % (t.id, n_[0])

            class R(ast.NodeTransformer):
                def visit_Name(self, n):
                    if n.id in ren:
                        n.id = ren[n.id]
                    return n
            elt = R().visit(copy.deepcopy(comp.elt))
            target = R().visit(copy.deepcopy(gen.target))
            ifs = [R().visit(copy.deepcopy(x)) for x in gen.ifs]
            whole = isinstance(s_, ast.Assign) and s_.value is comp and len(s_.targets) == 1 and isinstance(s_.targets[0], ast.Name) \
                and st.get(s_.targets[0].id, 0) == 1
            acc = s_.targets[0].id if whole else "collected__c%d" % n_[0]
            init = ast.Assign(targets=[ast.Name(id=acc, ctx=ast.Store())], value=ast.List(elts=[], ctx=ast.Load()))
            def mk_push(x):
                return ast.Expr(value=ast.Call(func=ast.Attribute(value=ast.Name(id=acc, ctx=ast.Load()), attr="append", ctx=ast.Load()), args=[x], keywords=[]))
            push = mk_push(elt)
            if isinstance(elt, ast.IfExp):
                # `A if c else B` as element: one append in each branch (a helper called in one arm only runs there)
                push = ast.If(test=elt.test, body=[mk_push(elt.body)], orelse=[mk_push(elt.orelse)])
            body = [push]
            if ifs:
                body = [ast.If(test=ifs[0] if len(ifs) == 1 else ast.BoolOp(op=ast.And(), values=ifs), body=[push], orelse=[])]
            loop = ast.For(target=target, iter=gen.iter, body=body, orelse=[], type_comment=None)
            for x in (init, loop):
                ast.copy_location(x, s_)
                for y in ast.walk(x):
                    if not hasattr(y, "lineno"):
                        ast.copy_location(y, comp)
            new = [init, loop]
            if not whole:
                _replace_expr(s_, comp, ast.copy_location(ast.Name(id=acc, ctx=ast.Load()), comp))
                new.append(s_)
            blk[i - 1:i] = new
            i += len(new) - 1
            st = _stores(node)
            changed = True
    return changed


def _record_fields(cls):
    """{field: constructor parameter position / name} for a class of which every object keeps, for life, the
    constructor arguments it was built with under these field names: an explicit __init__ that stores plain parameters
    (`self.f = p`, unconditionally, once), or the generated one of a dataclass / NamedTuple (fields in declaration
    order).  A field any method stores to again is left out.  None: the class is not of this kind."""
    node = cls.node
    deco = {A.dotted(d.func if isinstance(d, ast.Call) else d) for d in node.decorator_list}
    named_tuple = any(b.split(".")[-1] == "NamedTuple" for b in cls.base_exprs)
    if (cls.base_exprs and not named_tuple) or (deco - {"dataclass", "dataclasses.dataclass"}):
        return None
    fields = {}
    init = cls.methods.get("__init__")
    if init is not None:
        a = init.node.args
        if a.vararg or a.kwarg or deco or named_tuple:
            return None
        params = [x.arg for x in a.posonlyargs + a.args][1:]
        kwonly = [x.arg for x in a.kwonlyargs]
        seen = {}
        for st in init.node.body:
            if isinstance(st, ast.Assign) and len(st.targets) == 1 and isinstance(st.targets[0], ast.Attribute) and A.dotted(st.targets[0].value) == "self" \
                    and isinstance(st.value, ast.Name) and st.value.id in params + kwonly:
                f = st.targets[0].attr
                seen[f] = seen.get(f, 0) + 1
                fields[f] = (params.index(st.value.id) if st.value.id in params else None, st.value.id)
        # the parameter itself is not rebound in the constructor
        rebound = {n.id for n in ast.walk(init.node) if isinstance(n, ast.Name) and isinstance(n.ctx, (ast.Store, ast.Del))}
        fields = {f: v for f, v in fields.items() if seen[f] == 1 and v[1] not in rebound}
    elif deco or named_tuple:
        pos = 0
        for st in node.body:
            if isinstance(st, ast.AnnAssign) and isinstance(st.target, ast.Name):
                ann = ast.unparse(st.annotation)
                if "ClassVar" in ann:
                    continue
                if isinstance(st.value, ast.Call) and A.call_attr(st.value) == "field" and any(k.arg in ("init", "kw_only") for k in st.value.keywords):
                    return None
                fields[st.target.id] = (pos, st.target.id)
                pos += 1
        if any(isinstance(d, ast.Call) and any(k.arg in ("init", "kw_only") for k in d.keywords) for d in node.decorator_list):
            return None
    else:
        return None
    # stored to again by a method (or by anything reached through `self` in a way that is not plainly a read)
    for m in cls.methods.values():
        for n in ast.walk(m.node):
            if isinstance(n, ast.Attribute) and isinstance(n.ctx, (ast.Store, ast.Del)) and A.dotted(n.value) == "self" and m is not init:
                fields.pop(n.attr, None)
            if isinstance(n, ast.Call) and isinstance(n.func, ast.Name) and n.func.id in ("setattr", "delattr") or \
                    (isinstance(n, ast.Attribute) and n.attr == "__dict__"):
                return None
    return fields


def _nf_record_fields(fi, node):
    """`obj.f` for a local `obj = C(..., x, ...)` (bound once, outside any loop) of a record class of the same module
    whose field f is the constructor argument x for life (see _record_fields), x being a name that is bound once in
    this function and `obj.f` never being stored to here: the read is written as `x`."""
    st = _stores(node)
    cands = {}
    for blk in _blocks_of(node):
        for s_ in blk:
            if not (isinstance(s_, ast.Assign) and len(s_.targets) == 1 and isinstance(s_.targets[0], ast.Name) and st.get(s_.targets[0].id) == 1
                    and isinstance(s_.value, ast.Call) and isinstance(s_.value.func, ast.Name)):
                continue
            c = s_.value
            cls = fi.module.classes.get(c.func.id)
            if cls is None or any(isinstance(a, ast.Starred) for a in c.args) or any(k.arg is None for k in c.keywords):
                continue
            fields = _record_fields(cls)
            if not fields:
                continue
            sub = {}
            for f, (pos, name) in fields.items():
                v = A.arg_or_kw(c, pos, name) if pos is not None else A.kwarg(c, name)
                if isinstance(v, ast.Name) and st.get(v.id) == 1:
                    sub[f] = v.id
                elif v is not None and not isinstance(v, (ast.Name, ast.Constant)):
                    sub[f] = v      # computed in place: bound to a local of its own first (below)
            if sub:
                cands[s_.targets[0].id] = (s_, sub, blk)
    if not cands:
        return False
    # not under a loop (the argument name could be rebound between the construction and a read of the field), not
    # captured by a nested function, the field not stored to through the local
    parents = {}
    for n in ast.walk(node):
        for ch in ast.iter_child_nodes(n):
            parents[id(ch)] = n
    for obj in list(cands):
        s_, sub, _blk = cands[obj]
        x = s_
        while id(x) in parents and x is not node:
            x = parents[id(x)]
            if isinstance(x, (ast.For, ast.While, ast.AsyncFor)) or (isinstance(x, _FUNCS + (ast.Lambda, ast.ClassDef)) and x is not node):
                cands.pop(obj, None)
                break
    for n in ast.walk(node):
        if isinstance(n, ast.Attribute) and isinstance(n.ctx, (ast.Store, ast.Del)) and isinstance(n.value, ast.Name) and n.value.id in cands:
            cands[n.value.id][1].pop(n.attr, None)
        if isinstance(n, ast.Call) and isinstance(n.func, ast.Name) and n.func.id in ("setattr", "delattr") and n.args and isinstance(n.args[0], ast.Name):
            cands.pop(n.args[0].id, None)

    # `obj = C(a, make())`: the arguments that are computed in place are bound to locals first, in the order they are
    # evaluated in (`frame__r1 = make(); obj = C(a, frame__r1)`), so that the field has a name to stand for
    taken = set(st) | {n.id for n in ast.walk(node) if isinstance(n, ast.Name)}
    for obj, (s_, sub, blk) in cands.items():
        if not any(isinstance(v, ast.AST) for v in sub.values()):
            continue
        c = s_.value
        by_id = {id(v): f for f, v in sub.items() if isinstance(v, ast.AST)}
        pre = []
        slots = [(c.args, i) for i in range(len(c.args))] + [(k, None) for k in c.keywords]
        for (holder, i) in slots:
            v = holder[i] if i is not None else holder.value
            if isinstance(v, (ast.Name, ast.Constant)):
                continue
            k = 1
            base = by_id.get(id(v), "arg")
            while "%s__r%d" % (base, k) in taken:
                k += 1
            tmp = "%s__r%d" % (base, k)
            taken.add(tmp)
            pre.append(ast.copy_location(ast.Assign(targets=[ast.Name(id=tmp, ctx=ast.Store())], value=v), s_))
            ref = ast.copy_location(ast.Name(id=tmp, ctx=ast.Load()), v)
            if i is not None:
                holder[i] = ref
            else:
                holder.value = ref
            if id(v) in by_id:
                sub[by_id[id(v)]] = tmp
        at = [j for j, x in enumerate(blk) if x is s_]
        if at:
            blk[at[0]:at[0]] = pre
            ast.fix_missing_locations(node)
        else:
            for f in [f for f, v in sub.items() if isinstance(v, ast.AST)]:
                sub.pop(f)

    class T(ast.NodeTransformer):
        changed = False

        def visit_Attribute(self, n):
            self.generic_visit(n)
            if isinstance(n.ctx, ast.Load) and isinstance(n.value, ast.Name) and n.value.id in cands and n.attr in cands[n.value.id][1]:
                T.changed = True
                return ast.copy_location(ast.Name(id=cands[n.value.id][1][n.attr], ctx=ast.Load()), n)
            return n
    T().visit(node)
    return T.changed


def _nf_first_answer(fi, node):
    """`return next(chain(g1(), g2(), ...))` / `return next(g())` over local generator closures (no parameters, only
    mentioned there, every `yield` a statement of its own outside loops / try / with): the first value any of them
    yields is returned, a generator that ends without yielding hands over to the next, none yielding raises
    StopIteration — written out as exactly that:

        while True:                      (g1)
            <body of g1: `yield E` -> `return E`, `return` -> `break`>
            break
        ... g2 ...
        raise StopIteration()
    """
    mod = fi.module
    changed = False
    for blk in _blocks_of(node):
        for i, st in enumerate(blk):
            c = st.value if isinstance(st, ast.Return) else None
            if not (isinstance(c, ast.Call) and isinstance(c.func, ast.Name) and c.func.id == "next" and len(c.args) == 1 and not c.keywords):
                continue
            src = c.args[0]
            if isinstance(src, ast.Call) and not src.keywords and src.args and (
                    (isinstance(src.func, ast.Name) and mod.imports.get(src.func.id) == "itertools:chain")
                    or (isinstance(src.func, ast.Attribute) and src.func.attr == "chain" and isinstance(src.func.value, ast.Name)
                        and mod.imports.get(src.func.value.id) == "itertools")):
                gens = list(src.args)
            else:
                gens = [src]
            defs = {}
            for b in _blocks_of(node):
                for x in b:
                    if isinstance(x, ast.FunctionDef):
                        defs.setdefault(x.name, []).append((b, x))
            outer_names = {n.id for n in _own_nodes(node) if isinstance(n, ast.Name)} | set(_stores(node))
            parts = []
            for k, g in enumerate(gens):
                if not (isinstance(g, ast.Call) and isinstance(g.func, ast.Name) and not g.args and not g.keywords and len(defs.get(g.func.id, [])) == 1):
                    parts = None
                    break
                home, fn = defs[g.func.id][0]
                a = fn.args
                if a.args or a.posonlyargs or a.kwonlyargs or a.vararg or a.kwarg or fn.decorator_list \
                        or sum(1 for n in ast.walk(node) if isinstance(n, ast.Name) and n.id == fn.name) != 1:
                    parts = None
                    break
                body = copy.deepcopy([x for x in fn.body if not (isinstance(x, ast.Expr) and isinstance(x.value, ast.Constant) and isinstance(x.value.value, str))])
                ok = [True]
                seen_yield = [False]

                def conv(stmts, in_loop, guarded):
                    out = []
                    for x in stmts:
                        if isinstance(x, ast.Expr) and isinstance(x.value, ast.Yield):
                            if in_loop or guarded:
                                ok[0] = False
                            seen_yield[0] = True
                            out.append(ast.copy_location(ast.Return(value=x.value.value), x))
                            continue
                        if isinstance(x, ast.Return):
                            if x.value is not None or in_loop:
                                ok[0] = False
                            out.append(ast.copy_location(ast.Break(), x))
                            continue
                        if isinstance(x, _FUNCS + (ast.ClassDef,)):
                            if any(isinstance(y, (ast.Yield, ast.YieldFrom)) for y in ast.walk(x)):
                                ok[0] = False
                            out.append(x)
                            continue
                        if any(isinstance(y, (ast.Yield, ast.YieldFrom, ast.Nonlocal, ast.Global, ast.Await)) for y in
                               [x] + [z for f_ in ("test", "value", "iter", "targets", "target", "items", "exc") for z in _as_list(getattr(x, f_, None)) for z in ast.walk(z)]
                               if not isinstance(y, ast.stmt)) or isinstance(x, (ast.Nonlocal, ast.Global)):
                            ok[0] = False
                        loop = in_loop or isinstance(x, (ast.For, ast.While, ast.AsyncFor))
                        grd = guarded or isinstance(x, (ast.Try, ast.With, ast.AsyncWith))
                        for fld in ("body", "orelse", "finalbody"):
                            b = getattr(x, fld, None)
                            if isinstance(b, list) and b and isinstance(b[0], ast.stmt):
                                setattr(x, fld, conv(b, loop, grd))
                        for h in getattr(x, "handlers", []) or []:
                            h.body = conv(h.body, loop, grd)
                        out.append(x)
                    return out
                body = conv(body, False, False)
                if not ok[0] or not seen_yield[0]:
                    parts = None
                    break
                # the generator's own locals stay apart from the function's
                own = {n.id for x in body for n in ast.walk(x) if isinstance(n, ast.Name) and isinstance(n.ctx, (ast.Store, ast.Del))}
                ren = {nm: "%s__g%d" % (nm, k + 1) for nm in own if nm in outer_names}
                if ren:
                    for x in body:
                        for n in ast.walk(x):
                            if isinstance(n, ast.Name) and n.id in ren:
                                n.id = ren[n.id]
                parts.append((home, fn, ast.copy_location(ast.While(test=ast.Constant(value=True), body=body + [ast.copy_location(ast.Break(), st)], orelse=[]), st)))
            if not parts:
                continue
            stop = ast.copy_location(ast.Raise(exc=ast.Call(func=ast.Name(id="StopIteration", ctx=ast.Load()), args=[], keywords=[]), cause=None), st)
            blk[i:i + 1] = [w for (_h, _f, w) in parts] + [stop]
            for (home, fn, _w) in parts:
                home.remove(fn)
                if not home:
                    home.append(ast.copy_location(ast.Pass(), fn))
            ast.fix_missing_locations(node)
            return True or changed
    return changed


def _as_list(v):
    if v is None:
        return []
    if isinstance(v, list):
        return [x.context_expr if isinstance(x, ast.withitem) else x for x in v if isinstance(x, (ast.AST,))]
    return [v] if isinstance(v, ast.AST) else []


def normal_form(ck, fi):
    """`fi` as the rules read it: maps, lambdas, constant dispatch tables and comprehensions over helpers written out,
    the helpers that this exposes inlined like any other new helper, canonical form re-applied.  The function itself
    when none of these occurs in it (always so on the reference tree)."""
    cache = ck.__dict__.setdefault("_normal_forms", {})
    if fi.qual in cache and cache[fi.qual][0] is fi:
        return cache[fi.qual][1]
    from ..inline import Inliner, _all_names
    from ..loader import FuncInfo
    from ..canon import canonicalise
    node = copy.deepcopy(fi.node)
    out = FuncInfo(fi.module, node, fi.qual, fi.cls, fi.parent)
    fi.module._index_nested(out)
    changed = _nf_record_fields(fi, node)
    while _nf_first_answer(fi, node):
        changed = True
    changed = _nf_maps(node) or changed
    changed = _nf_lambdas(node) or changed
    changed = _nf_dispatch(node) or changed
    inl = None
    try:
        inl = Inliner(ck.repo)
    except Exception:   # noqa
        inl = None
    if inl is not None:
        out.nested = {}
        fi.module._index_nested(out)

        def resolves(c):
            try:
                return inl.resolve(c, out) is not None
            except Exception:   # noqa
                return False
        # a local closure that rebinds a variable of this function (`nonlocal n`) does, once written out in place,
        # exactly what it did as a closure: the declaration is dropped so that it can be written out
        stripped = []
        shared = set()
        for sub in list(out.nested.values()):
            nl = [x for x in sub.node.body if isinstance(x, ast.Nonlocal)]
            if nl and not any(isinstance(x, (ast.Nonlocal, ast.Global)) for y in sub.node.body for x in ast.walk(y) if x not in nl) \
                    and not any(isinstance(x, _FUNCS + (ast.Lambda,)) for y in sub.node.body for x in ast.walk(y)):
                sub.node.body = [x for x in sub.node.body if x not in nl] or [ast.Pass()]
                stripped.append(sub.node.name)
                shared |= {nm for x in nl for nm in x.names}
                changed = True
        changed = _nf_comprehension_loops(node, resolves) or changed
        # a local closure that the front end left because it was handed to helpers, and that is only called now that
        # those helpers are written out, is written out as well
        def callable_closures():
            callees = {id(c.func) for c in ast.walk(node) if isinstance(c, ast.Call)}
            for sub in list(out.nested.values()):
                uses = [x for x in ast.walk(node) if isinstance(x, ast.Name) and x.id == sub.node.name]
                if uses and all(id(x) in callees for x in uses) and any(resolves(c) for c in _own_nodes(node)
                                                                         if isinstance(c, ast.Call) and isinstance(c.func, ast.Name) and c.func.id == sub.node.name):
                    return True
            return False
        changed = callable_closures() or changed
        rounds = 0
        while changed and rounds < 3:
            rounds += 1
            out.nested = {}
            fi.module._index_nested(out)
            # (the variables such a closure shares with this function keep their names)
            inl.rewrite_block_owner(node, out, _all_names(node) - shared, 0)
            out.nested = {}
            fi.module._index_nested(out)
            if not callable_closures():
                break
        if any(isinstance(c, ast.Call) and isinstance(c.func, ast.Name) and c.func.id in stripped for c in _own_nodes(node)):
            cache[fi.qual] = (fi, fi)     # a call of such a closure is left: the function stays as it is
            return fi
    if not changed:
        cache[fi.qual] = (fi, fi)
        return fi
    ast.fix_missing_locations(node)
    canonicalise(ast.Module(body=[node], type_ignores=[]))
    out.nested = {}
    fi.module._index_nested(out)
    cache[fi.qual] = (fi, out)
    return out


def nfa(ck, qual):
    """FA of the function `qual` in its local normal form."""
    return FA(ck, normal_form(ck, ck.fn(qual)))


# =================================================================================================
# R1
# =================================================================================================

def _one_append_per_iteration(ck, fa: FA, loop_ast, list_name, rule, tag):
    """Every path loop-head(T) -> loop-head performs exactly one <list_name>.append."""
    apps = [c.node for c in pushes(fa, list_name) if fa.inside(c.node, loop_ast)]
    miss, twice = iteration_counts(fa, heads_of(fa, loop_ast), fa.nodes_all(apps))
    ck.paths_enumerated += 1
    ck.ob(rule, fa.key(loop_ast, tag + "-at-least-one"), not miss and bool(apps),
          "every iteration appends a result" if not miss and apps else
          "an iteration can reach the next element without appending a result: later results shift to wrong positions", fa.where(loop_ast))
    ck.ob(rule, fa.key(loop_ast, tag + "-at-most-one"), not twice,
          "no iteration appends twice" if not twice else
          "an iteration can append two results for one element", fa.where(loop_ast))
    return apps


def _index_is_input_position(fa, seqs, loops, idx_expr, stmt):
    """Is `idx_expr` (in `results[idx_expr] = ...`) the element's position in the input list?"""
    if isinstance(idx_expr, ast.Name):
        lp = fa.enclosing(stmt, ast.For)
        while lp is not None:
            names = {n.id for n in ast.walk(lp.target) if isinstance(n, ast.Name)}
            if idx_expr.id in names:
                for (l, p) in loops:
                    if l is lp:
                        return p.pos == idx_expr.id and p._bound_here(fa, idx_expr.id, fa.nodes(stmt)[0])
                return False
            lp = fa.enclosing(lp, ast.For)
        return False
    if isinstance(idx_expr, ast.Subscript) and isinstance(idx_expr.value, ast.Name):
        # positions[j] where positions = [i for i in range(len(param)) if ...]
        def positions(d):
            if not (isinstance(d.value, ast.ListComp) and len(d.value.generators) == 1):
                return False
            p_ = pos_iter(seqs, d.value.generators[0].target, d.value.generators[0].iter, d.node)
            return p_ is not None and p_.pos is not None and A.norm(d.value.elt) == p_.pos
        for i in fa.nodes(stmt):
            ds = fa.df.reaching(i, idx_expr.value.id)
            if ds and all(positions(d) for d in ds):
                return True
    return False


def _check_index_fills(ck, fa, seqs, loops, R, result_name, tag, also_ok=None):
    fills = []
    for st in fa.stmts(ast.Assign):
        for t in st.targets:
            if isinstance(t, ast.Subscript) and isinstance(t.value, ast.Name) and t.value.id == result_name and fa.nodes(st):
                fills.append((st, t.slice))
    for (st, idx) in fills:
        ok = _index_is_input_position(fa, seqs, loops, idx, st) or (also_ok is not None and also_ok(st, idx))
        ck.ob(R, fa.key(st, tag + "-slot-index"), ok, "the slot index is the element's position in the input" if ok else
              "`%s` fills slot `%s`, which is not the element's position in the input list (it counts another sequence): results are "
              "attributed to the wrong calls" % (A.short(st, 50), A.norm(idx)), fa.where(st))
    return fills


def batch_call_role(seqs, e, at):
    """'bulk': the store's answer to a bulk query for exactly the input elements' references, in input order."""
    if isinstance(e, ast.Call) and A.call_attr(e) == "get_mementos" and len(e.args) == 1 and not e.keywords:
        if precheck_elements_ok(seqs, e.args[0], at):
            return "bulk"
    return None


def precheck_elements_ok(seqs, arg, at):
    elts = [bound_value(seqs.fa, x, n) + (p,) for (x, n, p) in per_element(seqs, arg, at) or []]
    return bool(elts) and all(
        isinstance(x, ast.Call) and A.call_attr(x) == "fn_reference_with_arg_hash" and not x.args and not x.keywords
        and p.elem_role(seqs, A.call_recv(x), n) == "input" for (x, n, p) in elts)


def batch_seqs(br):
    return Seqs(br, "fn_reference_with_args", batch_call_role)


def _fill_sites(fa, res_name):
    """[(statement node ids, value expression)] for every statement that puts a value into the result list."""
    out = []
    for c in pushes(fa, res_name):
        out.append((fa.nodes(c.node), c.elem))
    for st in fa.stmts(ast.Assign):
        if any(isinstance(t, ast.Subscript) and A.dotted(t.value) == res_name for t in st.targets) and fa.nodes(st):
            out.append((fa.nodes(st), st.value))
    return out


def result_name(fa):
    """The local a function returns as its result list (its name does not matter)."""
    rets = fa.returns()
    names = sorted({r.value.id for r in rets if isinstance(r.value, ast.Name)})
    return names[0] if len(names) == 1 else "results"


def result_loops(fa, ploops, res_name, also=()):
    """The outermost position loops that put values into the result list (or contain one of the `also` nodes)."""
    marks = [c.node for c in pushes(fa, res_name)]
    marks += [st for st in fa.stmts(ast.Assign) if any(isinstance(t, ast.Subscript) and A.dotted(t.value) == res_name for t in st.targets)]
    marks += list(also)
    return [(l, p) for (l, p) in ploops if fa.enclosing(l, ast.For) is None and any(fa.inside(m, l) for m in marks)]


def check_slots(ck, R1):
    """One result slot per input element, at the element's position (batch runner and the
    cache/store merge of get_mementos)."""
    ck.rule(R1, "one slot per element: every path through one iteration of the batch loop (and of the cache/store merge) "
                "fills exactly one result slot, at the element's input position; the list is returned unfiltered and unsorted", 5)
    br = nfa(ck, RL + ".LocalRunnerBackend.batch_run")
    seqs = batch_seqs(br)
    # the result list is whatever local batch_run returns (its name does not matter)
    RES = result_name(br)
    ploops = position_loops(br, seqs)
    fills = _check_index_fills(ck, br, seqs, ploops, R1, RES, "batch")
    loops = result_loops(br, ploops, RES)
    if len(loops) != 1:
        ck.ob(R1, br.key(None, "batch-loop"), False, "batch_run has %d loops enumerating the input list" % len(loops), br.where())
        return None, br
    loop_ast, pit = loops[0]
    heads = heads_of(br, loop_ast)
    loop = br.cfg.node(heads[0])
    if not fills:
        _one_append_per_iteration(ck, br, loop_ast, RES, R1, "batch")
    else:
        # indexed form: every iteration assigns its slot or hands the element on unchanged; an
        # element that is deferred must be filled by a later loop at its own position (checked above)
        appends = pushes(br, RES)
        ck.ob(R1, br.key(loop_ast, "batch-no-mixed-forms"), not appends, "slots are filled by index only" if not appends else
              "results are filled both by index and by append", br.where(loop_ast))
    rets = br.returns()
    okr = len(rets) == 1 and isinstance(rets[0].value, ast.Name)
    ck.ob(R1, br.key(None, "returned-as-is"), okr, "results are returned unfiltered, in slot order" if okr else
          "batch_run does not return the plain results list", br.where())
    muts = [c for c in other_edits(br, RES) if isinstance(c, ast.Call) or isinstance(c, ast.AugAssign)]
    ck.ob(R1, br.key(None, "no-reordering"), not muts, "results is only filled, never reordered" if not muts else
          "results is reordered or edited (%s)" % A.short(muts[0], 40), br.where(muts[0] if muts else None))
    # whatever exception (of class Exception) the element's run raises ends in that element's slot: every handler the
    # exception can arrive at leads, on every path, to a store of the caught exception before the next element — no
    # handler lets it out (a narrower `except X: raise` in front of the catch-all aborts the batch for that class)
    runs = [i for c in br.calls("memento_run_local") if br.inside(c, loop_ast) for i in br.nodes(c)]
    sites = _fill_sites(br, RES)
    stores = {i for (ids, val) in sites for i in ids if any(d.startswith("exc:") for d in br.df.deps(val, i))}
    okh = bool(runs) and bool(stores)
    for i in runs:
        arrives = [d for (d, l) in br.cfg.succ[i] if l == "exc"]
        heads_ = [br.cfg.node(d) for d in arrives]
        okh = okh and bool(arrives) and all(nd.kind == "except" for nd in heads_) \
            and any(nd.ast.type is not None and A.norm(nd.ast.type) == "Exception" and nd.ast.name for nd in heads_) \
            and not any(nd.ast.type is None or A.norm(nd.ast.type) == "BaseException" for nd in heads_)
        if okh:
            r = sense(br).reach(arrives, removed=stores)
            okh = not (set(heads) & r) and br.cfg.exit not in r and br.cfg.raise_exit not in r
            ck.paths_enumerated += 1
    ck.ob(R1, br.key(loop_ast, "failure-in-slot"), okh, "a failing element's exception (of any class) is stored in its own slot" if okh else
          "an element's exception is not caught as `Exception` and stored in its slot: an error raised while running one element aborts or shifts the batch", br.where(loop_ast))
    ck.run(_check_merge, ck, R1)
    return (loop, loop_ast, pit, seqs), br


def merge_call_role(seqs, e, at):
    """'cache': the memory cache's answer for the input list (one slot per element, None on a miss)."""
    if isinstance(e, ast.Call) and A.call_attr(e) == "get_mementos" and len(e.args) == 1 and not e.keywords \
            and A.call_recv(e) is not None and seqs.fa.xnorm(A.call_recv(e), at) == "self._memory_cache" and seqs.role(e.args[0], at) == "input":
        return "cache"
    return None


class GapSeqs(Seqs):
    """Sequences that have one element per cache MISS, in input order: 'misses' = the list of the input positions
    at which the cache had no answer (ascending), 'store' = what the metadata source answered when asked for exactly
    the input elements at those positions, in that order."""

    def __init__(self, base, is_source):
        Seqs.__init__(self, base.fa, None, self._call_role)
        self.base = base
        self.is_source = is_source

    def miss_positions(self, e, at):
        """Is `e` a list `[p for p in <positions of the input> if <the cache's answer at p is absent>]`, bound once
        and never edited afterwards?"""
        fa = self.fa
        if not isinstance(e, ast.Name) or e.id in fa.df.params or len(all_defs(fa, e.id)) != 1:
            return False
        if pushes(fa, e.id) or other_edits(fa, e.id):
            return False
        v, vat = bound_value(fa, e, at)
        if not (isinstance(v, ast.ListComp) and len(v.generators) == 1 and len(v.generators[0].ifs) == 1):
            return False
        g = v.generators[0]
        p = pos_iter(self.base, g.target, g.iter, vat)
        if p is None or p.pos is None or A.norm(v.elt) != p.pos:
            return False
        facts = ast_atoms(g.ifs[0], True)
        return len(facts) == 1 and ((facts[0][0] == "none" and facts[0][2]) or (facts[0][0] == "truth" and not facts[0][2])) \
            and p.elem_role(self.base, facts[0][1], vat) == "cache"

    def _role(self, e, at, _seen):
        if self.miss_positions(self.unwrap(e), at):
            return "misses"
        return Seqs._role(self, e, at, _seen)

    @staticmethod
    def _call_role(self, e, at):
        if not (isinstance(e, ast.Call) and self.is_source(e) and len(e.args) == 1 and not e.keywords):
            return None
        elts = per_element(self, e.args[0], at)
        if elts and all(isinstance(x, ast.Subscript) and self.base.role(x.value, n) == "input" and p.elem_role(self, x.slice, n) == "misses" for (x, n, p) in elts):
            return "store"
        return None


def _fills_gap(gm, seqs, gaps, res_name, st, idx):
    """`results[idx] = value` in the form "start from the cache's answers, then fill each gap": the list starts with
    one slot per input position, the statement runs exactly once per iteration of a loop over the miss positions, `idx`
    is that iteration's miss position and `value` the store's answer for it."""
    lp = gm.enclosing(st, ast.For)
    if lp is None or gm.enclosing(lp, (ast.For, ast.While)) is not None or not gm.nodes(lp) or not gm.nodes(st):
        return False
    p = pos_iter(gaps, lp.target, lp.iter, gm.nodes(lp)[0], lp)
    at = gm.nodes(st)[0]
    if p is None or p.elem_role(gaps, idx, at) != "misses" or p.elem_role(gaps, st.value, at) != "store":
        return False
    heads = heads_of(gm, lp)
    inits = [d for h in heads for d in gm.df.reaching(h, res_name) if not (d.stmt is not None and gm.inside(d.stmt, lp))]
    if not inits or not all(d.kind == "assign" and d.value is not None and seqs.role(d.value, d.node) in ("cache", "aligned") for d in inits):
        return False
    for d in inits:
        if seqs.role(d.value, d.node) == "aligned":
            elts = per_element(seqs, d.value, d.node)
            if not elts or not all(q.elem_role(seqs, x, n) == "cache" for (x, n, q) in elts):
                return False
    fills = [s for s in gm.stmts(ast.Assign) if gm.inside(s, lp) and gm.nodes(s)
             and any(isinstance(t, ast.Subscript) and A.dotted(t.value) == res_name for t in s.targets)]
    fill_nodes = gm.nodes_all(fills)
    _skip, twice = iteration_counts(gm, heads, fill_nodes)
    # a gap may be left as it is only when the store's answer for it is None too (the slot holds the cache's None)
    nothing = edges_implying(gm, lambda k, e, b, n: k == "none" and b and p.elem_role(gaps, e, n) == "store")
    skip = set(heads) & gm.cfg.reach(body_starts(gm, heads), removed=set(fill_nodes), edge_ok=not_edges(nothing))
    return not skip and not twice


def _check_merge(ck, R1):
    """The cache/store merge of StorageBackendBase.get_mementos."""
    gm = nfa(ck, "storage_base.StorageBackendBase.get_mementos")
    seqs = Seqs(gm, "fns", merge_call_role)
    # roles: RESG = the returned list; the store answer = what the metadata source answered for the list of misses;
    # 'cache' = the per-position cache answers; the cursor is the counter indexing the store answer
    RESG = result_name(gm)
    qcalls = [c for c in gm.calls("get_mementos") if gm.nodes(c) and A.call_recv(c) is not None and gm.xnorm(A.call_recv(c), gm.nodes(c)[0]) == "self._metadata_source"]
    gm.some(qcalls, "metadata-source get_mementos call")
    # asking the store for every input element, in order, and returning its answer is a merge with no hits: such a
    # return (a cache-less back end answered up front) needs no further look
    whole = [c for c in qcalls if len(c.args) == 1 and not c.keywords and seqs.role(unwrap_copy(c.args[0]), gm.nodes(c)[0]) == "input"
             and any(r.value is not None and unwrap_copy(r.value) is c for r in gm.returns())]
    qcalls = [c for c in qcalls if c not in whole]
    gm.some(qcalls, "metadata-source get_mementos call for the cache misses")

    def is_store_answer(e, at):
        lv = origins(gm, e, at)
        return bool(lv) and all(x in qcalls for (x, _n) in lv)

    ploops = position_loops(gm, seqs)
    gaps = GapSeqs(seqs, lambda c: c in qcalls)
    gfills = _check_index_fills(ck, gm, seqs, ploops, R1, RESG, "merge", also_ok=lambda st, idx: _fills_gap(gm, seqs, gaps, RESG, st, idx))
    if gfills:
        return
    mloops = result_loops(gm, ploops, RESG)
    if len(mloops) != 1:
        ck.ob(R1, gm.key(None, "merge-loop"), False, "get_mementos has no single merge loop over the input positions", gm.where())
        return
    ml, pit = mloops[0]
    heads = heads_of(gm, ml)
    _one_append_per_iteration(ck, gm, ml, RESG, R1, "merge")

    def is_cache_elem(e, n):
        return pit.elem_role(seqs, e, n) == "cache"

    miss_edges = {(s, l) for (s, l) in absent_edges(gm, is_cache_elem) if gm.inside(gm.cfg.node(s).ast, ml)}
    hit_edges = {(s, l) for (s, l) in present_edges(gm, is_cache_elem) if gm.inside(gm.cfg.node(s).ast, ml)}
    uses = [n for n in A.walk_local(ml) if isinstance(n, ast.Subscript) and isinstance(n.ctx, ast.Load) and gm.nodes(n)
            and is_store_answer(n.value, gm.nodes(n)[0])]
    cursors = {n.slice.id if isinstance(n.slice, ast.Name) else None for n in uses}
    oki = len(cursors) == 1 and None not in cursors and bool(miss_edges)
    if not uses and miss_edges:
        # the store answer consumed through an iterator made once before the loop: next(it) is read + advance in one
        def is_answer_iter(e, at, maker):
            lv = origins(gm, e, at)
            if not (len(lv) == 1 and isinstance(lv[0][0], ast.Call) and isinstance(lv[0][0].func, ast.Name)):
                return False
            mk = lv[0][0]
            made = mk.func.id == "iter" if maker == "iter" else gm.fi.module.imports.get(mk.func.id) == "collections:deque"
            return made and len(mk.args) == 1 and not mk.keywords and is_store_answer(mk.args[0], lv[0][1]) and not gm.inside(mk, ml) \
                and gm.enclosing(mk, (ast.For, ast.While)) is None
        # read + advance in one: next(it) on an iterator, q.popleft() on a deque, made once from the store's answer
        nexts = [c for c in gm.calls("next") if isinstance(c.func, ast.Name) and c.args and gm.nodes(c) and is_answer_iter(c.args[0], gm.nodes(c)[0], "iter")]
        nexts += [c for c in gm.calls("popleft") if not c.args and gm.nodes(c) and is_answer_iter(A.call_recv(c), gm.nodes(c)[0], "deque")]
        # ... and the object is used for nothing else
        cursor_names = {A.dotted(c.args[0]) if A.call_attr(c) == "next" else A.dotted(A.call_recv(c)) for c in nexts}
        stray = [n for n in A.walk_body(gm.node) if isinstance(n, ast.Name) and isinstance(n.ctx, ast.Load) and n.id in cursor_names
                 and not any(n is (c.args[0] if A.call_attr(c) == "next" else A.call_recv(c)) for c in nexts)]
        if stray:
            nexts = []
        others = [c for c in nexts if not gm.inside(c, ml) or not gm.unconditional(c)]
        if nexts and not others:
            nn = gm.nodes_all(nexts)
            oki = exactly_on(gm, heads, nn, miss_edges, hit_edges) and not iteration_counts(gm, heads, nn)[1]
            ck.paths_enumerated += 2
    elif oki:
        cursor = cursors.pop()
        binds = all_defs(gm, cursor)
        incs = [d.stmt for d in binds if d.kind == "aug" and isinstance(d.stmt.op, ast.Add) and A.norm(d.stmt.value) == "1" and gm.inside(d.stmt, ml)]
        inits = [d.stmt for d in binds if d.kind == "assign" and isinstance(d.value, ast.Constant) and type(d.value.value) is int and d.value.value == 0
                 and gm.enclosing(d.stmt, (ast.For, ast.While)) is None]
        oki = bool(incs) and bool(inits) and len(incs) + len(inits) == len(binds) and cursor not in gm.df.params
        if oki:
            inc_nodes = gm.nodes_all(incs)
            use_nodes = set(gm.nodes_all(uses))
            # the cursor advances on a miss, only on a miss, once, and after the store answer was read at it
            oki = exactly_on(gm, heads, inc_nodes, miss_edges, hit_edges)
            _skip, twice = iteration_counts(gm, heads, inc_nodes)
            after = gm.cfg.reach([d for i in inc_nodes for (d, l) in gm.cfg.succ[i] if l != "exc"], removed=set(heads))
            oki = oki and not twice and not (use_nodes & after)
            # and starts at zero when the loop is entered
            for h in heads:
                ent = [d for d in gm.df.reaching(h, cursor) if not (d.stmt is not None and gm.inside(d.stmt, ml))]
                oki = oki and bool(ent) and all(d.stmt in inits for d in ent)
            ck.paths_enumerated += 3
    ck.ob(R1, gm.key(None, "miss-counter"), oki, "the store-result cursor advances exactly on cache misses" if oki else
          "the cursor into the store results does not advance exactly once per cache miss: results are attributed to the wrong calls", gm.where())
    # the store is asked for exactly the misses, in input order
    okq = all(c.args and not c.keywords for c in qcalls)
    for c in qcalls:
        if not okq:
            break
        lv = origins(gm, c.args[0], gm.nodes(c)[0])
        okq = len(lv) == 1
        if not okq:
            break
        (qf, qat) = lv[0]
        if isinstance(qf, ast.ListComp) and len(qf.generators) == 1:
            g_ = qf.generators[0]
            p = pos_iter(seqs, g_.target, g_.iter, qat)
            okq = p is not None and p.elem_role(seqs, qf.elt, qat) == "input" and len(g_.ifs) == 1
            if okq:
                facts = ast_atoms(g_.ifs[0], True)
                okq = len(facts) == 1 and ((facts[0][0] == "none" and facts[0][2]) or (facts[0][0] == "truth" and not facts[0][2])) \
                    and p.elem_role(seqs, facts[0][1], qat) == "cache"
        elif isinstance(qf, ast.List) and not qf.elts and isinstance(c.args[0], ast.Name):
            # filled by a loop: appended to exactly on the misses of a position loop, with the input element
            name = c.args[0].id
            apps = pushes(gm, name)
            homes = [enclosing_position(gm, ploops, x.node) for x in apps]
            okq = bool(apps) and not other_edits(gm, name) and all(h is not None and h[0] is homes[0][0] for h in homes)
            if okq:
                ql, qp = homes[0]

                def is_ce(e, n, qp=qp):
                    return qp.elem_role(seqs, e, n) == "cache"
                an = gm.nodes_all(x.node for x in apps)
                okq = all(qp.elem_role(seqs, x.elem, gm.nodes(x.node)[0]) == "input" for x in apps) \
                    and exactly_on(gm, heads_of(gm, ql), an, absent_edges(gm, is_ce), present_edges(gm, is_ce)) \
                    and not iteration_counts(gm, heads_of(gm, ql), an)[1]
        else:
            okq = False
    ck.ob(R1, gm.key(None, "miss-list"), okq, "the store is queried for exactly the cache misses, in order" if okq else
          "the list of store queries is not exactly the cache misses in input order", gm.where())


def check_batch_goes_through_runner(ck, R):
    """call_batch / call decide nothing themselves: every element is handed to memento_run_batch, and an
    outcome (value or failure) is only ever taken from what that call returned.  A front end that asks the
    store first (a fail-fast on memoized failures, a shortcut for memoized values) raises / returns for
    one element before the earlier ones were computed — not what element-wise calls in order give."""
    for q in ("base.MementoFunctionBase.call_batch", "base.MementoFunctionBase.call"):
        fa = nfa(ck, q)
        runs = fa.nodes_all(fa.calls("memento_run_batch"))
        ck.need(runs, "%s: memento_run_batch call not found" % q)

        def on_store(c):
            if A.call_attr(c) == "process_existing_memento":
                return True
            recv = A.call_recv(c)
            if recv is None or not fa.nodes(c):
                return False
            if (A.dotted(recv) or "").split(".")[0] in ("storage_backend", "storage"):
                return True
            # the cluster's store under any local name
            return any(x == "getattr:storage" or (x.startswith("attr:") and x.endswith(".storage")) for x in fa.deps(recv, fa.nodes(c)[0]))
        store_calls = [c for c in fa.calls() if isinstance(c.func, ast.Attribute) and on_store(c) or A.call_attr(c) == "process_existing_memento"]
        ck.ob(R, fa.key(None, "no-store-access-in-front-end"), not store_calls,
              "the front end does not consult the store itself" if not store_calls else
              "`%s`: %s consults the store outside the runner, so an element can be answered (or a memoized failure raised) before the elements "
              "in front of it were computed" % (A.short(store_calls[0], 60), q.split(".")[-1]), fa.where(store_calls[0]) if store_calls else fa.where())
        for r in fa.stmts(ast.Raise):
            if r.exc is None or (isinstance(r.exc, ast.Call) and isinstance(r.exc.func, ast.Name) and r.exc.func.id[:1].isupper()):
                continue  # argument validation raises a freshly constructed error
            if not fa.nodes(r):
                continue
            ok = all(fa.cfg.must_pass(runs, i) for i in fa.nodes(r)) and any(x.startswith("call:memento_run_batch") for x in fa.deps(r.exc))
            ck.ob(R, fa.key(r, "raise-after-run"), ok, "an element's exception is raised only after the whole batch went through the runner" if ok else
                  "`%s` can run before / without memento_run_batch: the exception raised is not the first one of an in-order evaluation"
                  % A.short(r, 50), fa.where(r))


# =================================================================================================
# R3 helpers
# =================================================================================================

def call_batch_dispatch(cb):
    """(the memento_run_batch call, the per-element view of the list it is given or None)."""
    run = cb.one([c for c in cb.calls("memento_run_batch") if cb.nodes(c)], "memento_run_batch call")
    seqs = Seqs(cb, "kwargs_list")
    arg = A.arg_or_kw(run, 1, "fn_reference_with_args")
    elts = per_element(seqs, arg, cb.nodes(run)[0]) if arg is not None else None
    return run, seqs, arg, elts


def _is_run_result(cb, run, e, at):
    lv = origins(cb, e, at)
    return bool(lv) and all(x is run for (x, _n) in lv)


# ---- "the first failing element, in order" ---------------------------------------------------------------------

def eval3(fa, t, n, atom, _depth=0):
    """Three-valued value (True / False / None = not decided) of the branch test `t` at CFG node `n` when the atomic
    tests `atom(expr, node)` recognises have the values it answers.  Negation, conjunction, disjunction, conditional
    expressions and boolean locals bound once are evaluated through."""
    v = atom(t, n)
    if v is not None:
        return v
    if isinstance(t, ast.UnaryOp) and isinstance(t.op, ast.Not):
        x = eval3(fa, t.operand, n, atom, _depth)
        return None if x is None else not x
    if isinstance(t, ast.BoolOp):
        vs = [eval3(fa, x, n, atom, _depth) for x in t.values]
        dom = isinstance(t.op, ast.Or)
        if any(x is dom for x in vs):
            return dom
        return (not dom) if all(x is (not dom) for x in vs) else None
    if isinstance(t, ast.IfExp):
        c = eval3(fa, t.test, n, atom, _depth)
        a, b = eval3(fa, t.body, n, atom, _depth), eval3(fa, t.orelse, n, atom, _depth)
        if c is None:
            return a if a is b else None
        return a if c else b
    if isinstance(t, ast.Name) and _depth < 4:
        e, at = bound_value(fa, t, n)
        if e is not t and isinstance(e, (ast.Compare, ast.BoolOp, ast.UnaryOp, ast.IfExp, ast.Call)):
            return eval3(fa, e, at, atom, _depth + 1)
    return None


def under(fa, atom, follow_exc=False):
    """edge_ok predicate: only the branch edges that can be taken when the atomic tests have the values `atom` gives
    them.  Unless `follow_exc`, exception edges out of anything but a `raise` statement are not followed (a scan
    itself does not fail)."""
    def ok(s, d, l):
        nd = fa.cfg.node(s)
        if l == "exc":
            return follow_exc or isinstance(nd.ast, ast.Raise)
        if l == "T" and nd.kind == "for" and isinstance(nd.ast.iter, ast.IfExp):
            # `for x in (xs if flag else ())`: with the empty alternative selected the body does not run
            taken = eval3(fa, nd.ast.iter.test, s, atom)
            arm = None if taken is None else (nd.ast.iter.body if taken else nd.ast.iter.orelse)
            if isinstance(arm, (ast.Tuple, ast.List)) and not arm.elts:
                return False
        if l in ("T", "F") and nd.kind == "test" and nd.ast is not None:
            v = eval3(fa, nd.ast, s, atom)
            return v is None or v == (l == "T")
        return True
    return ok


def failure_test(e):
    """X for `isinstance(X, Exception)` — the test by which a result slot is told from a failure slot."""
    if isinstance(e, ast.Call) and isinstance(e.func, ast.Name) and e.func.id == "isinstance" and len(e.args) == 2 and not e.keywords \
            and isinstance(e.args[1], ast.Name) and e.args[1].id == "Exception":
        return e.args[0]
    return None


def resolve_local_callee(ck, fa, call):
    """(FuncInfo, parameter names without self) of a call of a function of the same module / a method of the same
    class (through self / cls / the class name), else None."""
    f = call.func
    fi = None
    bound = False
    if isinstance(f, ast.Name):
        fi = fa.fi.module.functions.get(f.id)
    elif isinstance(f, ast.Attribute) and isinstance(f.value, ast.Name) and fa.fi.cls is not None:
        top = fa.fi
        while top.parent is not None:
            top = top.parent
        if f.value.id in ("self", "cls") or f.value.id == top.cls.name:
            fi = ck.repo.find_method(top.cls, f.attr)
            bound = fi is not None and not fi.is_static
    if fi is None or fi.node.args.vararg or fi.node.args.kwarg:
        return None
    ps = [a.arg for a in fi.node.args.posonlyargs + fi.node.args.args]
    return fi, (ps[1:] if bound else ps)


class FirstFailure:
    """Decides "this is the first element (in order) of the sequence with role `role` that is an Exception instance":
    as a loop that walks the sequence and acts (raise / return / keep-and-stop) on exactly the first failing element,
    as a value (`next(<failing elements>, None)`, the head of the list of failing elements, a local filled by such a
    loop, the result of a local function that returns such a value), under an optional standing assumption about
    other tests (`assume(expr, node)` -> True / False / None)."""

    def __init__(self, ck, fa, seqs, role, assume=None):
        self.ck, self.fa, self.seqs, self.role = ck, fa, seqs, role
        self.assume = assume or (lambda e, n: None)
        self.ploops = [(l, p) for (l, p) in position_loops(fa, seqs) if fa.enclosing(l, (ast.For, ast.While)) is None]
        self._scan_cache = {}

    # ---- loops ------------------------------------------------------------------------------------------------
    def home(self, node):
        """The scan loop (For, PosIter) around `node`."""
        for (l, p) in self.ploops:
            if self.fa.inside(node, l):
                return (l, p)
        return None

    def current(self, lp, p, e, at):
        """Does `e` denote the element the loop is looking at?"""
        return p.elem_role(self.seqs, e, at) == self.role

    def scan_complete(self, lp, p, actions):
        """The loop visits the elements in order and, for the first failing one, performs one of `actions` and stops;
        for every other element it goes on to the next one without acting."""
        fa = self.fa
        key = (id(lp), tuple(sorted(actions)))
        if key in self._scan_cache:
            return self._scan_cache[key]
        heads = heads_of(fa, lp)
        H, acts = set(heads), set(actions)
        starts = body_starts(fa, heads)

        def atom(val):
            def f(e, n):
                x = failure_test(e)
                if x is not None and self.current(lp, p, x, n):
                    return val
                return self.assume(e, n)
            return f

        def inside(i):
            a = fa.cfg.node(i).ast
            return a is not None and fa.inside(a, lp)
        ok = bool(acts) and bool(starts)
        if ok:
            # a failing element: an action is reached, never the next element or the code after the loop without one
            r = fa.cfg.reach(starts, removed=acts, edge_ok=under(fa, atom(True)))
            ok = not any(i in H or not inside(i) for i in r)
        if ok:
            # any other element: nothing is acted on and the loop goes on to the next element
            r = fa.cfg.reach(starts, removed=H, edge_ok=under(fa, atom(False)))
            ok = not (r & acts) and all(inside(i) for i in r)
        if ok:
            # after acting the scan is over
            ok = not any(H & fa.cfg.reach([a], include_start=False) for a in acts)
        self.ck.paths_enumerated += 3
        self._scan_cache[key] = ok
        return ok

    # ---- values -----------------------------------------------------------------------------------------------
    def cases(self, e, at, gates=(), _seen=None, _depth=0):
        """What `e` (at node `at`) may hold: [(leaf expression, node, gates)] through every reaching plain assignment
        and both arms of conditional expressions (gates = ((test, node, arm taken), ...))."""
        seen = _seen if _seen is not None else set()
        if isinstance(e, ast.IfExp):
            return self.cases(e.body, at, gates + ((e.test, at, True),), seen, _depth) + \
                self.cases(e.orelse, at, gates + ((e.test, at, False),), seen, _depth)
        if isinstance(e, ast.Name) and _depth < 10:
            ds = self.fa.df.reaching(at, e.id)
            if ds and all(d.kind == "assign" and d.value is not None for d in ds):
                out = []
                for d in ds:
                    if (d.node, d.name) in seen:
                        continue
                    seen.add((d.node, d.name))
                    out += self.cases(d.value, d.node, gates, seen, _depth + 1)
                return out
        return [(e, at, gates)]

    def _failing(self, g, at, what):
        """Is the comprehension / generator `g` "the failing elements of the sequence, in order" (what='elem') / "the
        positions of the failing elements, ascending" (what='pos')?"""
        if not isinstance(g, (ast.GeneratorExp, ast.ListComp)) or len(g.generators) != 1:
            return False
        gen = g.generators[0]
        if len(gen.ifs) != 1 or gen.is_async:
            return False
        p = pos_iter(self.seqs, gen.target, gen.iter, at)
        x = failure_test(gen.ifs[0])
        if p is None or x is None or p.elem_role(self.seqs, x, at) != self.role:
            return False
        if what == "pos":
            return p.pos is not None and isinstance(g.elt, ast.Name) and g.elt.id == p.pos
        return p.elem_role(self.seqs, g.elt, at) == self.role

    def _one_origin(self, e, at):
        lv = origins(self.fa, e, at)
        return lv[0] if len(lv) == 1 else (None, None)

    @staticmethod
    def _nonempty(lst):
        """Presence test read off a list: `lst`, `len(lst)`, `len(lst) > 0 / != 0 / == 0` say whether it has elements."""
        want = A.norm(lst)

        def pred(t, n):
            inner, sign = t, True
            if isinstance(t, ast.Compare) and len(t.ops) == 1 and isinstance(t.comparators[0], ast.Constant) and t.comparators[0].value == 0 \
                    and isinstance(t.ops[0], (ast.Gt, ast.NotEq, ast.Eq)):
                inner, sign = t.left, not isinstance(t.ops[0], ast.Eq)
                if not (isinstance(inner, ast.Call) and isinstance(inner.func, ast.Name) and inner.func.id == "len"):
                    return None
            if isinstance(inner, ast.Call) and isinstance(inner.func, ast.Name) and inner.func.id == "len" and len(inner.args) == 1 and not inner.keywords:
                inner = inner.args[0]
            if isinstance(inner, ast.Name) and A.norm(inner) == want:
                return sign
            return None
        return pred

    def _cursor(self, leaf, at):
        """`xs[i]` after `i = 0; while i < len(xs) and not isinstance(xs[i], Exception): i += 1` — the linear search for
        the first failing element: (loop test nodes, presence test "i is still inside the list")."""
        fa = self.fa
        if not (isinstance(leaf, ast.Subscript) and isinstance(leaf.slice, ast.Name) and self.seqs.role(leaf.value, at) == self.role):
            return None
        i = leaf.slice.id
        ds = fa.df.reaching(at, i)
        steps = [d for d in ds if d.kind == "aug"]
        inits = [d for d in ds if d.kind == "assign"]
        if len(steps) != 1 or len(inits) != 1 or len(ds) != 2 or len(all_defs(fa, i)) != 2 or i in fa.df.params:
            return None
        st = steps[0].stmt
        if not (isinstance(inits[0].value, ast.Constant) and type(inits[0].value.value) is int and inits[0].value.value == 0
                and isinstance(st.op, ast.Add) and isinstance(st.value, ast.Constant) and st.value.value == 1):
            return None
        w = fa.enclosing(st, (ast.While, ast.For))
        if not isinstance(w, ast.While) or w.orelse or len(w.body) != 1 or w.body[0] is not st or fa.enclosing(w, (ast.While, ast.For)) is not None \
                or fa.inside(fa.cfg.node(at).ast, w) or fa.inside(inits[0].stmt, w):
            return None
        wn = fa.nodes(w)
        conj = w.test.values if isinstance(w.test, ast.BoolOp) and isinstance(w.test.op, ast.And) else [w.test]

        def length_of(e, n):
            e, n = bound_value(fa, e, n)
            return isinstance(e, ast.Call) and isinstance(e.func, ast.Name) and e.func.id == "len" and len(e.args) == 1 and self.seqs.role(e.args[0], n) == self.role

        def inside_list(t, n):
            """`i < len(xs)` (True) / `i >= len(xs)`, `i == len(xs)` (False)"""
            if isinstance(t, ast.Compare) and len(t.ops) == 1 and isinstance(t.left, ast.Name) and t.left.id == i and length_of(t.comparators[0], n):
                if isinstance(t.ops[0], (ast.Lt, ast.NotEq)):
                    return True
                if isinstance(t.ops[0], (ast.GtE, ast.Eq)):
                    return False
            return None
        if len(conj) != 2 or not wn:
            return None
        bound, going = conj
        x = failure_test(going.operand) if isinstance(going, ast.UnaryOp) and isinstance(going.op, ast.Not) else None
        if inside_list(bound, wn[0]) is not True or not (isinstance(x, ast.Subscript) and isinstance(x.slice, ast.Name) and x.slice.id == i
                                                          and self.seqs.role(x.value, wn[0]) == self.role):
            return None
        return wn, inside_list

    def hit_leaf(self, leaf, at):
        """For a leaf expression that denotes the first failing element (or None when there is none): (entry nodes,
        commit nodes, presence test or None) — every evaluation passes an entry node, the choice is made at a commit
        node, and when the leaf can only be evaluated if a failing element exists (the head of the list of failing
        elements, the slot a search cursor stopped at) the third component reads tests for "there is one".
        None: not such a leaf."""
        fa = self.fa
        if isinstance(leaf, ast.Call) and isinstance(leaf.func, ast.Name) and leaf.func.id == "next" and len(leaf.args) == 2 \
                and not leaf.keywords and A.is_none(leaf.args[1]):
            g, gat = self._one_origin(leaf.args[0], at)
            if g is not None and isinstance(g, ast.GeneratorExp) and self._failing(g, gat, "elem"):
                return [at], [at], None
            return None
        if isinstance(leaf, ast.Subscript) and isinstance(leaf.slice, ast.Constant) and type(leaf.slice.value) is int and leaf.slice.value == 0:
            g, gat = self._one_origin(leaf.value, at)
            if g is not None and isinstance(g, ast.ListComp) and self._failing(g, gat, "elem") and not self._edited(leaf.value):
                return [at], [at], self._nonempty(leaf.value)
            return None
        if isinstance(leaf, ast.Subscript) and isinstance(leaf.slice, ast.Subscript) and isinstance(leaf.slice.slice, ast.Constant) \
                and type(leaf.slice.slice.value) is int and leaf.slice.slice.value == 0 and self.seqs.role(leaf.value, at) == self.role:
            # xs[positions[0]] for the ascending list of failing positions
            pl = leaf.slice.value
            g, gat = self._one_origin(pl, at)
            if g is not None and isinstance(g, ast.ListComp) and self._failing(g, gat, "pos") and not self._edited(pl):
                return [at], [at], self._nonempty(pl)
            return None
        if isinstance(leaf, ast.Subscript) and isinstance(leaf.slice, ast.Name):
            c = self._cursor(leaf, at)
            if c is not None:
                return list(c[0]), list(c[0]), c[1]
            return None
        if isinstance(leaf, ast.Call):
            r = resolve_local_callee(self.ck, fa, leaf)
            if r is None or any(isinstance(a, ast.Starred) for a in leaf.args) or any(k.arg is None for k in leaf.keywords):
                return None
            fi, params = r
            fed = [params[i] for i, a in enumerate(leaf.args) if i < len(params) and self.seqs.role(a, at) == self.role] + \
                  [k.arg for k in leaf.keywords if k.arg in params and self.seqs.role(k.value, at) == self.role]
            if len(fed) == 1 and returns_first_failure(self.ck, fi, fed[0]):
                return [at], [at], None
            return None
        if isinstance(leaf, ast.Name):
            # a local that keeps the element a scan loop stopped at
            st = fa.cfg.node(at).ast
            h = self.home(st) if st is not None else None
            if h is not None and self.current(h[0], h[1], leaf, at):
                return heads_of(fa, h[0]), [at], None
        return None

    def _edited(self, e):
        """Is the local list `e` changed after it was made?"""
        if not isinstance(e, ast.Name):
            return False
        fa = self.fa
        if len(all_defs(fa, e.id)) != 1 or e.id in fa.df.params:
            return True
        return bool(pushes(fa, e.id) or other_edits(fa, e.id))

    def value(self, e, at):
        """If `e` holds the first failing element, or None when there is none: the list of its non-None cases as
        (entry nodes, commit nodes, gates, presence test); None when `e` may hold anything else."""
        fa = self.fa
        out = []
        kept = {}
        for (leaf, n, gates) in self.cases(e, at):
            if A.is_none(leaf):
                continue
            h = self.hit_leaf(leaf, n)
            if h is None:
                return None
            entry, commit, pres = h
            st = fa.cfg.node(n).ast
            home = self.home(st) if (isinstance(leaf, ast.Name) and st is not None) else None
            if home is not None:
                kept.setdefault(id(home[0]), (home, []))[1].append(n)
            out.append((entry, commit, gates, pres))
        for (home, acts) in kept.values():
            if not self.scan_complete(home[0], home[1], acts):
                return None
        return out or None

    def present(self, val, e, at, preds, base):
        """Atom: every test that says "the value `e` (as read at node `at`) is not None / is truthy", or that one of
        the presence tests `preds` reads as "there is a failing element", has the value `val`; other tests as `base`
        says."""
        fa = self.fa
        want = fa.xnorm(e, at)

        def f(t, n):
            nt = none_test(t)
            x, v = (nt[0], (not nt[1]) == val) if nt is not None else (t, val)
            if isinstance(x, ast.NamedExpr) and isinstance(x.target, ast.Name):
                # `(v := E) is not None`: the test binds what is raised
                if isinstance(e, ast.Name) and e.id == x.target.id and [d.node for d in fa.df.reaching(at, e.id)] == [n]:
                    return v
            elif isinstance(x, (ast.Name, ast.Attribute, ast.Subscript)) and fa.xnorm(x, n) == want \
                    and (not isinstance(x, ast.Name) or n == at or fa.df.same_defs(x.id, n, at)):
                return v
            for pr in preds:
                got = pr(t, n)
                if got is not None:
                    return got == val
            return base(t, n)
        return f


_RFF_BUSY = set()
NOTHING = (lambda e, n: None)


def returns_first_failure(ck, fi, pname):
    """Does the function return the first element (in order) of its parameter `pname` that is an Exception instance,
    and None when there is none — on every path, whatever the other parameters are?"""
    key = (fi.qual, pname)
    if key in _RFF_BUSY:
        return False
    _RFF_BUSY.add(key)
    try:
        g = FA(ck, normal_form(ck, fi))
        if pname not in g.fi.params or any(isinstance(x, (ast.Yield, ast.YieldFrom, ast.Await)) for x in ast.walk(g.node)):
            return False
        ff = FirstFailure(ck, g, Seqs(g, pname), "input")
        rets = [r for r in g.returns() if g.nodes(r)]
        in_loop = {}
        nones, scans = [], []
        ok = True
        for r in rets:
            at = g.nodes(r)[0]
            if r.value is None or A.is_none(r.value):
                nones += g.nodes(r)
                continue
            h = ff.home(r)
            if h is not None and ff.current(h[0], h[1], r.value, at):
                in_loop.setdefault(id(h[0]), (h, []))[1].extend(g.nodes(r))
                continue
            cs = ff.value(r.value, at)
            if cs is None:
                return False
            preds = [l for (_e, _c, _g, l) in cs if l is not None]
            for (entry, _commit, gates, pres) in cs:
                # the case is selected when there is a failing element, and (a leaf that needs one to exist) only then
                on = all(eval3(g, t, n, ff.present(True, r.value, at, preds, NOTHING)) is arm for (t, n, arm) in gates)
                off = pres is None or any(eval3(g, t, n, ff.present(False, r.value, at, preds, NOTHING)) is (not arm) for (t, n, arm) in gates)
                # and it is computed on every path to this return
                ok = ok and on and off and all(g.cfg.must_pass(entry, i) for i in g.nodes(r))
        for (h, acts) in in_loop.values():
            ok = ok and ff.scan_complete(h[0], h[1], acts)
            scans += heads_of(g, h[0])
        # "None" is answered only after a scan came to its end
        falls = g.cfg.exit in g.cfg.reach([g.cfg.entry], removed=set(g.nodes_all(rets)))
        if nones or falls:
            ok = ok and bool(scans) and all(g.cfg.must_pass(scans, i) for i in nones)
            if falls:
                ok = ok and g.cfg.exit not in g.cfg.reach([g.cfg.entry], removed=set(g.nodes_all(rets)) | set(scans))
        return ok and bool(rets)
    finally:
        _RFF_BUSY.discard(key)


def _first_exception_ok(ck, cb, run):
    """Iff raise_first_exception, the first element (in order) of the runner's answer that is an Exception instance is
    raised.  Decided on what can be reached from the runner call when the flag is taken as set / as not set and a
    failing element as present / absent: with the flag set, a complete in-order scan of the answer stands between the
    runner call and every normal return and its first failing element is raised (and nothing is raised when there is
    none); with the flag not set no element is chosen."""
    FLAG = "raise_first_exception"

    def flag(val):
        def f(e, n):
            if isinstance(e, ast.Name) and cb.xnorm(e, n) == FLAG and all(d.kind == "param" for d in cb.df.reaching(n, FLAG)):
                return val
            return None
        return f

    def answer_role(seqs, e, at):
        return "answer" if e is run else None

    seqs = Seqs(cb, None, answer_role)
    seqs.assume = flag(True)
    ff = FirstFailure(ck, cb, seqs, "answer", flag(True))
    start = cb.nodes(run)
    after = cb.cfg.reach(start, include_start=False)
    raises = []
    for r in cb.stmts(ast.Raise):
        if r.exc is None or not (set(cb.nodes(r)) & after):
            continue
        if isinstance(r.exc, ast.Call) and isinstance(r.exc.func, ast.Name) and r.exc.func.id[:1].isupper():
            continue  # a freshly constructed error (argument validation)
        raises.append(r)
    if not raises:
        return False
    after_off = cb.cfg.reach(start, edge_ok=under(cb, flag(False)), include_start=False)
    in_loop = {}
    for r in raises:
        at = cb.nodes(r)[0]
        h = ff.home(r)
        if h is not None and ff.current(h[0], h[1], r.exc, at):
            in_loop.setdefault(id(h[0]), (h, []))[1].extend(cb.nodes(r))
            continue
        # `raise V` for a value V that holds the first failing element, or None
        cs = ff.value(r.exc, at)
        if cs is None:
            return False
        lists = [l for (_e, _c, _g, l) in cs if l is not None]
        there = ff.present(True, r.exc, at, lists, flag(True))
        for (entry, commit, gates, _pres) in cs:
            # flag not set: the raise is not reached, or the element is not chosen (or the choice is gated by the flag)
            off = not (set(cb.nodes(r)) & after_off) or not (set(commit) & after_off) or any(eval3(cb, t, n, flag(False)) is (not arm) for (t, n, arm) in gates)
            # flag set and a failing element present: the gates select this case
            on = all(eval3(cb, t, n, there) is arm for (t, n, arm) in gates)
            if not (off and on):
                return False
        entries = {i for (e_, _c, _g, _l) in cs for i in e_}
        commits = {i for (_e, c_, _g, _l) in cs for i in c_}
        same = set(cb.nodes_all([q for q in raises if cb.xnorm(q.exc, cb.nodes(q)[0]) == cb.xnorm(r.exc, at)]))
        # flag set, a failing element present: no normal return, and the raise comes after the scan
        if cb.cfg.exit in cb.cfg.reach(start, removed=same, edge_ok=under(cb, there), include_start=False):
            return False
        if set(cb.nodes(r)) & cb.cfg.reach(start, removed=entries, edge_ok=under(cb, there), include_start=False):
            return False
        # no failing element (or nothing chosen because the flag is not set): V is None and is not raised
        for base in (flag(True), flag(False)):
            if set(cb.nodes(r)) & cb.cfg.reach(start, edge_ok=under(cb, ff.present(False, r.exc, at, lists, base)), include_start=False):
                return False
        # what was found is not replaced before it is raised
        if isinstance(r.exc, ast.Name):
            others = {d.node for d in all_defs(cb, r.exc.id)} - commits
            before_raise = {i for i in after if set(cb.nodes(r)) & cb.cfg.reach([i], include_start=False)}
            if others & before_raise & cb.cfg.reach(sorted(commits), edge_ok=under(cb, flag(True)), include_start=False):
                return False
    for (h, acts) in in_loop.values():
        lp, p = h
        if not ff.scan_complete(lp, p, acts):
            return False
        if set(acts) & after_off:
            return False
        if cb.cfg.exit in cb.cfg.reach(start, removed=set(heads_of(cb, lp)), edge_ok=under(cb, flag(True)), include_start=False):
            return False
    return True


def single_entry(x):
    """(key, value) of a dictionary with exactly one entry: `{k: v}`, `dict([(k, v)])`, `dict(((k, v),))`."""
    if isinstance(x, ast.Dict) and len(x.keys) == 1 and x.keys[0] is not None:
        return x.keys[0], x.values[0]
    if isinstance(x, ast.Call) and isinstance(x.func, ast.Name) and x.func.id == "dict" and len(x.args) == 1 and not x.keywords:
        pair = single_item(x.args[0])
        if isinstance(pair, ast.Tuple) and len(pair.elts) == 2:
            return pair.elts[0], pair.elts[1]
    return None


def as_dict_comprehension(v):
    """(key, value, generators) of `{k: v for ...}` / `dict((k, v) for ...)` / `dict([(k, v) for ...])`."""
    if isinstance(v, ast.DictComp):
        return v.key, v.value, v.generators
    if isinstance(v, ast.Call) and isinstance(v.func, ast.Name) and v.func.id == "dict" and len(v.args) == 1 and not v.keywords \
            and isinstance(v.args[0], (ast.GeneratorExp, ast.ListComp)) and isinstance(v.args[0].elt, ast.Tuple) and len(v.args[0].elt.elts) == 2:
        return v.args[0].elt.elts[0], v.args[0].elt.elts[1], v.args[0].generators
    return None


def _range_call_role(mr):
    """Roles in map_over_range: 'values:<id>' = a list made (once) from the range argument as given;
    'results:<id>' = call_batch over one single-entry kwargs per element of that list, in order."""
    RAW = {"next", "iter", "items", "keys", "values"}

    def role(seqs, e, at):
        src = spread_copy(e)
        if src is None and isinstance(e, ast.Call) and isinstance(e.func, ast.Name) and e.func.id in ("list", "tuple") and len(e.args) == 1 and not e.keywords \
                and not isinstance(e.args[0], ast.Starred):
            src = e.args[0]
        if src is not None:
            d = mr.df.deps(src, at)
            if "param:kwargs" in d and all(x.split(":", 1)[1] in RAW for x in d if x.startswith("call:")):
                return "values:%d" % id(e)
            return None
        if not isinstance(e, ast.Call):
            return None
        if A.call_attr(e) == "call_batch" and A.arg_or_kw(e, 0, "kwargs_list") is not None:
            # failures are raised, not paired with their values (the default; spelled out or not)
            rfe = A.arg_or_kw(e, 1, "raise_first_exception")
            if rfe is not None and not (isinstance(rfe, ast.Constant) and rfe.value is True):
                return None
            elts = per_element(seqs, A.arg_or_kw(e, 0, "kwargs_list"), at)
            if not elts:
                return None
            ids = set()
            for (x, n, p) in elts:
                x, n = bound_value(mr, x, n)
                if single_entry(x) is None:
                    return None
                r = p.elem_role(seqs, single_entry(x)[1], n)
                if not (r or "").startswith("values:"):
                    return None
                ids.add(r.split(":")[1])
            return "results:%s" % ids.pop() if len(ids) == 1 else None
        return None
    return role


def _pairing_ok(mr, ret):
    seqs = Seqs(mr, None, _range_call_role(mr))
    at = mr.nodes(ret)[0]

    def paired(kr, vr):
        return bool(kr) and bool(vr) and kr.startswith("values:") and vr == "results:" + kr.split(":")[1]

    lv = origins(mr, ret.value, at)
    if len(lv) != 1:
        return False
    v, vat = lv[0]
    dc = as_dict_comprehension(v)
    if dc is not None:
        key, val, gens = dc
        if len(gens) != 1 or gens[0].ifs:
            return False
        p = pos_iter(seqs, gens[0].target, gens[0].iter, vat)
        return p is not None and paired(p.elem_role(seqs, key, vat), p.elem_role(seqs, val, vat))
    if isinstance(v, ast.Call) and isinstance(v.func, ast.Name) and v.func.id == "dict" and len(v.args) == 1 and not v.keywords \
            and isinstance(v.args[0], ast.Call) and A.call_attr(v.args[0]) == "zip" and len(v.args[0].args) == 2 \
            and all(k.arg == "strict" for k in v.args[0].keywords):
        z = v.args[0]
        return paired(seqs.role(z.args[0], vat), seqs.role(z.args[1], vat))
    if isinstance(v, ast.Dict) and not v.keys and isinstance(ret.value, ast.Name):
        # an empty dict filled by one `d[value] = result` per position
        name = ret.value.id
        if len(all_defs(mr, name)) != 1:
            return False
        if any(A.dotted(A.call_recv(c)) == name for c in mr.calls()) or any(
                isinstance(t, ast.Subscript) and A.dotted(t.value) == name for s in mr.stmts(ast.Delete) for t in s.targets):
            return False
        sets = [(s, t) for s in mr.stmts((ast.Assign, ast.AugAssign)) for t in (s.targets if isinstance(s, ast.Assign) else [s.target])
                if isinstance(t, ast.Subscript) and A.dotted(t.value) == name and mr.nodes(s)]
        loops = position_loops(mr, seqs)
        homes = [enclosing_position(mr, loops, s) for (s, t) in sets]
        if not sets or any(isinstance(s, ast.AugAssign) for (s, t) in sets) or any(h is None or h[0] is not homes[0][0] for h in homes):
            return False
        lp, p = homes[0]
        if mr.enclosing(lp, (ast.For, ast.While)) is not None or mr.inside(ret, lp):
            return False
        skip, twice = iteration_counts(mr, heads_of(mr, lp), mr.nodes_all([s for (s, t) in sets]))
        return not skip and not twice and all(paired(p.elem_role(seqs, t.slice, mr.nodes(s)[0]), p.elem_role(seqs, s.value, mr.nodes(s)[0])) for (s, t) in sets)
    return False


def _single_is_bulk_of_one(ck):
    """Does the tree define the single lookup as the bulk query for one key — `get_memento(k)` being
    `self.get_mementos([k])[0]`, defined once?"""
    cache = ck.__dict__.setdefault("_single_is_bulk", [])
    if cache:
        return cache[0]
    defs = [c.methods["get_memento"] for m in ck.repo.modules.values() for c in m.all_classes() if "get_memento" in c.methods]
    ok = len(defs) == 1 and len(defs[0].params) == 2
    if ok:
        rets = [r for r in ast.walk(defs[0].node) if isinstance(r, ast.Return)]
        body = [st for st in defs[0].node.body if not (isinstance(st, ast.Expr) and isinstance(st.value, ast.Constant))]
        v = rets[0].value if len(rets) == 1 and len(body) == 1 and body[0] is rets[0] else None
        ok = isinstance(v, ast.Subscript) and isinstance(v.slice, ast.Constant) and v.slice.value == 0 and type(v.slice.value) is int \
            and isinstance(v.value, ast.Call) and A.call_attr(v.value) == "get_mementos" and A.dotted(A.call_recv(v.value)) == defs[0].params[0] \
            and len(v.value.args) == 1 and not v.value.keywords and single_item(v.value.args[0]) is not None \
            and A.dotted(single_item(v.value.args[0])) == defs[0].params[1]
    cache.append(bool(ok))
    return cache[0]


def single_lookups(ck, fa):
    """[(expression that yields the stored memento of ONE call, the call node the CFG evaluates, receiver, key)]:
    `S.get_memento(k)` and — where the tree defines the former as exactly that — `S.get_mementos([k])[0]`."""
    out = []
    for c in fa.calls("get_memento"):
        if fa.nodes(c) and len(c.args) + len(c.keywords) == 1 and A.call_recv(c) is not None:
            out.append((c, c, A.call_recv(c), (list(c.args) + [k.value for k in c.keywords])[0]))
    if _single_is_bulk_of_one(ck):
        for n in A.walk_local(fa.node):
            if isinstance(n, ast.Subscript) and isinstance(n.ctx, ast.Load) and isinstance(n.slice, ast.Constant) and n.slice.value == 0 and type(n.slice.value) is int \
                    and isinstance(n.value, ast.Call) and A.call_attr(n.value) == "get_mementos" and fa.nodes(n.value) and A.call_recv(n.value) is not None \
                    and len(n.value.args) == 1 and not n.value.keywords and single_item(n.value.args[0]) is not None:
                out.append((n, n.value, A.call_recv(n.value), single_item(n.value.args[0])))
    return out


def is_valid_flag(fa, e, at, _depth=0):
    """Does `e` hold the `valid_result` verdict of an ExistingMementoResult (field read, or the second component
    of one unpacked into two names)?"""
    if isinstance(e, ast.Attribute):
        return e.attr == "valid_result"
    if isinstance(e, ast.Subscript) and isinstance(e.slice, ast.Constant) and e.slice.value == 1:
        return all(isinstance(x, ast.Call) and A.call_attr(x) in ("process_existing_memento", "ExistingMementoResult") for (x, _n) in origins(fa, e.value, at))
    if isinstance(e, ast.Name) and _depth < 6:
        ds = fa.df.reaching(at, e.id)
        if not ds:
            return False
        real = 0
        for d in ds:
            if d.kind == "assign" and isinstance(d.value, ast.Constant) and not d.value.value:
                continue    # "not served" by default: a truthy value can only come from the other bindings
            real += 1
            if d.kind == "assign" and d.value is not None:
                if not is_valid_flag(fa, d.value, d.node, _depth + 1):
                    return False
            elif d.kind == "unpack" and isinstance(d.stmt, ast.Assign) and len(d.stmt.targets) == 1 and isinstance(d.stmt.targets[0], ast.Tuple) \
                    and len(d.stmt.targets[0].elts) == 2 and A.norm(d.stmt.targets[0].elts[1]) == e.id:
                lv = origins(fa, d.value, d.node)
                if not (lv and all(isinstance(x, ast.Call) and A.call_attr(x) in ("process_existing_memento", "ExistingMementoResult") for (x, _n) in lv)):
                    return False
            else:
                return False
        return real > 0
    return False


def check(ck):
    from .memo import check_new_memo_tables
    ck.run(check_new_memo_tables, ck, "C15.M1", ('runner_local', 'base', 'storage_base'))
    ck.rule("C15.R6", "call / call_batch hand every element to memento_run_batch and take outcomes only from its result", 4)
    ck.run(check_batch_goes_through_runner, ck, "C15.R6")
    R1, R2, R3, R4 = ("C15.R%d" % i for i in range(1, 5))
    ck.rule(R2, "alignment: the bulk pre-check is a comprehension over the same sequence, in the same order, that the "
                "loop enumerates; existing mementos are indexed with the loop index", 3)
    ck.rule(R3, "call_batch builds one reference per kwargs in order and raises the first exception; map_over_range "
                "pairs values and results by the same index", 4)
    ck.rule(R4, "an element without a valid served result goes through memento_run_local", 1)

    ctx, br = check_slots(ck, R1)
    ck.run(_check_front_end, ck, R3)
    if ctx is None:
        return
    ck.run(_check_alignment, ck, R2, R4, ctx, br)
    ck.run(check_typed_identity, ck, "C15.R5", ("base", "runner_local"))


def _check_alignment(ck, R2, R4, ctx, br):
    loop, loop_ast, pit, seqs = ctx
    heads = heads_of(br, loop_ast)
    # ---- R2
    pre = br.one([c for c in br.calls("get_mementos") if br.nodes(c)], "bulk get_mementos call")
    arg = pre.args[0] if pre.args else None
    ok2 = arg is not None and precheck_elements_ok(seqs, arg, br.nodes(pre)[0])
    ck.ob(R2, br.key(pre, "precheck-sequence"), ok2, "pre-check covers every element, in input order" if ok2 else
          "the bulk pre-check is not a plain comprehension over the input sequence (filtered, sorted or reordered)", br.where(pre))
    src = br.df.deps(loop_ast.iter, loop.id)
    ok3 = "param:fn_reference_with_args" in src and not any(d in src for d in ("call:sorted", "call:reversed", "call:set", "call:filter"))
    ck.ob(R2, br.key(loop_ast, "loop-sequence"), ok3, "the loop enumerates the input sequence (optionally wrapped for progress display)" if ok3 else
          "the loop does not enumerate the input sequence in order", br.where(loop_ast))

    def is_bulk(e, at):
        lv = origins(br, e, at)
        return bool(lv) and all(x is pre for (x, _n) in lv)
    subs = [n for n in A.walk_local(loop_ast) if isinstance(n, ast.Subscript) and isinstance(n.ctx, ast.Load) and br.nodes(n) and is_bulk(n.value, br.nodes(n)[0])]
    # ... or taken off an iterator over the bulk answer that is advanced in step with the loop
    subs += [c for c in br.calls("next") if isinstance(c.func, ast.Name) and c.args and br.nodes(c) and br.inside(c, loop_ast)
             and any(d.startswith("call:get_mementos") for d in br.deps(c.args[0], br.nodes(c)[0]))]
    ok4 = all(pit.elem_role(seqs, s, br.nodes(s)[0]) == "bulk" for s in subs) and (bool(subs) or "bulk" in pit.elems.values())
    ck.ob(R2, br.key(loop_ast, "indexing"), ok4, "existing mementos are read at the loop index" if ok4 else
          "existing mementos are not indexed with the loop index", br.where(loop_ast))
    emr = [c for c in br.calls("process_existing_memento") if br.nodes(c)]
    ok5 = bool(emr) and all(A.arg_or_kw(c, 1, "existing_memento") is not None
                            and pit.elem_role(seqs, A.arg_or_kw(c, 1, "existing_memento"), br.nodes(c)[0]) == "bulk" and br.inside(c, loop_ast) for c in emr)
    ck.ob(R2, br.key(None, "served-from-own-memento"), ok5, "an element is served from its own memento" if ok5 else
          "process_existing_memento is not given the element's own memento", br.where())

    # ---- R4: within one iteration, every path to the next element either established that the served result is
    # valid or passes memento_run_local
    runs = [c for c in br.calls("memento_run_local") if br.nodes(c)]
    valid_edges = edges_implying(br, lambda k, e, b, n: k == "truth" and b and is_valid_flag(br, e, n))
    ok10 = bool(runs) and bool(valid_edges)
    if ok10:
        live = sense(br).reach(body_starts(br, heads), removed=set(br.nodes_all(runs)), edge_ok=not_edges(valid_edges))
        ok10 = not (set(heads) & live)
        ck.paths_enumerated += 1
    ck.ob(R4, br.key(loop_ast, "not-served-runs"), ok10, "a non-served element runs through memento_run_local (per-call mutex, re-check)" if ok10 else
          "an element without a valid served result can skip memento_run_local", br.where(loop_ast))
    rl = nfa(ck, RL + ".memento_run_local")
    lk = [c for (_e, c, _r, _k) in single_lookups(ck, rl)]
    okl = bool(lk) and all(rl.unconditional(c) for c in lk) and all(rl.cfg.must_pass(rl.nodes_all(lk), i) for i in rl.nodes_all(rl.calls("_filter_call")))
    ck.ob(R4, rl.key(None, "recheck-unconditional"), okl, "memento_run_local looks the call up again, unconditionally, before running the body" if okl else
          "memento_run_local can skip its own store lookup (it trusts an earlier bulk query): an element memoized by an earlier element of the "
          "same batch (duplicate, or a callee) runs its body again", rl.where(lk[0] if lk else None))
    for c in runs:
        a = A.arg_or_kw(c, 1, "fn_reference_with_args")
        okc = a is not None and br.inside(c, loop_ast) and pit.elem_role(seqs, a, br.nodes(c)[0]) == "input"
        ck.ob(R4, br.key(c, "element"), okc, "memento_run_local receives the loop element" if okc else
              "memento_run_local is not called with the current element", br.where(c))


def _with_args_is_constructor(ck):
    """FunctionReference.with_args(*args, _memento_context_args=c, **kwargs) is FunctionReferenceWithArguments(self, args, kwargs, c)."""
    fi = ck.repo.try_func("reference.FunctionReference.with_args")
    if fi is None or not fi.node.args.vararg or not fi.node.args.kwarg:
        return False
    rets = [r for r in ast.walk(fi.node) if isinstance(r, ast.Return)]
    if len(rets) != 1 or not (isinstance(rets[0].value, ast.Call) and A.call_attr(rets[0].value) == "FunctionReferenceWithArguments"):
        return False
    c = rets[0].value
    got = [A.arg_or_kw(c, i, nm) for i, nm in enumerate(("fn_reference", "args", "kwargs", "context_args"))]
    want = [fi.params[0], fi.node.args.vararg.arg, fi.node.args.kwarg.arg, "_memento_context_args"]
    return all(g is not None and A.norm(g) == w for g, w in zip(got, want))


def reference_parts(ck, fa, x, n):
    """(fn_reference, args, kwargs, context_args) expressions of an expression that builds a FunctionReferenceWithArguments —
    by its constructor or through FunctionReference.with_args — or None.  A missing part is None."""
    x, n = bound_value(fa, x, n)
    if not isinstance(x, ast.Call):
        return None
    if A.call_attr(x) == "FunctionReferenceWithArguments" and not any(isinstance(a, ast.Starred) for a in x.args) and not any(k.arg is None for k in x.keywords):
        return tuple(A.arg_or_kw(x, i, nm) for i, nm in enumerate(("fn_reference", "args", "kwargs", "context_args"))) + (n,)
    if A.call_attr(x) == "with_args" and isinstance(x.func, ast.Attribute) and _with_args_is_constructor(ck):
        named = [k for k in x.keywords if k.arg is not None and k.arg != "_memento_context_args"]
        spread = [k.value for k in x.keywords if k.arg is None]
        star = [a.value for a in x.args if isinstance(a, ast.Starred)]
        if named or len(spread) != 1 or len(star) > 1 or (star and len(x.args) != 1):
            return None
        args = star[0] if star else (ast.Tuple(elts=list(x.args), ctx=ast.Load()))
        return (x.func.value, args, spread[0], A.kwarg(x, "_memento_context_args"), n)
    return None


def _check_front_end(ck, R3):
    cb = nfa(ck, "base.MementoFunctionBase.call_batch")
    run, seqs, arg, elts = call_batch_dispatch(cb)
    built = [(reference_parts(ck, cb, x, n), p) for (x, n, p) in elts or []]

    def no_positional(e, n):
        # the empty tuple, wherever it was written (`args = ()` ... `args=args`)
        lv = origins(cb, e, n)
        return bool(lv) and all((isinstance(x, ast.Tuple) and not x.elts) or (isinstance(x, ast.Call) and isinstance(x.func, ast.Name) and x.func.id == "tuple"
                                                                                and not x.args and not x.keywords) for (x, _n) in lv)

    def is_ref(parts, p):
        if parts is None:
            return False
        _f, args, kw, _c, n = parts
        return kw is not None and p.elem_role(seqs, kw, n) == "input" and (args is None or no_positional(args, n))
    ok6 = bool(built) and all(is_ref(parts, p) for (parts, p) in built)
    ck.ob(R3, cb.key(None, "refs-in-order"), ok6, "one reference per kwargs, in order" if ok6 else
          "call_batch does not build exactly one reference per kwargs in input order", cb.where())
    # ... and builds it as the single call does: same function reference, same context arguments (what the argument
    # hash — the key the result is stored under — is computed from besides the arguments themselves)
    one = nfa(ck, "base.MementoFunctionBase.call")
    single = [reference_parts(ck, one, c, one.nodes(c)[0]) for c in one.calls() if one.nodes(c) and A.call_attr(c) in ("FunctionReferenceWithArguments", "with_args")]
    single = [x for x in single if x is not None]
    if ok6 and single:
        def text(fa_, e, n):
            return fa_.xnorm(e, n) if e is not None else "<none>"
        want = {(text(one, f_, n), text(one, c_, n)) for (f_, _a, _k, c_, n) in single}
        got = {(text(cb, parts[0], parts[4]), text(cb, parts[3], parts[4])) for (parts, _p) in built}
        oks = len(want) == 1 and got == want
        ck.ob(R3, cb.key(None, "refs-as-single-call"), oks, "batch elements are referenced as the single call references them" if oks else
              "call_batch builds its references differently from the single call (function reference / context arguments: %s vs %s): a batch "
              "element is looked up and stored under another argument hash than the same call made individually" % (sorted(got), sorted(want)), cb.where())
    okb = bool(elts)
    ck.ob(R3, cb.key(run, "dispatch"), okb, "the whole list is dispatched as one batch" if okb else
          "call_batch does not dispatch the list it built", cb.where(run))
    ok7 = _first_exception_ok(ck, cb, run)
    ck.ob(R3, cb.key(None, "first-exception"), ok7, "with raise_first_exception the first exception in input order is raised" if ok7 else
          "call_batch does not raise the first exception (in input order) iff raise_first_exception", cb.where())
    rv = [r for r in cb.returns() if cb.nodes(r)]
    ok8 = bool(rv) and all(r.value is not None and _is_run_result(cb, run, r.value, cb.nodes(r)[0]) for r in rv)
    ck.ob(R3, cb.key(None, "returns-batch-result"), ok8, "the batch result list is returned as is" if ok8 else
          "call_batch does not return the runner's result list unchanged", cb.where())
    mr = nfa(ck, "base.MementoFunctionBase.map_over_range")
    ret = mr.one([r for r in mr.returns() if mr.nodes(r)], "return")
    ok9 = ret.value is not None and _pairing_ok(mr, ret)
    ck.ob(R3, mr.key(None, "pairing"), ok9, "values and results are paired by the same index" if ok9 else
          "map_over_range does not pair value_list[i] with result_list[i] for the list it evaluated", mr.where(ret))
